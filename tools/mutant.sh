#!/bin/bash
# tools/mutant.sh <name> <file-relative-to-repo> <python-regex-or-literal-old> <new> -- <check args...>
# Applies a one-line textual mutation to a scratch copy of /repo (under /var/tmp), runs a check
# against it with VERIF_REPO, removes the copy.  Exit status: that of the check.
name=$1; file=$2; old=$3; new=$4; shift 4; [ "$1" = "--" ] && shift
D=/var/tmp/mpyc-mut-$name-$$
mkdir -p $D && cp -r /repo/mpyc $D/mpyc
python3 - "$D/$file" "$old" "$new" <<'PY' || { rm -rf $D; echo "MUTATION-NOT-APPLIED"; exit 3; }
import sys
p, old, new = sys.argv[1:4]
s = open(p).read()
if s.count(old) != 1:
    print('pattern occurs', s.count(old), 'times'); sys.exit(1)
open(p, 'w').write(s.replace(old, new))
PY
cd /verif && VERIF_REPLAY_DIR=$D/replays VERIF_REPO=$D ./check "$@" --no-evidence
rc=$?
rm -rf $D
exit $rc
