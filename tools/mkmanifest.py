#!/usr/bin/env python3
"""Generate MANIFEST.json from tools/meta.py (dev tool; the result is committed)."""
import json, os, sys
root = os.path.dirname(os.path.dirname(os.path.abspath(__file__)))
sys.path.insert(0, os.path.join(root, 'tools'))
from meta import META, NOT_APPLICABLE
props = [json.loads(l) for l in open(os.path.join(root, 'properties.jsonl'))]
checks = []
na = []
for p in props:
    pid = p['id']
    if pid in META and os.path.exists(os.path.join(root, 'props', pid.lower() + '.py')) \
            and os.path.exists(os.path.join(root, 'evidence', pid + '.json')):
        m = META[pid]
        checks.append(dict(
            property_id=pid,
            quick_cmd=f'./check {pid} --tier quick',
            thorough_cmd=f'./check {pid} --tier thorough',
            evidence_file=f'evidence/{pid}.json',
            replay_cmd_template=f'./check {pid} --replay {{path}}',
            engine='vlib',
            level_claimed=dict(category=m['level'], text=m['text'], design_ref='DESIGN.md ' + m['ref']),
            level_note=m['note'],
            technique=m['technique']))
    else:
        na.append(dict(property_id=pid, reason=NOT_APPLICABLE.get(pid, 'check not built yet in this round (planned: see DESIGN.md §3)')))
man = dict(
    version=1,
    setup_cmd='./setup.sh',
    hooks=dict(guard='MPYC_VERIF', enable='no hooks: all observation is done from harness code by attribute assignment on imported modules; MPYC_VERIF is reserved and unused',
               baseline_off_cmd='cd /repo && /venv/bin/python -m pytest -ra -q -p no:cacheprovider --timeout=900 --continue-on-collection-errors',
               source_commits=[], add_only=True),
    engines=[dict(name='vlib', path='vlib/', serves_properties=[c['property_id'] for c in checks],
                  kind_free_text='Hypothesis-driven property-based testing with an in-process multi-party simulator (harness-owned schedules), reference oracles, exhaustive enumeration of small cells, sharded over 16 processes')],
    checks=checks,
    notes='Every check: ./check <ID> --tier quick|thorough [--replay file]; exit 0 held / 1 VIOLATION / 2 HARNESS-ERROR. known_findings.json lists recorded and fixed genuine defects.',
    not_applicable=na)
json.dump(man, open(os.path.join(root, 'MANIFEST.json'), 'w'), indent=1)
print('checks', len(checks), 'not_applicable', len(na))
