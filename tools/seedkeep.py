#!/usr/bin/env python3
"""tools/seedkeep.py <sid> <worktree> <k> <property> <detected_by csv> <missed_by csv> <needs...>
Copy a confirmed seeded change into /verif/seeded/<sid>/ with meta.json."""
import sys, os, shutil, json
sid, wt, k, prop, det, miss = sys.argv[1:7]
needs = ' '.join(sys.argv[7:])
d = f'/verif/seeded/{sid}'
os.makedirs(d, exist_ok=True)
shutil.copy(f'{wt}/SEED/patch{k}.diff', f'{d}/patch.diff')
shutil.copy(f'{wt}/SEED/demo{k}.py', f'{d}/demo.py')
if os.path.exists(f'{wt}/SEED/notes.md'):
    shutil.copy(f'{wt}/SEED/notes.md', f'{d}/notes.md')
meta = dict(id=sid, property=prop, needs_to_manifest=needs,
            confirmed=dict(ran=[f'tools/seedconfirm.sh {wt} {k}'],
                           demo_clean_tree='exit 0', repo_tests_with_patch='71 passed, 13 skipped', demo_with_patch='exit 1'),
            checks_run='tools/seedverif.sh seeded/%s/patch.diff <ID> --tier quick (scratch copy of /repo with the patch, VERIF_REPO)' % sid,
            detected_by=[x for x in det.split(',') if x], not_detected_by=[x for x in miss.split(',') if x])
json.dump(meta, open(f'{d}/meta.json', 'w'), indent=1)
print('kept', d)
