#!/bin/bash
# tools/seedregress.sh [ids...]: re-run, for every filed seeded change, the first check listed in its meta.json
# "detected_by" against a scratch copy of /repo with the patch applied; prints one line per seed.
cd "$(dirname "$0")/.." || exit 2
for d in seeded/*/; do
  id=$(basename $d)
  if [ $# -gt 0 ] && ! echo " $* " | grep -q " $id "; then continue; fi
  chk=$(python3 -c "import json;m=json.load(open('$d/meta.json'));print((m['detected_by'] or ['-'])[0])")
  [ "$chk" = "-" ] && { echo "$id  (no detecting check recorded)"; continue; }
  out=$(tools/seedverif.sh $d/patch.diff $chk --tier quick 2>&1 | grep -E "VIOLATION|PATCH-FAILED|HARNESS" | head -1)
  case "$out" in
    VIOLATION*) echo "$id  $chk  detected";;
    *) echo "$id  $chk  NOT-DETECTED  $out";;
  esac
done
