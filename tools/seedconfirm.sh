#!/bin/bash
# tools/seedconfirm.sh <worktree> <k>: confirm seeded change k in a scratch worktree:
# clean tree: demo passes; with patch: repo tests pass (71 passed) and demo fails.
wt=$1; k=$2
cd $wt || exit 2
git checkout -q -- mpyc
echo "== demo on clean tree"; timeout 600 /venv/bin/python SEED/demo$k.py >/tmp/seedc.$$ 2>&1; echo "exit=$?"; tail -2 /tmp/seedc.$$
git apply SEED/patch$k.diff || { echo "PATCH DOES NOT APPLY"; exit 3; }
echo "== tests with patch"; /venv/bin/python -m pytest -q -p no:cacheprovider tests 2>&1 | tail -1
echo "== demo with patch"; timeout 600 /venv/bin/python SEED/demo$k.py >/tmp/seedc.$$ 2>&1; echo "exit=$?"; tail -3 /tmp/seedc.$$
git checkout -q -- mpyc; rm -f /tmp/seedc.$$
