#!/bin/bash
# tools/seedverif.sh <patch.diff> <check-id> [more check args]: run a check against a scratch copy of /repo
# with the seeded patch applied (VERIF_REPO), never touching /repo itself; removes the copy afterwards.
patch=$(readlink -f $1); shift
D=/var/tmp/seedrun-$$
mkdir -p $D && cp -r /repo/mpyc $D/mpyc && (cd $D && git init -q . 2>/dev/null; patch -p1 -s < $patch) || { echo PATCH-FAILED; rm -rf $D; exit 3; }
cd /verif && VERIF_REPLAY_DIR=$D/replays VERIF_REPO=$D ./check "$@" --no-evidence 2>&1 | grep -v "^  " | tail -4
rc=${PIPESTATUS[0]}
rm -rf $D
exit $rc
