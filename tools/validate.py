#!/usr/bin/env python3-vt
"""Validate MANIFEST.json and evidence/*.json against the schemas in /root/.vp (dev tool)."""
import json, sys, glob, os
import jsonschema
root = os.path.dirname(os.path.dirname(os.path.abspath(__file__)))
ms = json.load(open('/root/.vp/MANIFEST.schema.json'))
es = json.load(open('/root/.vp/EVIDENCE.schema.json'))
man = json.load(open(os.path.join(root, 'MANIFEST.json')))
jsonschema.validate(man, ms)
props = [json.loads(l)['id'] for l in open(os.path.join(root, 'properties.jsonl'))]
claimed = [c['property_id'] for c in man['checks']]
na = [c['property_id'] for c in man.get('not_applicable', [])]
assert len(set(claimed)) == len(claimed)
missing = [p for p in props if p not in claimed and p not in na]
print('manifest ok; claimed', len(claimed), 'n/a', len(na), 'unlisted', missing)
bad = 0
for c in man['checks']:
    f = os.path.join(root, c['evidence_file'])
    if not os.path.exists(f):
        print('no evidence', f); bad += 1; continue
    ev = json.load(open(f))
    try:
        jsonschema.validate(ev, es)
        assert ev['level'] == c['level_claimed']['category'], 'level mismatch'
    except Exception as e:
        print('BAD', f, str(e)[:300]); bad += 1
sys.exit(1 if bad or missing else 0)
