"""Per-property manifest metadata (level, claim text, trusted base, technique): tools/meta.d/<ID>.json."""
import glob, json, os
_d = os.path.join(os.path.dirname(os.path.abspath(__file__)), 'meta.d')
META = {os.path.basename(f)[:-5]: json.load(open(f)) for f in sorted(glob.glob(os.path.join(_d, 'C*.json')))}
NOT_APPLICABLE = {}
