"""Per-property manifest metadata (level, claim text, trusted base, technique)."""
META = {
 'C17': dict(level='exploration', ref='§3 C17',
   text='Hypothesis-generated keys/bounds/inputs/counts/shapes; determinism, range, length/shape and '
        'scalar/list/array consistency checked, plus a differential against an independent '
        're-implementation of the documented shake_128 construction. Sampled search: no absence claim.',
   note='Trusts hashlib.shake_128 and numpy 2.5.3 (array variant); bounds up to 2^300, keys up to 64 bytes.',
   technique='property-based testing (Hypothesis): differential vs reference PRF + determinism/range/shape laws'),
}
NOT_APPLICABLE = {}
