"""Per-property manifest metadata (level, claim text, trusted base, technique)."""
META = {
 'C17': dict(level='exploration', ref='§3 C17',
   text='Hypothesis-generated keys/bounds/inputs/counts/shapes; determinism, range, length/shape and '
        'scalar/list/array consistency checked, plus a differential against an independent '
        're-implementation of the documented shake_128 construction. Sampled search: no absence claim.',
   note='Trusts hashlib.shake_128 and numpy 2.5.3 (array variant); bounds up to 2^300, keys up to 64 bytes.',
   technique='property-based testing (Hypothesis): differential vs reference PRF + determinism/range/shape laws'),

 'C01': dict(level='exploration', ref='§3 C01',
   text='Generated straight-line SecInt(l) programs covering every operation of the statement, executed by the unmodified mpyc code of m parties in the in-process simulator (m=1..7, every legal t, PRSS on/off, l=2..16, thorough to 64) and compared node-by-node with Python integer arithmetic at every receiving party. Sampled search over programs, inputs and configurations; no absence claim.',
   note='Trusts the simulator wiring (real Runtime/MessageExchanger objects, in-memory transports) and Python int arithmetic as oracle; sec_param=30; comparison operands generated with in-range differences.',
   technique='property-based testing (Hypothesis) of generated MPC programs in a multi-party simulator, differential vs Python int reference interpreter'),
 'C08': dict(level='exploration', ref='§3 C08',
   text='Each generated program (with mid-program awaits on possibly-completed values, barriers, public zero tests, user coroutines) is executed under >=8 harness-owned schedules (round-robin, serial, fast, PCT priorities with change points, seeded random walks, generated stream chunkings); every schedule must run every party to completion (hang = quiescence with a pending main task, no wall clock) with reference-equal outputs. Explores the PCT/random-walk schedule family, not all interleavings.',
   note='Schedule model preserves per-party callback FIFO and per-connection byte FIFO and is fair (bounded postponement), so explored schedules are realisable; real sockets replaced by in-memory transports.',
   technique='property-based testing with harness-owned schedules (PCT-style + random walk) in a multi-party simulator; oracle: completion at quiescence + reference-equal outputs across schedules'),
}
NOT_APPLICABLE = {}
