#!/usr/bin/env python3
"""Print the prompt for a fresh seeded-change sub-agent (property text only; nothing from /verif)."""
import json, sys
pid = sys.argv[1]
n = sys.argv[2] if len(sys.argv) > 2 else '2'
p = [json.loads(l) for l in open('/verif/properties.jsonl') if json.loads(l)['id'] == pid][0]
wt = f'/tmp/seed-{pid}'
print(f"""You are given a scratch git worktree of the pure-Python secure multiparty computation package lschoe/mpyc at {wt}. Work ONLY inside {wt}. Do NOT read, list or touch /verif or /repo (the point of this exercise is that your work is independent of an existing verification effort).

Here is a semantic property that users of mpyc rely on:

TITLE: {p.get('title')}
STATEMENT: {p['statement']}
QUANTIFIED OVER: {p['quantifier']['text']}
CODE ANCHORS: {json.dumps(p.get('anchors', {}).get('mechanism', []))}

Your task: produce {n} independent, realistic change(s) to the source under {wt}/mpyc that BREAK this property while the package still imports and the existing test suite still passes unedited: `cd {wt} && /venv/bin/python -m pytest -q -p no:cacheprovider tests` must still report 71 passed, 13 skipped (NumPy is not installed, that is expected).

Requirements for each change:
* It must need something specific to manifest -- a particular interleaving or message timing, a crash or fault at a particular point, a multi-step sequence of operations, an unusual input or configuration (e.g. a particular number of parties/threshold, a rare branch, a boundary value), or two cooperating sites that each look fine alone. NOT something ordinary use would expose at once (a change that breaks every multiplication is useless).
* It should look like a slip a maintainer could plausibly make (refactoring error, off-by-one in a rarely taken branch, an 'optimisation' with a missed case, a wrong constant for one configuration), a few lines at most.
* Provide a demonstration: a small program `demo<k>.py` that exits 0 when the property holds and exits 1 (printing what went wrong) when it is violated; it must exit 1 with your change applied and exit 0 on the unchanged tree. It is run as `cd {wt} && /venv/bin/python SEED/demo<k>.py` (it may spawn subprocesses). For multi-party behaviour note: the test suite only ever runs ONE party; mpyc can run m parties as local processes over loopback TCP: `/venv/bin/python prog.py -M3 --no-log` starts 3 local parties (see {wt}/demos and `mpyc/runtime.py` `setup`/`start`); options `-T t` (threshold), `--no-prss`. A demo may use that (subprocess with a timeout: a hang counts as failure), or drive `mpyc.asyncoro.MessageExchanger` / `mpyc.thresha` etc. directly, whatever shows the violation most reliably. Keep demos fast (< 60 s) and deterministic if at all possible (if the violation is probabilistic, loop until it shows and say so).

Deliverables, all under {wt}/SEED/ (create it):
* patch<k>.diff  -- `git diff` of change k against the worktree HEAD (only files under mpyc/), k = 1..{n}
* demo<k>.py     -- the demonstration for change k
* notes.md       -- per change: what it breaks, what exactly is needed for it to manifest, the commands you ran and their outcomes (tests pass with the change; demo fails with it and passes without it)
Leave the worktree itself CLEAN at the end (git checkout -- mpyc), with only the SEED/ directory added. Verify each patch applies with `git apply SEED/patch<k>.diff` on the clean worktree.

Final message: a short summary per change (file/function touched, trigger condition, demo result).""")
