#!/usr/bin/env python3
"""Regenerate the generated tables of DESIGN.md (between <!-- BEGIN x --> / <!-- END x --> markers):
   findings (from known_findings.json + known_findings.d) and seeded changes (from seeded/*/meta.json)."""
import json, glob, os, re
root = os.path.dirname(os.path.dirname(os.path.abspath(__file__)))


def findings():
    k = json.load(open(os.path.join(root, 'known_findings.json')))['findings']
    for f in sorted(glob.glob(os.path.join(root, 'known_findings.d', '*.json'))):
        k.append(json.load(open(f)))
    out = ['| id | property | status | what | repo commit |', '|---|---|---|---|---|']
    def key(e):
        m = re.match(r'F(\d+)(.*)', e['id'])
        return (int(m.group(1)), m.group(2))
    for e in sorted(k, key=key):
        out.append(f"| {e['id']} | {e['property']} | {e['status']} | {e['what'].replace('|', '/')[:400]} | {e.get('commit', '')} |")
    return '\n'.join(out)


def seeds():
    out = ['| seeded change | property | needs to manifest | detected by | not detected by |', '|---|---|---|---|---|']
    for f in sorted(glob.glob(os.path.join(root, 'seeded', '*', 'meta.json'))):
        m = json.load(open(f))
        out.append(f"| {m['id']} | {m['property']} | {m['needs_to_manifest'].replace('|', '/')} | {', '.join(m['detected_by']) or '-'} | {', '.join(m['not_detected_by']) or '-'} |")
    return '\n'.join(out)


def checks():
    out = ['| property | level | deciding technique | quick-tier evaluations | distinct non-trivial |', '|---|---|---|---|---|']
    for f in sorted(glob.glob(os.path.join(root, 'tools', 'meta.d', 'C*.json'))):
        pid = os.path.basename(f)[:-5]
        m = json.load(open(f))
        ev = os.path.join(root, 'evidence', pid + '.json')
        e = json.load(open(ev)) if os.path.exists(ev) else None
        n, nt = (e['coverage']['evaluations'], e['coverage']['distinct_nontrivial']) if e and e.get('tier') == 'quick' else ('', '')
        out.append(f"| {pid} | {m['level']} | {m['technique'].replace('|', '/')} | {n} | {nt} |")
    return '\n'.join(out)


p = os.path.join(root, 'DESIGN.md')
s = open(p).read()
for name, body in (('findings', findings()), ('seeds', seeds()), ('checks', checks())):
    b, e = f'<!-- BEGIN {name} -->', f'<!-- END {name} -->'
    if b in s:
        s = s[:s.index(b) + len(b)] + '\n' + body + '\n' + s[s.index(e):]
open(p, 'w').write(s)
print('tables regenerated')
