"""Small independent oracles, written from definitions; shares no code with mpyc.

Polynomials over GF(p) are tuples of coefficients (low degree first) without trailing zeros.
Elements of GF(p^n) = GF(p)[X]/(f) are such tuples of degree < n.
"""

import itertools
import math
from fractions import Fraction  # noqa: F401


# ---------------------------------------------------------------- integers / primes
def is_prime(n):
    if n < 2:
        return False
    for q in (2, 3, 5, 7, 11, 13, 17, 19, 23, 29, 31, 37):
        if n % q == 0:
            return n == q
    if n < 37 * 37:
        return True
    if n < 1 << 20:
        i = 41
        while i * i <= n:
            if n % i == 0:
                return False
            i += 2
        return True
    # deterministic Miller-Rabin for n < 3.3e24 with these bases; beyond that 40 fixed bases
    d, s = n - 1, 0
    while d % 2 == 0:
        d //= 2
        s += 1
    bases = (2, 3, 5, 7, 11, 13, 17, 19, 23, 29, 31, 37, 41)
    if n >= 3317044064679887385961981:
        bases = bases + tuple(range(43, 200, 2))
    for a in bases:
        a %= n
        if a == 0:
            continue
        x = pow(a, d, n)
        if x in (1, n - 1):
            continue
        for _ in range(s - 1):
            x = x * x % n
            if x == n - 1:
                break
        else:
            return False
    return True


def next_prime(n):
    n = max(n, 1) + 1
    while not is_prime(n):
        n += 1
    return n


def prev_prime(n):
    n -= 1
    while n >= 2 and not is_prime(n):
        n -= 1
    return n if n >= 2 else None


def factor(n):
    """Prime factorisation by trial division (small n)."""
    f = {}
    d = 2
    while d * d <= n:
        while n % d == 0:
            f[d] = f.get(d, 0) + 1
            n //= d
        d += 1 if d == 2 else 2
    if n > 1:
        f[n] = f.get(n, 0) + 1
    return f


def legendre_def(a, p):
    """Legendre symbol by Euler's criterion (p odd prime)."""
    a %= p
    if a == 0:
        return 0
    return 1 if pow(a, (p - 1) // 2, p) == 1 else -1


def jacobi_def(a, n):
    """Jacobi symbol via factorisation of n (n odd positive, small)."""
    r = 1
    for q, e in factor(n).items():
        r *= legendre_def(a, q) ** e
    return r


def kronecker_def(a, n):
    """Kronecker symbol by its definition (small |n|)."""
    if n == 0:
        return 1 if abs(a) == 1 else 0
    r = 1
    if n < 0:
        n = -n
        if a < 0:
            r = -r
    e2 = 0
    while n % 2 == 0:
        n //= 2
        e2 += 1
    if e2:
        if a % 2 == 0:
            return 0
        k2 = 1 if a % 8 in (1, 7) else -1
        r *= k2 ** e2
    return r * jacobi_def(a, n) if n > 1 else r


def order_mod(w, p):
    """Multiplicative order of w modulo prime p (p-1 factored by trial division)."""
    assert w % p
    n = p - 1
    for q in factor(n):
        while n % q == 0 and pow(w, n // q, p) == 1:
            n //= q
    return n


# ---------------------------------------------------------------- polynomials over GF(p)
def ptrim(a):
    a = list(a)
    while a and a[-1] == 0:
        a.pop()
    return tuple(a)


def padd(a, b, p):
    n = max(len(a), len(b))
    return ptrim([((a[i] if i < len(a) else 0) + (b[i] if i < len(b) else 0)) % p for i in range(n)])


def pneg(a, p):
    return ptrim([(-x) % p for x in a])


def psub(a, b, p):
    return padd(a, pneg(b, p), p)


def pmul(a, b, p):
    if not a or not b:
        return ()
    r = [0] * (len(a) + len(b) - 1)
    for i, x in enumerate(a):
        for j, y in enumerate(b):
            r[i + j] = (r[i + j] + x * y) % p
    return ptrim(r)


def pdivmod(a, b, p):
    if not b:
        raise ZeroDivisionError
    a = list(a)
    q = [0] * max(0, len(a) - len(b) + 1)
    inv = pow(b[-1], -1, p)
    while len(a) >= len(b) and any(a):
        while a and a[-1] == 0:
            a.pop()
        if len(a) < len(b):
            break
        c = a[-1] * inv % p
        d = len(a) - len(b)
        q[d] = c
        for i, y in enumerate(b):
            a[i + d] = (a[i + d] - c * y) % p
    return ptrim(q), ptrim(a)


def pmod(a, b, p):
    return pdivmod(a, b, p)[1]


def pmonic(a, p):
    if not a:
        return ()
    inv = pow(a[-1], -1, p)
    return tuple(x * inv % p for x in a)


def pgcd(a, b, p):
    a, b = ptrim(a), ptrim(b)
    while b:
        a, b = b, pmod(a, b, p)
    return pmonic(a, p)


def ppowmod(a, n, m, p):
    """a^n mod m by repeated multiplication semantics (square-and-multiply), n >= 0."""
    r = pmod((1,), m, p)
    a = pmod(a, m, p)
    while n:
        if n & 1:
            r = pmod(pmul(r, a, p), m, p)
        a = pmod(pmul(a, a, p), m, p)
        n >>= 1
    return r


def pfrom_int(x, p):
    """Integer -> polynomial with base-p digits."""
    a = []
    while x:
        x, r = divmod(x, p)
        a.append(r)
    return tuple(a)


def pto_int(a, p):
    r = 0
    for c in reversed(a):
        r = r * p + c
    return r


def peval(a, x, p):
    r = 0
    for c in reversed(a):
        r = (r * x + c) % p
    return r


def all_polys(p, maxdeg):
    """All polynomials of degree <= maxdeg (as tuples), zero first, in integer order."""
    for x in range(p ** (maxdeg + 1)):
        yield pfrom_int(x, p)


def is_irreducible_bf(a, p):
    """Irreducible iff degree >= 1 and no monic factor of degree 1..deg/2 (brute force)."""
    a = ptrim(a)
    d = len(a) - 1
    if d < 1:
        return False
    for k in range(1, d // 2 + 1):
        for low in itertools.product(range(p), repeat=k):
            f = tuple(low) + (1,)
            if not pmod(a, f, p):
                return False
    return True


# ---------------------------------------------------------------- GF(p^n) as polynomials mod f
class ExtField:
    def __init__(self, p, f):
        self.p = p
        self.f = ptrim(f)
        self.n = len(self.f) - 1
        self.q = p ** self.n

    def red(self, a):
        return pmod(a, self.f, self.p)

    def add(self, a, b):
        return padd(a, b, self.p)

    def sub(self, a, b):
        return psub(a, b, self.p)

    def neg(self, a):
        return pneg(a, self.p)

    def mul(self, a, b):
        return self.red(pmul(a, b, self.p))

    def pow(self, a, n):
        if n < 0:
            a = self.inv(a)
            n = -n
        if self.red(a) and n >= self.q:
            n %= self.q - 1  # a^(q-1) = 1 for a != 0
        return ppowmod(a, n, self.f, self.p)

    def inv(self, a):
        a = self.red(a)
        if not a:
            raise ZeroDivisionError
        # extended Euclid: r0 = f, r1 = a; invariant r_i = t_i * a (mod f)
        p = self.p
        r0, r1 = self.f, a
        t0, t1 = (), (1,)
        while r1:
            q, r = pdivmod(r0, r1, p)
            r0, r1 = r1, r
            t0, t1 = t1, psub(t0, pmul(q, t1, p), p)
        # r0 is a nonzero constant
        c = pow(r0[0], -1, p)
        return self.red(tuple(x * c % p for x in t0))

    def elems(self):
        for x in range(self.q):
            yield pfrom_int(x, self.p)


# ---------------------------------------------------------------- Lagrange over prime fields / ExtField
def lagrange_eval_prime(points, x, p):
    """Value at x of the unique polynomial of degree < len(points) through points (mod p)."""
    total = 0
    for i, (xi, yi) in enumerate(points):
        num, den = 1, 1
        for j, (xj, _) in enumerate(points):
            if i != j:
                num = num * (x - xj) % p
                den = den * (xi - xj) % p
        total = (total + yi * num * pow(den, -1, p)) % p
    return total


def interpolate_prime(points, p):
    """Coefficients (low first) of the unique polynomial of degree < len(points) through points."""
    n = len(points)
    coeffs = [0] * n
    for i, (xi, yi) in enumerate(points):
        # basis polynomial
        basis = (1,)
        den = 1
        for j, (xj, _) in enumerate(points):
            if i != j:
                basis = pmul(basis, ((-xj) % p, 1), p)
                den = den * (xi - xj) % p
        c = yi * pow(den, -1, p) % p
        for k, b in enumerate(basis):
            coeffs[k] = (coeffs[k] + c * b) % p
    return ptrim(coeffs)


def degree_prime(points, p):
    """Degree of the interpolating polynomial (-1 for zero polynomial)."""
    return len(interpolate_prime(points, p)) - 1


def interpolate_ext(points, F):
    """Same over an ExtField: points are (x, y) with x, y field elements (tuples)."""
    n = len(points)
    coeffs = [()] * n
    for i, (xi, yi) in enumerate(points):
        basis = [(1,)]  # list of field elements, low first
        den = (1,)
        for j, (xj, _) in enumerate(points):
            if i != j:
                # multiply basis by (X - xj)
                nb = [()] * (len(basis) + 1)
                for k, b in enumerate(basis):
                    nb[k] = F.sub(nb[k], F.mul(b, xj))
                    nb[k + 1] = F.add(nb[k + 1], b)
                basis = nb
                den = F.mul(den, F.sub(xi, xj))
        c = F.mul(yi, F.inv(den))
        for k, b in enumerate(basis):
            coeffs[k] = F.add(coeffs[k], F.mul(c, b))
    while coeffs and not coeffs[-1]:
        coeffs.pop()
    return coeffs


def subsets(n, k):
    return itertools.combinations(range(n), k)


def isqrt_def(n):
    return math.isqrt(n)
