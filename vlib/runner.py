"""Check runner: tiers, seeds, sharding, Hypothesis driving, evidence, replay, known findings.

Usage:  ./check <ID> [--tier quick|thorough] [--replay file] [--shards N] [--examples N]

Exit codes: 0 property held on everything explored (KNOWN-FINDING lines allowed),
            1 violation (prints `VIOLATION property=<ID> replay=<path>`),
            2 harness error (prints `HARNESS-ERROR ...`), never a VIOLATION.
"""

import argparse
import hashlib
import importlib
import json
import multiprocessing
import os
import sys
import time
import traceback

VERIF = os.path.dirname(os.path.dirname(os.path.abspath(__file__)))
KNOWN_FILE = os.path.join(VERIF, 'known_findings.json')


class Outcome:
    """Result of running one generated case.

    ok          property held on this case
    detail      human-readable explanation when not ok
    labels      class labels for the generator-health histogram
    nontrivial  case is non-trivial by the property's stated rule
    known       id of a listed known finding this failure belongs to (then not a violation)
    n, n_nt     for batch cases (exhaustive cells): evaluations / distinct non-trivial inside
    exhaustive  this case enumerated a finite cell completely
    inconclusive  case hit a step cap; counted, never a violation
    """
    __slots__ = ('ok', 'detail', 'labels', 'nontrivial', 'known', 'n', 'n_nt', 'exhaustive',
                 'inconclusive', 'skipped')

    def __init__(self, ok=True, detail='', labels=(), nontrivial=True, known=None, n=1, n_nt=None,
                 exhaustive=False, inconclusive=False, skipped=False):
        self.ok = ok
        self.detail = detail
        self.labels = list(labels)
        self.nontrivial = nontrivial
        self.known = known
        self.n = n
        self.n_nt = n_nt
        self.exhaustive = exhaustive
        self.inconclusive = inconclusive
        self.skipped = skipped


def fingerprint(case):
    return hashlib.sha1(json.dumps(case, sort_keys=True, default=str).encode()).hexdigest()[:16]


def load_known():
    try:
        with open(KNOWN_FILE) as f:
            data = json.load(f)
    except FileNotFoundError:
        data = {'findings': []}
    # committed fragments (one finding per file), merged read-only; never written at run time
    d = os.path.join(VERIF, 'known_findings.d')
    if os.path.isdir(d):
        have = {e['id'] for e in data['findings']}
        for fn in sorted(os.listdir(d)):
            if fn.endswith('.json'):
                with open(os.path.join(d, fn)) as f:
                    e = json.load(f)
                if e['id'] not in have:
                    data['findings'].append(e)
    return data


def known_ids(pid):
    """Finding ids that are listed as known (not fixed) for property pid."""
    return {e['id'] for e in load_known()['findings']
            if e['property'] == pid and e['status'] == 'known'}


def load_module(pid):
    return importlib.import_module(f'props.{pid.lower()}')


def _seed_for(pid, seed, shard):
    h = hashlib.sha256(f'{pid}/{seed}/{shard}'.encode()).digest()
    return int.from_bytes(h[:8], 'little')


class _Stats:
    def __init__(self):
        self.evals = 0
        self.cases = 0
        self.nt_fps = set()
        self.nt_extra = 0
        self.labels = {}
        self.samples = []
        self.known = {}
        self.inconclusive = 0
        self.skipped = 0
        self.exhaustive_cells = 0
        self.failure = None
        self.nonrepro = []
        self.also_failed = []

    def add(self, case, out, max_samples=3):
        self.cases += 1
        self.evals += out.n
        for lb in out.labels:
            self.labels[lb] = self.labels.get(lb, 0) + 1
        if out.inconclusive:
            self.inconclusive += 1
        if out.skipped:
            self.skipped += 1
        if out.exhaustive:
            self.exhaustive_cells += 1
        if out.n_nt is not None:
            self.nt_extra += out.n_nt
            nt = out.n_nt > 0
        else:
            nt = out.nontrivial and not out.skipped
            if nt:
                self.nt_fps.add(fingerprint(case))
        if nt and len(self.samples) < max_samples:
            self.samples.append(case)
        if out.known:
            self.known[out.known] = self.known.get(out.known, 0) + 1

    def export(self):
        return dict(evals=self.evals, cases=self.cases, nt_fps=sorted(self.nt_fps),
                    nt_extra=self.nt_extra, labels=self.labels, samples=self.samples,
                    known=self.known, inconclusive=self.inconclusive, skipped=self.skipped,
                    exhaustive_cells=self.exhaustive_cells, failure=self.failure, nonrepro=self.nonrepro[:3],
                    also_failed=self.also_failed)


class CaseTimeout(BaseException):
    """Raised by the watchdog inside a case (BaseException: not swallowed by `except Exception`)."""


def _on_alarm(signum, frame):
    raise CaseTimeout()


def _run_one(mod, case, known):
    """Run a case; classify failures against the known-findings list.

    Watchdog: a case that does not finish within CASE_TIMEOUT seconds (default 600; typical cases
    take milliseconds to a few seconds) is reported as non-termination of the code under test.
    """
    import signal
    limit = int(getattr(mod, 'CASE_TIMEOUT', 600))
    old = signal.signal(signal.SIGALRM, _on_alarm)
    signal.alarm(limit)
    try:
        out = mod.run_case(case)
    except CaseTimeout:
        if getattr(mod, 'TIMEOUT_INCONCLUSIVE', False):
            # simulator checks decide hangs by quiescence; there a watchdog hit only means a slow machine or an
            # expensive case: counted as inconclusive, never a violation
            return Outcome(True, inconclusive=True, nontrivial=False, labels=['watchdog-timeout'])
        out = Outcome(False, f'case did not terminate within {limit} s (watchdog): '
                      f'{json.dumps(case, default=str)[:1500]}')
        hook = getattr(mod, 'classify_timeout', None)
        if hook is not None:
            out.known = hook(case)
    finally:
        signal.alarm(0)
        signal.signal(signal.SIGALRM, old)
    if not out.ok and out.known and out.known not in known:
        out.known = None  # only findings listed in known_findings.json suppress anything
    return out


def _shard_worker(args):
    pid, tier, seed, shard, nshards, examples, no_shrink = args
    if os.environ.get('VERIF_FAULT_TIMEOUT'):
        import faulthandler
        faulthandler.dump_traceback_later(int(os.environ['VERIF_FAULT_TIMEOUT']), exit=True)
    try:
        return _shard(pid, tier, seed, shard, nshards, examples, no_shrink)
    except BaseException:
        return dict(harness_error=traceback.format_exc()[-4000:], shard=shard)


def _shard(pid, tier, seed, shard, nshards, examples, no_shrink):
    os.environ.setdefault('PYTHONHASHSEED', '0')
    mod = load_module(pid)
    known = known_ids(pid)
    st = _Stats()
    t0 = time.time()
    # 1. enumerated part (exhaustive cells), sharded by index
    enum = getattr(mod, 'enumerate_cases', None)
    if enum is not None:
        for idx, case in enumerate(enum(tier)):
            if idx % nshards != shard:
                continue
            out = _run_one(mod, case, known)
            st.add(case, out)
            if not out.ok and not out.known:
                if _run_one(mod, case, known).ok:
                    # passes when repeated at once: the failure depends on what ran before (state kept by the
                    # code under test or the harness); keep searching for a self-contained reproducer
                    st.nonrepro.append(dict(case=case, detail=out.detail))
                    continue
                st.failure = dict(case=case, detail=out.detail, phase='enumerate')
                return st.export()
    # 2. generated part
    strat_f = getattr(mod, 'strategy', None)
    if strat_f is not None and examples > 0:
        import hypothesis
        from hypothesis import given, settings, HealthCheck, Phase

        holder = {}

        phases = [Phase.generate] if no_shrink else [Phase.generate, Phase.shrink]

        @hypothesis.seed(_seed_for(pid, seed, shard))
        @settings(max_examples=examples, database=None, deadline=None, derandomize=False,
                  report_multiple_bugs=False, suppress_health_check=list(HealthCheck),
                  phases=phases, print_blob=False)
        @given(strat_f(tier))
        def test(case):
            if holder.get('timeout') is not None:
                raise AssertionError('timeout')  # do not shrink non-terminating cases: end quickly
            out = _run_one(mod, case, known)
            if holder.get('failed') is None:
                st.add(case, out)
            if not out.ok and not out.known and 'did not terminate within' not in out.detail \
                    and _run_one(mod, case, known).ok:
                st.nonrepro.append(dict(case=case, detail=out.detail))  # history-dependent: keep searching
                return
            if not out.ok and not out.known:
                holder['failed'] = dict(case=case, detail=out.detail, phase='generate')
                if len(st.also_failed) < 40:
                    st.also_failed.append(holder['failed'])  # fall-backs should the shrunk case not reproduce
                if 'did not terminate within' in out.detail:
                    holder['timeout'] = holder['failed']
                raise AssertionError(out.detail)

        try:
            test()
        except AssertionError:
            st.failure = holder.get('timeout') or holder['failed']  # last failing case = shrunk case
        except hypothesis.errors.Unsatisfiable as e:
            return dict(harness_error=f'strategy unsatisfiable: {e}', shard=shard)
        except Exception:
            if holder.get('failed') is not None:
                st.failure = holder['failed']
            else:
                raise
    ex = st.export()
    ex['wall'] = time.time() - t0
    return ex


def write_replay(pid, case, detail):
    d = os.environ.get('VERIF_REPLAY_DIR') or os.path.join(VERIF, 'replays')
    os.makedirs(d, exist_ok=True)
    path = os.path.join(d, f'{pid}-{fingerprint(case)}.json')
    with open(path, 'w') as f:
        json.dump(dict(property=pid, case=case, detail=detail[:4000]), f, indent=1, default=str)
    return path


def replay_file(pid, path):
    with open(path) as f:
        data = json.load(f)
    mod = load_module(pid)
    out = _run_one(mod, data['case'], known_ids(pid))
    return out


def _stored_replays(pid):
    d = os.path.join(VERIF, 'replays')
    if not os.path.isdir(d):
        return []
    return sorted(os.path.join(d, f) for f in os.listdir(d)
                  if f.startswith(pid + '-') and f.endswith('.json'))


def main(argv=None):
    ap = argparse.ArgumentParser()
    ap.add_argument('pid')
    ap.add_argument('--tier', default=os.environ.get('VERIF_TIER', 'quick'),
                    choices=['quick', 'thorough'])
    ap.add_argument('--replay')
    ap.add_argument('--shards', type=int, default=None)
    ap.add_argument('--examples', type=int, default=None, help='examples per shard (override)')
    ap.add_argument('--no-evidence', action='store_true')
    args = ap.parse_args(argv)
    pid = args.pid.upper()
    seed = int(os.environ.get('VERIF_SEED', '1') or '1')
    t0 = time.time()
    sys.path.insert(0, VERIF)
    try:
        mod = load_module(pid)
    except Exception:
        print(f'HARNESS-ERROR property={pid} cannot load check module')
        traceback.print_exc()
        return 2

    if args.replay:
        try:
            out = replay_file(pid, args.replay)
        except Exception:
            print(f'HARNESS-ERROR property={pid} replay crashed')
            traceback.print_exc()
            return 2
        if out.ok:
            print(f'replay {args.replay}: property holds on this case')
            return 0
        if out.known:
            print(f'KNOWN-FINDING: property={pid} {out.known} {out.detail[:300]}')
            return 0
        print(out.detail)
        print(f'VIOLATION property={pid} replay={args.replay}')
        return 1

    budget = mod.budget(args.tier)
    nshards = args.shards or budget.get('shards', 16)
    examples = args.examples if args.examples is not None else budget.get('examples', 100)
    no_shrink = budget.get('no_shrink', False)
    known_all = load_known()['findings']
    violations = []
    known_lines = []

    # 0. known-finding witnesses and fixed-entry regressions, stored replays
    try:
        known = known_ids(pid)
        for e in known_all:
            if e['property'] != pid:
                continue
            reported = False
            for w in e.get('witnesses', []):
                out = _run_one(mod, w, known | {e['id']})
                if e['status'] == 'known':
                    if not out.ok:
                        if out.known == e['id']:
                            if not reported:
                                known_lines.append(f"KNOWN-FINDING: property={pid} {e['id']} {e['what']}")
                                reported = True
                        else:
                            violations.append((w, f"witness of {e['id']} fails outside its "
                                               f"class: {out.detail}"))
                    # witness passes: finding no longer reproduces; print nothing
                else:  # fixed: suppresses nothing
                    if not out.ok:
                        violations.append((w, f"fixed finding {e['id']} is back: {out.detail}"))
        for path in _stored_replays(pid):
            with open(path) as f:
                data = json.load(f)
            out = _run_one(mod, data['case'], known)
            if not out.ok and not out.known:
                violations.append((data['case'], out.detail))
    except Exception:
        print(f'HARNESS-ERROR property={pid} witness/replay phase crashed')
        traceback.print_exc()
        return 2

    # 1. sharded search
    jobs = [(pid, args.tier, seed, s, nshards, examples, no_shrink) for s in range(nshards)]
    if nshards == 1:
        results = [_shard_worker(jobs[0])]
    else:
        ctx = multiprocessing.get_context('fork')
        with ctx.Pool(min(nshards, os.cpu_count() or 1)) as pool:
            results = pool.map(_shard_worker, jobs, chunksize=1)
    herr = [r for r in results if 'harness_error' in r]
    if herr:
        print(f'HARNESS-ERROR property={pid} shard {herr[0]["shard"]}:')
        print(herr[0]['harness_error'])
        return 2

    evals = sum(r['evals'] for r in results)
    cases = sum(r['cases'] for r in results)
    fps = set()
    for r in results:
        fps.update(r['nt_fps'])
    nt = len(fps) + sum(r['nt_extra'] for r in results)
    labels = {}
    kn = {}
    for r in results:
        for k, v in r['labels'].items():
            labels[k] = labels.get(k, 0) + v
        for k, v in r['known'].items():
            kn[k] = kn.get(k, 0) + v
    samples = []
    for r in results:
        for s in r['samples']:
            if len(samples) < 6:
                samples.append(s)
    inconcl = sum(r['inconclusive'] for r in results)
    skipped = sum(r['skipped'] for r in results)
    for r in results:
        if r['failure']:
            violations.append((r['failure']['case'], r['failure']['detail']))

    # confirm violations without Hypothesis, each in a FRESH process (`--replay`), so that a confirmed case is
    # a self-contained reproducer: a case that only failed because of state left by earlier cases in its shard
    # (in the code under test or in the harness) does not count; the other failing cases of the search (the
    # first, unshrunk ones are usually self-contained) are tried before giving up.
    confirmed = []
    tried = set()

    def fresh_confirm(case, detail):
        fp = fingerprint(case)
        if fp in tried:
            return None
        tried.add(fp)
        path = write_replay(pid, case, detail)
        import subprocess
        env = dict(os.environ, PYTHONHASHSEED='0')
        r = subprocess.run([sys.executable, '-m', 'vlib.runner', pid, '--replay', path], cwd=VERIF, env=env,
                           capture_output=True, text=True)
        if r.returncode == 1:
            return path, (r.stdout.strip().splitlines() or [detail])[0]
        os.remove(path)
        if r.returncode == 2:
            return 'crash', r.stdout[-1500:] + r.stderr[-1500:]
        return None

    for case, detail in violations:
        got = fresh_confirm(case, detail)
        if got and got[0] == 'crash':
            print(f'HARNESS-ERROR property={pid} confirmation run crashed')
            print(got[1])
            return 2
        if got is None and fingerprint(case) in tried:
            for r in results:
                for f in r.get('also_failed', []):
                    got = fresh_confirm(f['case'], f['detail'])
                    if got and got[0] != 'crash':
                        case = f['case']
                        break
                    got = None
                if got:
                    break
        if got is None:
            if any(c == case for c, _, _ in confirmed):
                continue
            # may be a known-finding case (exit 0 with KNOWN-FINDING) or a history-dependent failure
            out = _run_one(mod, case, known_ids(pid))
            if not out.ok and out.known:
                continue
            print(f'HARNESS-ERROR property={pid} failure did not reproduce in a fresh process: {detail[:500]}')
            print(json.dumps(case, default=str)[:2000])
            return 2
        confirmed.append((case, got[1], got[0]))

    wall = time.time() - t0
    if not args.no_evidence:
        level = getattr(mod, 'LEVEL', 'exploration')
        cov = dict(evaluations=evals, distinct_nontrivial=nt, rule=mod.RULE,
                   samples=samples if samples else ['(no non-trivial sample recorded)'],
                   generated_cases=cases, label_histogram=dict(sorted(labels.items())),
                   inconclusive=inconcl, skipped=skipped,
                   known_finding_cases_excluded=kn, shards=nshards,
                   examples_per_shard=examples)
        ex_cells = sum(r['exhaustive_cells'] for r in results)
        if ex_cells:
            cov['exhaustive_cells'] = ex_cells
            cov['exhaustive'] = bool(getattr(mod, 'EXHAUSTIVE_ONLY', False))
        ev = dict(property_id=pid, tier=args.tier, seed=seed, level=level, coverage=cov,
                  assumptions=list(getattr(mod, 'ASSUMPTIONS', [])), wall_s=round(wall, 2),
                  violations=len(confirmed))
        os.makedirs(os.path.join(VERIF, 'evidence'), exist_ok=True)
        with open(os.path.join(VERIF, 'evidence', f'{pid}.json'), 'w') as f:
            json.dump(ev, f, indent=1, default=str)
            f.write('\n')

    for line in known_lines:
        print(line)
    print(f'{pid} tier={args.tier} seed={seed} cases={cases} evaluations={evals} nontrivial={nt} '
          f'inconclusive={inconcl} known_excluded={kn} wall={wall:.1f}s')
    if cases and inconcl > 0.2 * cases:
        print(f'HARNESS-ERROR property={pid} too many inconclusive cases ({inconcl}/{cases})')
        return 2
    nonrepro = [x for r in results for x in r.get('nonrepro', [])]
    if nonrepro and not confirmed:
        print(f'HARNESS-ERROR property={pid} {len(nonrepro)} failure(s) that pass when the same case is repeated '
              f'(they depend on what ran before in the process); first: {nonrepro[0]["detail"][:600]}')
        print(json.dumps(nonrepro[0]['case'], default=str)[:1500])
        return 2
    if confirmed:
        for case, detail, path in confirmed:
            print(detail[:3000])
            print(f'VIOLATION property={pid} replay={os.path.relpath(path, VERIF)}')
        return 1
    if nt < 2:
        print(f'HARNESS-ERROR property={pid} fewer than 2 non-trivial cases')
        return 2
    return 0


if __name__ == '__main__':
    sys.exit(main())
