"""Independent Lagrange interpolation over any finite field kind, for the secret-sharing checks.

Shares no code with mpyc.  Three reference fields with one interface (zero, one, add, sub, mul, inv,
conv(int)): GF(p) on Python ints, GF(2^n) on Python ints as bit vectors (carry-less arithmetic; fast for
n up to several hundred), GF(p^n) on coefficient tuples via refmath.ExtField.  `basis(rf, xs)` returns the
coefficient vectors of the Lagrange basis polynomials for the x-coordinates xs, `coeffs(rf, B, ys)` the
coefficient vector (low degree first, fixed length len(xs)) of the unique polynomial of degree < len(xs)
through the points (xs[i], ys[i]).
"""
import functools
from vlib import refmath as R


class PrimeRef:
    kind = 'prime'

    def __init__(self, p):
        self.p = p
        self.zero, self.one = 0, 1 % p

    def conv(self, k):
        return k % self.p

    def add(self, a, b):
        return (a + b) % self.p

    def sub(self, a, b):
        return (a - b) % self.p

    def mul(self, a, b):
        return a * b % self.p

    def inv(self, a):
        if a % self.p == 0:
            raise ZeroDivisionError
        return pow(a, self.p - 2, self.p) if self.p > 2 else 1

    def from_elem(self, e):
        return e.value


class BinRef:
    """GF(2)[X]/(f): elements are ints (bit i = coefficient of X^i)."""
    kind = 'binary'

    def __init__(self, f):
        self.f = f
        self.n = f.bit_length() - 1
        self.zero, self.one = 0, 1 if self.n >= 1 else 0

    def red(self, a):
        f, n = self.f, self.n
        while a.bit_length() > n:
            a ^= f << (a.bit_length() - 1 - n)
        return a

    def conv(self, k):
        if k < 0:
            raise ValueError
        return self.red(k)

    def add(self, a, b):
        return a ^ b

    sub = add

    def mul(self, a, b):
        r = 0
        while b:
            if b & 1:
                r ^= a
            a <<= 1
            b >>= 1
        return self.red(r)

    def inv(self, a):
        a = self.red(a)
        if not a:
            raise ZeroDivisionError
        # a^(2^n - 2) by square-and-multiply
        r, e = 1, (1 << self.n) - 2
        while e:
            if e & 1:
                r = self.mul(r, a)
            a = self.mul(a, a)
            e >>= 1
        return r

    def from_elem(self, e):
        return int(e)


class ExtRef:
    kind = 'ext'

    def __init__(self, p, f):
        self.p = p
        self.F = R.ExtField(p, tuple(f))
        self.zero, self.one = (), (1,)

    def conv(self, k):
        if k < 0:
            raise ValueError
        return self.F.red(R.pfrom_int(k, self.p))

    def add(self, a, b):
        return self.F.add(a, b)

    def sub(self, a, b):
        return self.F.sub(a, b)

    def mul(self, a, b):
        return self.F.mul(a, b)

    def inv(self, a):
        return self.F.inv(a)

    def from_elem(self, e):
        return R.pfrom_int(int(e), self.p)


def ref_for(spec):
    """Reference field for a vlib.fields spec."""
    if 'f' not in spec:
        return PrimeRef(spec['p'])
    if spec['p'] == 2:
        return BinRef(sum(c << i for i, c in enumerate(spec['f'])))
    return ExtRef(spec['p'], spec['f'])


def basis(rf, xs):
    """Coefficient vectors (length len(xs), low first) of the Lagrange basis polynomials for xs."""
    m = len(xs)
    out = []
    for i in range(m):
        poly = [rf.one]
        den = rf.one
        for j in range(m):
            if j != i:
                nxt = [rf.zero] * (len(poly) + 1)
                for k, c in enumerate(poly):  # multiply by (X - x_j)
                    nxt[k] = rf.sub(nxt[k], rf.mul(c, xs[j]))
                    nxt[k + 1] = rf.add(nxt[k + 1], c)
                poly = nxt
                den = rf.mul(den, rf.sub(xs[i], xs[j]))
        d = rf.inv(den)
        out.append([rf.mul(c, d) for c in poly])
    return out


def coeffs(rf, B, ys):
    m = len(ys)
    c = [rf.zero] * m
    for i in range(m):
        if ys[i] != rf.zero:
            Bi = B[i]
            for k in range(m):
                c[k] = rf.add(c[k], rf.mul(ys[i], Bi[k]))
    return c


def degree(rf, c):
    d = len(c) - 1
    while d >= 0 and c[d] == rf.zero:
        d -= 1
    return d


def evaluate(rf, c, x):
    r = rf.zero
    for a in reversed(c):
        r = rf.add(rf.mul(r, x), a)
    return r


@functools.lru_cache(maxsize=256)
def _party_basis(key, m):
    import json
    rf = ref_for(json.loads(key))
    xs = [rf.conv(i + 1) for i in range(m)]
    if len(set(xs)) != m or rf.zero in xs:
        raise ValueError('field too small for m parties')
    return rf, xs, basis(rf, xs)


def party_basis(spec, m):
    """(reference field, x-coordinates of parties 0..m-1, Lagrange basis) -- cached."""
    import json
    return _party_basis(json.dumps(spec, sort_keys=True), m)


def selftest():
    """BinRef and the basis code against refmath's schoolbook implementations on a small instance."""
    f = (1, 1, 0, 1, 1, 0, 0, 0, 1)
    E = R.ExtField(2, f)
    B = BinRef(0x11b)
    for a in (1, 2, 3, 0x53, 0xca, 0xff, 0x80):
        for b in (1, 2, 0x53, 0xca, 0xfe):
            assert R.pfrom_int(B.mul(a, b), 2) == E.mul(R.pfrom_int(a, 2), R.pfrom_int(b, 2))
        assert R.pfrom_int(B.inv(a), 2) == E.inv(R.pfrom_int(a, 2))
    p = 11
    rf = PrimeRef(p)
    xs, ys = [1, 2, 3, 4, 5], [7, 0, 3, 3, 9]
    c = coeffs(rf, basis(rf, xs), ys)
    assert R.ptrim(c) == R.interpolate_prime(list(zip(xs, ys)), p)
    assert all(evaluate(rf, c, x) == y for x, y in zip(xs, ys))
    rb = BinRef(0b1011)
    xs, ys = [1, 2, 3, 4], [5, 0, 7, 1]
    c = coeffs(rb, basis(rb, xs), ys)
    E3 = R.ExtField(2, (1, 1, 0, 1))
    want = R.interpolate_ext([(R.pfrom_int(x, 2), R.pfrom_int(y, 2)) for x, y in zip(xs, ys)], E3)
    got = [R.pfrom_int(v, 2) for v in c]
    while got and not got[-1]:
        got.pop()
    assert got == want
