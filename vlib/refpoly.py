"""Reference helpers for GF(p)[X] beyond vlib/refmath.py (C23, C24); written from definitions.

Polynomials are coefficient tuples (low degree first) without trailing zeros, as in refmath.
Shares no code with mpyc.
"""
from vlib import refmath as R


def deg(a):
    return len(a) - 1


def ppow(a, n, p):
    """a^n by literal repeated multiplication (n >= 0, small)."""
    r = (1,)
    for _ in range(n):
        r = R.pmul(r, a, p)
    return r


def ppowmod_literal(a, n, m, p):
    """a^n mod m by literal repeated multiplication modulo m (n >= 0): the empty product is 1 mod m."""
    r = R.pmod((1,), m, p)
    for _ in range(n):
        r = R.pmod(R.pmul(r, a, p), m, p)
    return r


def pinvmod(a, m, p):
    """The unique r with deg r < deg m and a*r = 1 (mod m), or None if gcd(a, m) is not a unit. m != 0.

    For deg m = 0 the quotient ring is the zero ring and the answer is the zero polynomial.
    """
    r0, r1 = R.ptrim(m), R.pmod(a, m, p)
    t0, t1 = (), (1,)
    while r1:
        q, r = R.pdivmod(r0, r1, p)
        r0, r1 = r1, r
        t0, t1 = t1, R.psub(t0, R.pmul(q, t1, p), p)
    if len(r0) != 1:
        return None
    c = pow(r0[0], -1, p)
    inv = R.pmod(tuple(x * c % p for x in t0), m, p)
    assert R.pmod(R.psub(R.pmul(a, inv, p), (1,), p), m, p) == ()
    return inv


def ppowmod_ref(a, n, m, p):
    """Expected value of 'a to the power n modulo m' for any integer n; None if n < 0 and a has no
    inverse modulo m.  Literal repeated multiplication for |n| <= 24, square-and-multiply beyond."""
    if n < 0:
        a = pinvmod(a, m, p)
        if a is None:
            return None
        n = -n
    if n <= 24:
        return ppowmod_literal(a, n, m, p)
    return R.ppowmod(a, n, m, p)


def pderiv(a, k, p):
    """k-th formal derivative: coefficient of X^(i-k) is i(i-1)...(i-k+1) a_i."""
    out = []
    for i in range(k, len(a)):
        f = 1
        for j in range(k):
            f *= i - j
        out.append(f * a[i] % p)
    return R.ptrim(out)


def preverse(a, d=None):
    """Reverse of a as a polynomial of nominal degree d: pad with zeros / truncate to d+1 coefficients, reverse."""
    a = list(a)
    if d is None:
        d = len(a) - 1
    a = a[:d + 1]
    a += [0] * (d + 1 - len(a))
    a.reverse()
    return R.ptrim(a)


def cmp_key(a, p):
    """Order of the module docstring: by degree, then lexicographic from the leading coefficient = integer order."""
    return R.pto_int(a, p)


def to_terms(a, x='x'):
    """Sum-of-powers string as documented (highest degree first, coefficient 1 implicit except for the constant)."""
    if not a:
        return '0'
    parts = []
    for i in range(len(a) - 1, -1, -1):
        c = a[i]
        if not c:
            continue
        if i == 0:
            parts.append(f'{c}')
        elif i == 1:
            parts.append(f'{"" if c == 1 else c}{x}')
        else:
            parts.append(f'{"" if c == 1 else c}{x}^{i}')
    return '+'.join(parts)


# ---------------------------------------------------------------- irreducibility oracles
def monic_polys(p, d):
    """All monic polynomials of degree d."""
    for x in range(p ** d):
        low = list(R.pfrom_int(x, p))
        low += [0] * (d - len(low))
        yield tuple(low) + (1,)


def smallest_factor_bf(a, p):
    """A monic factor of smallest degree k with 1 <= k <= deg(a)/2, or None (brute-force trial division)."""
    a = R.ptrim(a)
    d = len(a) - 1
    for k in range(1, d // 2 + 1):
        for f in monic_polys(p, k):
            if not R.pmod(a, f, p):
                return f
    return None


def is_irreducible_bf(a, p):
    """Definition: degree >= 1 and no factorisation into two polynomials of degree >= 1."""
    a = R.ptrim(a)
    return len(a) - 1 >= 1 and smallest_factor_bf(a, p) is None


def bf_cost(a, p):
    """Number of trial divisions the brute force may need."""
    d = len(a) - 1
    return sum(p ** k for k in range(1, d // 2 + 1))


def is_irreducible_rabin(a, p):
    """Rabin's criterion (independent of mpyc's Ben-Or style loop): f of degree d >= 1 is irreducible iff
    X^(p^d) = X (mod f) and gcd(X^(p^(d/q)) - X, f) = 1 for every prime q | d.  Cross-validated against
    is_irreducible_bf on every enumerated polynomial by C24."""
    a = R.ptrim(a)
    d = len(a) - 1
    if d < 1:
        return False
    if d == 1:
        return True
    if a[0] == 0:
        return False  # X divides a and deg a >= 2
    f = R.pmonic(a, p)
    x = R.pmod((0, 1), f, p)
    h = [x]  # h[i] = X^(p^i) mod f
    for _ in range(d):
        h.append(R.ppowmod(h[-1], p, f, p))
    if h[d] != x:
        return False
    for q in R.factor(d):
        g = R.pgcd(R.psub(h[d // q], x, p), f, p)
        if g != (1,):
            return False
    return True


def is_irreducible_ref(a, p, bf_limit=4000):
    """Brute force when cheap enough, Rabin beyond."""
    if bf_cost(a, p) <= bf_limit:
        return is_irreducible_bf(a, p)
    return is_irreducible_rabin(a, p)


def next_monic_irreducible(x, p, is_irr=is_irreducible_ref, limit=None):
    """Least integer y > x whose base-p digit polynomial is monic and irreducible (the integer order is the
    order by degree, then lexicographic from the leading coefficient).  Returns (y, number_of_candidates_tested);
    (None, tested) if more than `limit` candidates would have to be tested."""
    y = x
    tested = 0
    while True:
        y += 1
        if limit is not None and tested >= limit:
            return None, tested
        f = R.pfrom_int(y, p)
        if f[-1] != 1:
            y = p ** len(f) - 1  # no monic polynomial of this degree above y: continue with degree + 1
            continue
        tested += 1
        if is_irr(f, p):
            return y, tested
