"""Generators and the case runner shared by C02 and C03 (secure fixed-point op records, see vlib/fxp.py).

A case is  {m, t, prss, l, f, seed, recs: [record, ...]}.  Records are constructed valid: operand
magnitudes are drawn inside the range the operation leaves room for, and `fit` then halves the
designated leaves until the exact reference accepts the record (in-range results) -- construction with
feedback from the reference, not rejection of cases.
"""
import math
from fractions import Fraction as Fr
from hypothesis import strategies as st
from vlib import fxp, progs
from vlib.runner import Outcome

# ------------------------------------------------------------------ cost model (ms at m=1, l=32; machine idle)
OP_COST = {'add': 1, 'neg': 1, 'cmp': 3, 'mul': 1.5, 'mulint': 1, 'mulfloat': 1.5, 'div': 28, 'divp': 1.5,
           'sincos': 100, 'trunc': 1.5, 'pow': 3, 'comp': 8, 'comp_div': 40, 'comp_sin': 220, 'comp_cmp': 10,
           'list_lin': 3, 'list_mul': 4, 'list_sel': 6, 'matprod': 5, 'seclist': 8, 'order': 10, 'scalar_sel': 6,
           'const': 1, 'chain': 8}


def cfg_mult(m, prss):
    if m == 1:
        return 1.0
    if m <= 3:
        return 4.0 if prss else 7.0
    if m <= 5:
        return 9.0 if prss else 22.0
    return 22.0 if prss else 55.0


# ------------------------------------------------------------------ context
class Ctx:
    def __init__(self, draw, l, f, m, tier):
        self.draw, self.l, self.f, self.m, self.tier = draw, l, f, m, tier
        self.one = 1 << f
        self.B = (1 << (l - 1)) - 1          # max raw
        self.whole_bias = 0.25               # share of whole-number leaves (C03 raises it)

    def sender(self):
        return self.draw(st.integers(0, self.m - 1))

    def mag(self, bound):
        """Magnitude in [0, bound], log-uniform with extremes."""
        d = self.draw
        bound = max(0, int(bound))
        if bound == 0:
            return 0
        how = d(st.integers(0, 9))
        if how == 0:
            return bound
        if how == 1:
            return d(st.sampled_from([0, 1, 1, 2, 3, bound - 1 if bound > 1 else 1]))
        if how == 2:  # around 1.0 / powers of two
            k = d(st.integers(0, bound.bit_length() - 1))
            v = (1 << k) + d(st.sampled_from([-1, 0, 0, 1]))
            return min(max(v, 0), bound)
        k = d(st.integers(1, bound.bit_length()))
        return min(d(st.integers(0, (1 << k) - 1)), bound)

    def raw(self, bound=None, whole=None, nonzero=False, lo=0):
        """Signed raw value with lo <= |raw| <= bound (default: full range)."""
        d = self.draw
        B = self.B if bound is None else min(int(bound), self.B)
        B = max(B, 0)
        if whole is None:
            whole = d(st.integers(0, 99)) < int(100 * self.whole_bias)
        if whole and B >= self.one:
            w = self.mag(B >> self.f)
            v = w << self.f
            if v < lo:
                v = ((lo + self.one - 1) >> self.f) << self.f
                if v > B:
                    v = lo
        else:
            v = self.mag(B)
            if v < lo:
                v = min(lo + self.mag(max(B - lo, 0)), B) if B >= lo else lo
        if nonzero and v == 0:
            v = min(1, B) if B >= 1 else 0
        if d(st.booleans()):
            v = -v
        if bound is None and v == -self.B and d(st.booleans()):
            v = -self.B - 1  # most negative representable value
        return v

    def leaf(self, bound=None, whole=None, nonzero=False, lo=0, flag=None, allow_const=True):
        d = self.draw
        v = self.raw(bound, whole, nonzero, lo)
        if allow_const and lo == 0 and d(st.integers(0, 11)) == 0:
            # secure constant: flag inferred by the constructor from an int / float value
            B = self.B if bound is None else min(int(bound), self.B)
            if d(st.booleans()):
                n = self.mag(min(B >> self.f, 1 << 20)) * (1 if v >= 0 else -1)
                if not (nonzero and n == 0):
                    return ['c', n]
            elif B < (1 << 52):
                x = self.pubfloat_repr(B, nonzero)
                return ['c', fxp.fl(x)]
        if flag is None:
            flag = d(st.sampled_from([True, True, False])) if v % self.one == 0 else d(st.sampled_from([False, False, True]))
        return ['s', v, self.sender(), bool(flag)]

    def pubfloat_repr(self, bound, nonzero=False):
        """A float that is an exact multiple of 2^-f with |raw| <= bound (< 2^53)."""
        B = min(int(bound), (1 << 52))
        v = self.raw(B, nonzero=nonzero)
        if abs(v) > B:
            v = 0 if not nonzero else 1
        return v / self.one  # exact: |v| < 2^53 and division by a power of two

    def pubint(self, bound_value, nonzero=False):
        d = self.draw
        b = max(0, int(bound_value))
        n = d(st.one_of(st.sampled_from([0, 1, -1, 2, -2, 3, 7, -8, 10]), st.integers(-40, 40),
                        st.integers(-b, b)))
        n = max(-b, min(b, n))
        if nonzero and n == 0:
            n = 1 if b >= 1 else 0
        return n


# ------------------------------------------------------------------ fitting
def _halve(node):
    if node[0] == 's':
        raw = node[1]
        sgn = -1 if raw < 0 else 1
        node[1] = sgn * (abs(raw) // 2)
    elif node[0] == 'c':
        v = fxp.pub_value(node[1])
        if isinstance(v, int):
            node[1] = (-1 if v < 0 else 1) * (abs(v) // 2)
        else:
            h = v / 2
            node[1] = fxp.fl(h if abs(h) >= 2.0 ** -40 else 0.0)
    elif node[0] == 'inl':
        for it in node[1]:
            it[0] = (-1 if it[0] < 0 else 1) * (abs(it[0]) // 2)


def leaves(node, path=()):
    """Paths of all secure leaves below node (divisor positions of 'div' excluded: keep=...)."""
    out = []
    if not isinstance(node, list) or not node or not isinstance(node[0], str):
        return out
    if node[0] in ('s', 'c', 'inl'):
        return [path]
    if node[0] == 'p':
        return out
    for i, ch in enumerate(node):
        if i == 0 or not isinstance(ch, list):
            continue
        if node[0] == 'div' and i == 2:
            continue  # divisors are not shrunk (they would enter the |y| < 1 class)
        if node[0] in ('sl_get', 'sl_set', 'sl_del', 'sl_pop', 'sl_ins') and i == 2:
            continue  # indices stay
        if node[0] in ('ifelse', 'ifelse_l', 'ifswap_l') and i == 1:
            continue  # conditions stay
        out.extend(leaves(ch, path + (i,)))
    return out


def fit(rec, l, f, rounds=70):
    """Halve the shrinkable leaves until the reference accepts the record; None if it never does."""
    paths = leaves(rec)
    for _ in range(rounds):
        try:
            fxp.reference(l, f, rec)
            return rec
        except fxp.Invalid:
            pass
        for p in paths:
            _halve(fxp.rec_at(rec, p))
    try:
        fxp.reference(l, f, rec)
        return rec
    except fxp.Invalid:
        return None


# ------------------------------------------------------------------ scalar builders (C02 clauses)
def isqrt_bound(c, parts=1):
    """max raw r with (r/2^f)^2 * parts inside the range."""
    return math.isqrt(((c.B - 2) << c.f) // max(1, parts))


def b_add(c):
    d = c.draw
    op = d(st.sampled_from(['add', 'sub']))
    a = c.leaf()
    how = d(st.integers(0, 9))
    lim_int = c.B >> c.f
    if how <= 5:
        b = c.leaf()
    elif how <= 7:
        b = ['p', c.pubint(min(lim_int, 1 << 30))]
    else:
        b = ['p', fxp.fl(c.pubfloat_repr(c.B // 2))]
    if b[0] == 'p' and d(st.booleans()):
        return [op, b, a]
    return [op, a, b]


def b_neg(c):
    return [c.draw(st.sampled_from(['neg', 'neg', 'pos'])), c.leaf()]


def b_cmp(c):
    d = c.draw
    rel = d(st.sampled_from(['lt', 'le', 'gt', 'ge', 'eq', 'ne']))
    a = c.leaf(allow_const=False)
    how = d(st.integers(0, 10))
    if how == 10:
        # differences at the ends of the range: -2^(l-1), 2^(l-1)-1, and one off
        av, bv = d(st.sampled_from([(-c.B - 1, 0), (-1, c.B), (c.B, 0), (0, -c.B), (-c.B, 0), (0, c.B), (-c.B - 1, -1),
                                    (c.B // 2, -(c.B // 2) - 1), (-(c.B // 2) - 1, c.B // 2 + 1)]))
        return ['cmp', rel, ['s', av, c.sender(), False], ['s', bv, c.sender(), False]]
    if how <= 2:
        b = ['s', a[1], c.sender(), a[3]]
    elif how <= 4:
        v = a[1] + d(st.sampled_from([-1, 1]))
        v = max(-c.B - 1, min(c.B, v))
        b = ['s', v, c.sender(), False]
    elif how <= 7:
        b = c.leaf()
    elif how == 8:
        b = ['p', c.pubint(min(c.B >> c.f, 1 << 30))]
    else:
        b = ['p', fxp.fl(c.pubfloat_repr(c.B // 2))]
    return ['cmp', rel, a, b]


def b_mul(c):
    d = c.draw
    if d(st.integers(0, 7)) == 0:
        return ['sq', c.leaf(isqrt_bound(c))]
    a = c.leaf()
    av = abs(_leafraw(c, a))
    bb = ((c.B - 2) << c.f) // max(1, av)
    return ['mul', a, c.leaf(bb)]


def _leafraw(c, a):
    if a[0] == 's':
        return a[1]
    v = fxp.pub_value(a[1])
    return round(Fr(v) * c.one)


def b_mulint(c):
    d = c.draw
    n = c.pubint(min(c.B >> c.f, 1 << 20) if d(st.booleans()) else 12)
    a = c.leaf((c.B - 2) // max(1, abs(n)))
    return ['mul', ['p', n], a] if d(st.booleans()) else ['mul', a, ['p', n]]


def pub_factor(c):
    """A public float factor: arbitrary, dyadic with few fractional bits, whole, tiny, large, zero."""
    d = c.draw
    how = d(st.integers(0, 9))
    if how <= 2:
        x = d(st.floats(-4, 4, allow_nan=False))
    elif how <= 4:   # k / 2^j: exercises the trailing-zeros shortcut (z between 0 and f, and z >= f)
        j = d(st.integers(0, c.f + 3))
        x = d(st.integers(-64, 64)) / (1 << j)
    elif how == 5:   # whole-valued floats
        x = float(d(st.integers(-9, 9)))
    elif how == 6:
        x = d(st.sampled_from([0.0, -0.0, 1e-9, -1e-12, 2.0 ** -(c.f + 1), 2.0 ** -c.f, 1.5 * 2.0 ** -c.f,
                               0.1, -0.3, 1 / 3, math.pi, -math.e]))
    elif how == 7:
        x = d(st.floats(-1, 1, allow_nan=False)) * 2.0 ** d(st.integers(-c.f - 4, 2))
    else:
        hi = min(c.l - c.f - 2, 40)
        x = d(st.floats(-1, 1, allow_nan=False)) * 2.0 ** d(st.integers(0, max(0, hi)))
    if not math.isfinite(x):
        x = 1.0
    return x


def b_mulfloat(c):
    d = c.draw
    x = pub_factor(c)
    den = abs(Fr(x)) + Fr(4, c.one)
    bound = int((Fr(c.B - 4)) / den) if den else c.B
    a = c.leaf(bound)
    return ['mul', ['p', fxp.fl(x)], a] if d(st.integers(0, 3)) == 0 else ['mul', a, ['p', fxp.fl(x)]]


def divisor(c, in_class):
    """Secure divisor: |y| >= 1 outside the F6 class, 2^-f <= |y| < 1 inside."""
    d = c.draw
    if in_class:
        v = max(1, c.mag(c.one - 1))
        whole = False
    else:
        how = d(st.integers(0, 7))
        if how == 0:
            v = d(st.sampled_from([c.one, c.one + 1, 2 * c.one, 3 * c.one, c.B, c.one + c.one // 2]))
            v = min(v, c.B)
        elif how >= 6 and c.l - 2 >= c.f + 1:
            # just below / at / above a power of two: the normalised divisor is close to 1 resp. 1/2
            # (the extremes of the Newton start value); small exponents preferred: |x/y| is largest there
            span = c.l - 2 - (c.f + 1)
            k = c.f + 1 + min(d(st.integers(0, span)), d(st.integers(0, span)))
            v = (1 << k) + d(st.sampled_from([-1, -1, -2, -3, 0, 1]))
            v = min(v, c.B)
        elif how == 1 and c.B >= 2 * c.one:
            v = max(1, c.mag(c.B >> c.f)) << c.f
        else:
            v = min(c.one + c.mag(c.B - c.one), c.B)
    if d(st.booleans()):
        v = -v
    flag = v % c.one == 0 and d(st.booleans())
    return ['s', v, c.sender(), flag]


def b_div(c, in_class=None):
    d = c.draw
    if in_class is None:
        in_class = d(st.integers(0, 7)) == 0
    y = divisor(c, in_class)
    ya = Fr(abs(y[1]), c.one)
    how = d(st.integers(0, 9))
    # |x| such that x/y and the tolerance fit: roughly |x| < lim * |y| / (1 + tolerance share)
    xb = int(Fr(c.B - 40) * ya / (1 + 40 * Fr(1, c.one) * max(ya, 1 / ya)))
    xb = max(0, min(xb, c.B))
    if how <= 5:
        x = c.leaf(xb)
    elif how <= 7:
        x = ['p', d(st.sampled_from([1, 1, 1, -1, 2, 3, 7, -5]))]
    elif how == 8:
        x = ['p', c.pubint(min(xb >> c.f, 1 << 20))]
    else:
        x = ['p', fxp.fl(c.pubfloat_repr(xb))]
    return ['div', x, y]


def b_divp(c):
    d = c.draw
    if d(st.booleans()):
        n = c.pubint(1 << 12, nonzero=True) or 1
        q = Fr(1, abs(n))
        div = ['p', n]
    else:
        x = pub_factor(c)
        if x == 0 or abs(x) < 2.0 ** -(c.f + 2):
            x = 0.75
        q = 1 / abs(Fr(x))
        div = ['p', fxp.fl(x)]
    bound = int(Fr(c.B - 40) / (q + Fr(40, c.one)))
    return ['divp', c.leaf(bound), div]


def b_sincos(c, in_class=None):
    d = c.draw
    op = d(st.sampled_from(['sin', 'cos', 'sincos']))
    lim32 = 32 * c.one
    if in_class is None:
        in_class = c.B > lim32 and d(st.integers(0, 7)) == 0
    if in_class and c.B > lim32:
        a = c.leaf(lo=lim32 + 1, allow_const=False)
    else:
        how = d(st.integers(0, 5))
        if how == 0:
            # near multiples of pi/2 and pi/4
            k = d(st.integers(-40, 40))
            v = round(Fr(k) * Fr(fxp.pi_scaled(), 1 << 258) * c.one) + d(st.integers(-2, 2))
            v = max(-min(c.B, lim32), min(min(c.B, lim32), v))
            a = ['s', v, c.sender(), False]
        else:
            a = c.leaf(min(c.B, lim32))
    return [op, a]


def b_trunc(c):
    d = c.draw
    kmax = c.f
    if d(st.booleans()):
        k, dflt = c.f, d(st.booleans())
    else:
        k, dflt = d(st.integers(1, kmax)), False
    if d(st.integers(0, 4)) == 0:
        n = d(st.integers(1, 3))
        return ['truncl', ['list'] + [c.leaf(allow_const=False) for _ in range(n)], k]
    a = c.leaf(allow_const=False)
    if d(st.integers(0, 3)) == 0:  # exact multiples and just off them
        base = (c.mag(c.B >> k) << k) * d(st.sampled_from([1, -1]))
        a = ['s', max(-c.B - 1, min(c.B, base + d(st.sampled_from([0, 0, 1, -1])))), c.sender(), False]
    return ['trunc', a, k, dflt]


def b_pow(c):
    d = c.draw
    n = d(st.integers(0, 6 if c.tier == 'quick' else 10))
    if n <= 1:
        return ['pow', c.leaf(), n]
    bits = c.f + (c.l - c.f - 1) // n
    bound = min(c.B, (1 << bits))
    if d(st.integers(0, 3)) == 0:
        bound = min(bound, 2 * c.one)  # around 1: many roundings of non-multiples
    return ['pow', c.leaf(bound), n]


# -- compositions (2-3 operations; tolerance by interval propagation)
def b_comp(c, kind=None):
    d = c.draw
    f, one = c.f, c.one
    sq = isqrt_bound(c, 2)
    cb = math.isqrt(sq << c.f)  # cube-ish root bound for three-factor products

    def A(bound=None, **kw):
        return c.leaf(bound, **kw)

    def D():
        return divisor(c, False)

    can_div = c.l in (2 * c.f, 2 * c.f + 1)
    arith = ['mul_add', 'mul_mul', 'add_mul', 'mulf_add', 'sq_sum', 'mul_sub_mul', 'neg_mul', 'sub_mul', 'pow_of_mul',
             'mulint_add', 'float_chain']
    divs = ['mul_div', 'div_mul', 'div_mul_back', 'sum_div_sum', 'rec_mul', 'div_add'] if can_div else []
    sins = ['pythagoras', 'sin_of_mul', 'sin_mul', 'sin_add']
    cmps = ['cmp_of_mul', 'abs_of_mul', 'min_of_mul', 'ifelse_cmp', 'max_abs']
    if kind is None:
        kind = d(st.sampled_from(['arith', 'arith', 'div', 'sin', 'cmp']))
    pool = {'arith': arith, 'div': divs or arith, 'sin': sins, 'cmp': cmps}[kind]
    t = d(st.sampled_from(pool))
    if t == 'mul_add':
        return ['add', ['mul', A(sq), A(sq)], A(c.B // 2)]
    if t == 'mul_mul':
        return ['mul', ['mul', A(cb), A(cb)], A(cb)]
    if t == 'add_mul':
        return ['mul', ['add', A(sq // 2), A(sq // 2)], A(sq)]
    if t == 'mulf_add':
        x = pub_factor(c)
        return ['add', ['mul', A(sq), ['p', fxp.fl(x)]], A(c.B // 2)]
    if t == 'sq_sum':
        return ['add', ['sq', A(sq)], ['sq', A(sq)]]
    if t == 'mul_sub_mul':
        a, b = A(sq), A(sq)
        a2 = ['s', _leafraw(c, a), c.sender(), False]
        b2 = ['s', _leafraw(c, b), c.sender(), False]
        return ['sub', ['mul', a, b], ['mul', a2, b2]]
    if t == 'neg_mul':
        return ['neg', ['mul', A(sq), A(sq)]]
    if t == 'sub_mul':
        return ['mul', A(sq), ['sub', A(sq // 2), A(sq // 2)]]
    if t == 'pow_of_mul':
        r = math.isqrt(cb << c.f)
        return ['pow', ['mul', A(r), A(r)], d(st.integers(2, 3))]
    if t == 'mulint_add':
        return ['add', ['mul', A(sq), ['p', c.pubint(12)]], ['mul', A(sq), A(sq)]]
    if t == 'float_chain':
        return ['mul', ['mul', A(cb), ['p', fxp.fl(pub_factor(c))]], ['p', fxp.fl(d(st.floats(-2, 2, allow_nan=False)))]]
    if t == 'mul_div':
        return ['div', ['mul', A(sq), A(sq)], D()]
    if t == 'div_mul':
        return ['mul', ['div', A(sq), D()], A(sq)]
    if t == 'div_mul_back':
        y = D()
        y2 = ['s', y[1], c.sender(), False]
        return ['mul', ['div', A(sq), y], y2]
    if t == 'sum_div_sum':
        s = d(st.sampled_from([1, -1]))
        y1 = ['s', s * min(c.B // 2, one + c.mag(c.B // 2 - one)), c.sender(), False] if c.B // 2 > one else D()
        y2 = ['s', s * c.mag(c.B // 2), c.sender(), False]
        return ['div', ['add', A(sq), A(sq)], ['add', y1, y2]]
    if t == 'rec_mul':
        return ['mul', A(sq), ['div', ['p', 1], D()]]
    if t == 'div_add':
        return ['add', ['div', A(sq), D()], A(c.B // 2)]
    small = min(c.B, 8 * one)
    if t == 'pythagoras':
        a = A(min(c.B, 32 * one), allow_const=False)
        a2 = ['s', a[1], c.sender(), False]
        return ['add', ['sq', ['sin', a]], ['sq', ['cos', a2]]]
    if t == 'sin_of_mul':
        r = math.isqrt(min(c.B, 16 * one) << c.f)
        return [d(st.sampled_from(['sin', 'cos'])), ['mul', A(r), A(r)]]
    if t == 'sin_mul':
        return ['mul', [d(st.sampled_from(['sin', 'cos'])), A(small)], A(c.B // 4)]
    if t == 'sin_add':
        return ['add', ['sin', A(small)], ['cos', A(small)]]
    if t == 'cmp_of_mul':
        return ['cmp', d(st.sampled_from(['lt', 'le', 'gt', 'ge', 'eq', 'ne'])), ['mul', A(sq // 2), A(sq)], A(c.B // 4)]
    if t == 'abs_of_mul':
        return ['abs', ['mul', A(sq), A(sq)]]
    if t == 'min_of_mul':
        return [d(st.sampled_from(['min', 'max'])), ['mul', A(sq // 2), A(sq)], A(c.B // 4)]
    if t == 'ifelse_cmp':
        a, b = A(c.B // 4, allow_const=False), A(c.B // 4, allow_const=False)
        return ['ifelse', ['cmp', d(st.sampled_from(['lt', 'ge', 'eq'])), a, b],
                ['mul', A(sq // 2), A(sq)], A(c.B // 4)]
    return ['max', ['abs', A(c.B // 4)], ['abs', A(c.B // 4)]]


# ------------------------------------------------------------------ list builders (C03)
F3_SAFE = ['allI', 'allI', 'allN', 'allN', 'mixN0', 'mixN0', 'mixN0', 'mixI0']
ANY_FLAGS = ['allI', 'allN', 'rand', 'rand', 'rand', 'rand', 'mixI0', 'mixN0']


def lst(c, n, bound=None, pattern=None, pool=None, plain=False):
    """A list node of n elements; pattern: allI (all whole and flagged), allN (none flagged), mixN0 (element 0
    not flagged, others anything), mixI0 (element 0 flagged, another not: the F3 class for the element-0-copying
    operations), rand (independent per element; for operations outside the F3 class).  Unflagged elements are
    sometimes results of mpc.trunc (flag None)."""
    d = c.draw
    if pattern is None:
        pattern = d(st.sampled_from(pool or F3_SAFE))
    B = c.B if bound is None else min(int(bound), c.B)
    out = ['list']
    for i in range(n):
        if pattern == 'allI':
            whole, flag = True, True
        elif pattern == 'allN':
            whole, flag = d(st.sampled_from([False, False, True])), False
        elif pattern == 'rand':
            whole = d(st.booleans())
            flag = whole and d(st.booleans())
        elif pattern == 'mixN0':
            if i == 0:
                whole, flag = d(st.sampled_from([False, False, True])), False
            else:
                whole = d(st.booleans())
                flag = whole and d(st.booleans())
        else:
            if i == 0:
                whole, flag = True, True
            elif i == 1 or d(st.booleans()):
                whole, flag = False, False
            else:
                whole, flag = True, d(st.booleans())
        if whole and B < c.one:
            v = 0
        else:
            v = c.raw(B, whole=whole)
            if not whole and v % c.one == 0:
                v += 1 if v < B else -1
        flag = bool(flag and v % c.one == 0)
        if not plain and not flag and d(st.integers(0, 9)) == 0:
            k = d(st.integers(1, min(c.f, 3)))
            w = max(-c.B - 1, min(c.B, v << k))
            out.append(['trunc', ['s', w, c.sender(), False], k, False])  # value about v, flag None
        else:
            out.append(['s', v, c.sender(), flag])
    return out


def bit(c):
    d = c.draw
    if d(st.integers(0, 2)) == 0:
        a = c.leaf(c.B // 4, allow_const=False)
        b = c.leaf(c.B // 4, allow_const=False)
        return ['cmp', d(st.sampled_from(['lt', 'le', 'eq', 'ne', 'ge'])), a, b]
    return ['s', d(st.sampled_from([0, c.one])), c.sender(), True]


def index(c, n):
    d = c.draw
    i = d(st.integers(0, n - 1))
    how = d(st.integers(0, 3))
    if how == 0:
        return ['c', i]
    if how == 1 and i >= 1:
        return ['add', ['s', (i - 1) * c.one, c.sender(), True], ['c', 1]]
    return ['s', i * c.one, c.sender(), True]


def b_list_lin(c):
    d = c.draw
    n = d(st.integers(1, 4))
    t = d(st.sampled_from(['vadd', 'vsub', 'sum', 'inl', 'ifelse_l', 'ifswap_l']))
    hb = c.B // 2
    if t in ('vadd', 'vsub'):
        return [t, lst(c, n, hb), lst(c, n, hb)]
    if t == 'sum':
        return ['sum', lst(c, n, c.B // n, pool=ANY_FLAGS)]
    if t == 'inl':
        L = lst(c, n, plain=True)
        return ['inl', [[e[1], e[3]] for e in L[1:]], c.sender()]
    return [t, bit(c), lst(c, n, hb), lst(c, n, hb)]


def b_list_mul(c):
    d = c.draw
    n = d(st.integers(1, 4))
    t = d(st.sampled_from(['smul', 'schur', 'schur_self', 'inprod', 'inprod_self', 'prod']))
    sq = isqrt_bound(c, n if t.startswith('inprod') else 1)
    if t == 'smul':
        return ['smul', c.leaf(sq), lst(c, n, sq)]
    if t == 'schur':
        return ['schur', lst(c, n, sq), lst(c, n, sq)]
    if t == 'schur_self':
        return ['schur_self', lst(c, n, sq)]
    if t == 'inprod':
        return ['inprod', lst(c, n, sq, pool=ANY_FLAGS), lst(c, n, sq, pool=ANY_FLAGS)]
    if t == 'inprod_self':
        return ['inprod_self', lst(c, n, sq, pool=ANY_FLAGS)]
    k = d(st.integers(1, 5))
    bits = c.f + max(0, (c.l - c.f - 2) // k - 1)
    return ['prod', lst(c, k, min(c.B, 1 << bits), pool=ANY_FLAGS)]


def b_prod(c):
    """mpc.prod over lists with independent flags: the pairwise tree keeps a flag per partial product."""
    d = c.draw
    k = d(st.integers(2, 5))
    bits = c.f + max(0, (c.l - c.f - 2) // k - 1)
    return ['prod', lst(c, k, min(c.B, 1 << bits), pool=['rand', 'rand', 'rand', 'mixI0', 'allI'], plain=True)]


def b_matprod(c):
    d = c.draw
    n1, n, n2 = d(st.integers(1, 2)), d(st.integers(1, 3)), d(st.integers(1, 2))
    sq = isqrt_bound(c, n)
    tr = d(st.booleans())
    pa = d(st.sampled_from(['allI', 'allN', 'mixN0', 'mixN0', 'mixI0']))
    pb = d(st.sampled_from(['allI', 'allN', 'mixN0', 'mixN0', 'mixI0']))

    def mat(r, k, pat):
        # the flags of entry [0][0] are what matrix_prod looks at; other rows follow the pattern only for the
        # uniform patterns
        return ['matrix'] + [lst(c, k, sq, pat if (i == 0 or pat in ('allI', 'allN')) else None) for i in range(r)]
    A = mat(n1, n, pa)
    B = mat(n2, n, pb) if tr else mat(n, n2, pb)
    return ['matprod', A, B, tr]


def b_seclist(c):
    d = c.draw
    t = d(st.sampled_from(['sl_get', 'sl_set', 'sl_del', 'sl_pop', 'sl_ins']))
    n = d(st.integers(2 if t in ('sl_del', 'sl_pop') else 1, 4))
    L = lst(c, n, c.B // 4, pool=F3_SAFE if t in ('sl_del', 'sl_pop') else ANY_FLAGS)
    if t == 'sl_get':
        return [t, L, index(c, n)]
    if t in ('sl_del', 'sl_pop'):
        return [t, L, index(c, n)]
    if t == 'sl_set':
        return [t, L, index(c, n), c.leaf(c.B // 4)]
    return [t, L, index(c, n + 1), c.leaf(c.B // 4)]


def b_order(c):
    d = c.draw
    t = d(st.sampled_from(['minl', 'maxl', 'sorted']))
    n = d(st.integers(1, 3))
    return [t, lst(c, n, c.B // 2, pool=ANY_FLAGS)]


def b_scalar_sel(c):
    d = c.draw
    t = d(st.sampled_from(['abs', 'sgn', 'min', 'max', 'ifelse']))
    hb = c.B // 2
    if t in ('abs', 'sgn'):
        return [t, c.leaf(c.B - 1)]
    if t in ('min', 'max'):
        return [t, c.leaf(hb), c.leaf(hb)]
    return ['ifelse', bit(c), c.leaf(hb), c.leaf(hb)]


def b_chain(c):
    """A list operation whose (flagged) results feed a further operation: a false mark would change the result."""
    d = c.draw
    n = d(st.integers(2, 3))
    r = math.isqrt(isqrt_bound(c, n) << c.f) // 2  # fourth-root-ish bound: two levels of products
    src = d(st.sampled_from(['vadd', 'vsub', 'smul', 'schur', 'ifelse_l', 'inl', 'matrow', 'sl_set', 'sl_del']))
    if src in ('vadd', 'vsub'):
        L = [src, lst(c, n, r), lst(c, n, r)]
    elif src == 'smul':
        L = ['smul', c.leaf(r), lst(c, n, r)]
    elif src == 'schur':
        L = ['schur', lst(c, n, r), lst(c, n, r)]
    elif src == 'ifelse_l':
        L = ['ifelse_l', bit(c), lst(c, n, r), lst(c, n, r)]
    elif src == 'inl':
        X = lst(c, n, r, plain=True)
        L = ['inl', [[e[1], e[3]] for e in X[1:]], c.sender()]
    elif src == 'matrow':
        L = ['row', ['matprod', ['matrix', lst(c, n, r)], ['matrix'] + [lst(c, 2, r) for _ in range(n)], False], 0]
        n = 2
    elif src == 'sl_set':
        L = ['sl_set', lst(c, n, r), index(c, n), c.leaf(r)]
    else:
        L = ['sl_del', lst(c, n + 1, r), index(c, n + 1)]
    use = d(st.sampled_from(['item_mul', 'item_add', 'schur', 'sum', 'prod', 'inprod', 'sl_get', 'item_cmp', 'smul']))
    i = d(st.integers(0, n - 1))
    if use == 'item_mul':
        return ['mul', ['item', L, i], c.leaf(r)]
    if use == 'item_add':
        return ['add', ['item', L, i], c.leaf(r)]
    if use == 'schur':
        return ['schur', L, lst(c, n, r)]
    if use == 'sum':
        return ['sum', L]
    if use == 'prod':
        return ['prod', L]
    if use == 'inprod':
        return ['inprod', L, lst(c, n, r)]
    if use == 'sl_get':
        return ['sl_get', L, index(c, n)]
    if use == 'item_cmp':
        return ['cmp', d(st.sampled_from(['lt', 'eq', 'ge'])), ['item', L, i], c.leaf(r, allow_const=False)]
    return ['smul', c.leaf(r), L]


def b_noneflag(c):
    """Values whose flag is None (results of trunc, sin/cos, convert) as operands of flag-dependent operations."""
    d = c.draw
    t = d(st.sampled_from(['div_trunc', 'mul_trunc', 'add_sin', 'mul_cos', 'conv', 'conv_mul', 'cmp_trunc', 'abs_trunc']))
    sq = isqrt_bound(c)
    k = d(st.integers(1, min(c.f, 4)))
    if t == 'div_trunc' and c.l in (2 * c.f, 2 * c.f + 1) and (c.B >> k) > c.one:
        # divisor = trunc(y, k) with |y / 2^k| >= 1 (+ margin): to_bits/_norm see a flag that is None
        y = (c.one + 2 + c.mag((c.B >> k) - c.one - 2)) << k
        y = min(y, c.B) * d(st.sampled_from([1, -1]))
        return ['div', c.leaf(sq), ['trunc', ['s', y, c.sender(), False], k, False]]
    if t in ('mul_trunc', 'div_trunc'):
        return ['mul', ['trunc', c.leaf(allow_const=False), k, False], c.leaf(sq >> 1)]
    small = min(c.B, 8 * c.one)
    if t == 'add_sin':
        return ['add', ['sin', c.leaf(small)], c.leaf(c.B // 2, whole=True)]
    if t == 'mul_cos':
        return ['mul', ['cos', c.leaf(small)], c.leaf(c.B // 4, whole=True)]
    f2 = c.f + d(st.integers(0, 6))
    l2 = max(2 * f2, c.l - c.f + f2 + d(st.integers(0, 4)))
    if t == 'conv':
        return ['conv', c.leaf(), l2, f2]
    if t == 'conv_mul':
        return ['mul', ['conv', c.leaf(sq), l2, f2], c.leaf(sq)]
    if t == 'cmp_trunc':
        return ['cmp', d(st.sampled_from(['lt', 'eq', 'ge'])), ['trunc', c.leaf(c.B // 2, allow_const=False), k, False],
                c.leaf(c.B // 4, allow_const=False)]
    return ['abs', ['trunc', c.leaf(c.B - 1, allow_const=False), k, False]]


def b_lshift(c):
    d = c.draw
    n = d(st.one_of(st.integers(0, c.f + 2), st.sampled_from([c.f - 1, c.f, c.f + 1])))
    n = max(0, min(n, c.l - 2))
    return ['lshift', c.leaf((c.B - 1) >> n), n]


def b_const(c):
    """Constructor inference: secfxp(int) / secfxp(float), used in an operation."""
    d = c.draw
    how = d(st.integers(0, 3))
    lim_int = min(c.B >> c.f, 1 << 20)
    if how == 0:
        k = ['c', c.pubint(lim_int)]
    elif how == 1:
        k = ['c', fxp.fl(float(c.pubint(lim_int)))]
    elif how == 2:
        k = ['c', fxp.fl(c.pubfloat_repr(min(c.B, 1 << 40)))]
    else:
        x = d(st.sampled_from([0.5, 1e-9, 1 / 3, 2.0 ** -(c.f + 1), 1.0 + 2.0 ** -40, 0.1, -2.5, 3.0 - 2.0 ** -30]))
        k = ['c', fxp.fl(x)]
    op = d(st.sampled_from(['add', 'mul', 'sub', 'neg']))
    if op == 'neg':
        return ['neg', k]
    kv = abs(_leafraw(c, k))
    if op == 'mul':
        return ['mul', k, c.leaf(((c.B - 2) << c.f) // max(1, kv))]
    return [op, c.leaf(c.B // 2), k] if kv <= c.B // 2 else ['neg', k]


BUILDERS = {
    'add': (b_add, 'add'), 'neg': (b_neg, 'neg'), 'cmp': (b_cmp, 'cmp'), 'mul': (b_mul, 'mul'),
    'mulint': (b_mulint, 'mulint'), 'mulfloat': (b_mulfloat, 'mulfloat'), 'div': (b_div, 'div'),
    'divp': (b_divp, 'divp'), 'sincos': (b_sincos, 'sincos'), 'trunc': (b_trunc, 'trunc'), 'pow': (b_pow, 'pow'),
    'comp': (lambda c: b_comp(c, 'arith'), 'comp'), 'comp_div': (lambda c: b_comp(c, 'div'), 'comp_div'),
    'comp_sin': (lambda c: b_comp(c, 'sin'), 'comp_sin'), 'comp_cmp': (lambda c: b_comp(c, 'cmp'), 'comp_cmp'),
    'list_lin': (b_list_lin, 'list_lin'), 'list_mul': (b_list_mul, 'list_mul'), 'matprod': (b_matprod, 'matprod'),
    'seclist': (b_seclist, 'seclist'), 'order': (b_order, 'order'), 'scalar_sel': (b_scalar_sel, 'scalar_sel'),
    'chain': (b_chain, 'chain'), 'const': (b_const, 'const'), 'lshift': (b_lshift, 'add'),
    'noneflag': (b_noneflag, 'comp_div'), 'prod': (b_prod, 'list_mul'),
    'sincos_small': (lambda c: b_sincos(c, False), 'sincos'),
}

NEEDS_DIV = ('div', 'comp_div')


@st.composite
def fxtype(draw, tier, div_share=0.5):
    fs = [2, 3, 4, 4, 5, 6, 7, 8, 8, 9, 10, 11, 12, 13, 13, 14, 15, 16, 16]
    if tier == 'thorough':
        fs += [18, 20, 21, 24, 28, 32, 32]
    f = draw(st.sampled_from(fs))
    lmax = 40 if tier == 'quick' else 64
    if draw(st.integers(0, 99)) < int(100 * div_share):
        l = draw(st.sampled_from([2 * f, 2 * f, 2 * f + 1]))
    else:
        l = draw(st.sampled_from([2 * f + 2, 2 * f + 3, 2 * f + 5, 3 * f, 4 * f, lmax]))
    l = max(2 * f, min(l, lmax))
    return l, f


@st.composite
def config(draw, m1_share=0.5):
    """m=1 for the bulk of the value space; otherwise progs.config() (m 1..7, weighted to 3..5, every t, PRSS on/off)."""
    if draw(st.integers(0, 99)) < int(100 * m1_share):
        return 1, 0, draw(st.booleans())
    if draw(st.integers(0, 3)) == 0:
        return draw(progs.config(min_m=2))           # includes t = 0 < m and m = 2
    return draw(progs.config(min_m=3, need_t=True))  # t >= 1: resharing, threshold PRSS, multi-party output


@st.composite
def case(draw, tier, weights, whole_bias=0.25, m1_share=0.45, div_share=0.5, budget_ms=None):
    """weights: {builder name: weight}."""
    m, t, prss = draw(config(m1_share))
    l, f = draw(fxtype(tier, div_share))
    c = Ctx(draw, l, f, m, tier)
    c.whole_bias = whole_bias
    mult = cfg_mult(m, prss) * max(0.5, l / 32)
    B = budget_ms if budget_ms is not None else (260 if tier == 'quick' else 420)
    names = [k for k in sorted(weights) if not (k in NEEDS_DIV and l not in (2 * f, 2 * f + 1))]
    pool = []
    for k in names:
        pool += [k] * weights[k]
    recs = []
    spent = 0.0
    maxrec = draw(st.integers(1, 12 if m == 1 else 6))
    while len(recs) < maxrec:
        k = draw(st.sampled_from(pool))
        cost = OP_COST[BUILDERS[k][1]] * mult
        if recs and spent + cost > B:
            break
        if not recs and cost > 3 * B:
            k = 'mul' if 'mul' in weights else names[0]
            cost = OP_COST[BUILDERS[k][1]] * mult
        rec = fit(BUILDERS[k][0](c), l, f)
        if rec is None:
            rec = ['add', ['s', 0, 0, False], ['s', 0, 0, False]]
        recs.append(rec)
        spent += cost
    return dict(m=m, t=t, prss=prss, l=l, f=f, seed=draw(st.integers(0, 2 ** 20)), recs=recs)


# ------------------------------------------------------------------ running a case
def list_ops_mixed(rec):
    """Static: does the record contain a list node whose leaf elements differ in (sanitised) flags?"""
    found = [False]

    def walk(n):
        if not isinstance(n, list) or not n or not isinstance(n[0], str):
            return
        if n[0] == 'list':
            fl_ = [bool(e[3]) for e in n[1:] if isinstance(e, list) and e and e[0] == 's']
            if len(set(fl_)) > 1:
                found[0] = True
        if n[0] == 'inl':
            if len({bool(it[1]) for it in n[1]}) > 1:
                found[0] = True
        for ch in n[1:]:
            walk(ch)
    walk(rec)
    return found[0]


def sanitise(rec, f):
    """Flags of 's' leaves / 'inl' items are only effective on whole values (mirrors Interp)."""
    one = 1 << f

    def walk(n):
        if not isinstance(n, list) or not n or not isinstance(n[0], str):
            return n
        if n[0] == 's' and len(n) == 4 and isinstance(n[1], int):
            return ['s', n[1], n[2], bool(n[3]) and n[1] % one == 0]
        if n[0] == 'inl':
            return ['inl', [[it[0], bool(it[1]) and it[0] % one == 0] for it in n[1]], n[2]]
        return [n[0]] + [walk(ch) for ch in n[1:]]
    return walk(rec)


def run_case(case, prop, skip_known_classes=False):
    """Run all valid records of a case in one simulation and judge them.  prop: 'C02' or 'C03'."""
    from vlib import sim as simmod
    m, t, prss, l, f = case['m'], case['t'], case['prss'], case['l'], case['f']
    labels = [f'm={m}', f't={t}', f'prss={prss}', f'f={f}', 'l=2f' if l == 2 * f else 'l=2f+1' if l == 2 * f + 1 else 'l>2f+1']
    if not (isinstance(l, int) and isinstance(f, int) and 1 <= f and 2 * f <= l <= 128 and m >= 1 and 0 <= 2 * t < max(m, 2)):
        return Outcome(True, skipped=True, nontrivial=False, labels=['invalid-config'])
    recs, refs = [], []
    nskip = 0
    for rec in case['recs']:
        try:
            rec = sanitise(rec, f)
            rv = fxp.reference(l, f, rec)
        except fxp.Invalid:
            nskip += 1
            continue
        except (TypeError, IndexError, ValueError, KeyError, AttributeError):
            nskip += 1  # malformed record (hand-written JSON)
            continue
        root = fxp.flatten(rv.reg[-1][1])
        kn = set()
        for _, s in rv.reg:
            for r in fxp.flatten(s):
                kn |= r.kn
        if skip_known_classes and kn & {'F6', 'F7'}:
            labels.append('skipped-record-in-C02-known-class')
            nskip += 1
            continue
        recs.append(rec)
        refs.append((rv, kn, root))
    if nskip:
        labels.append('invalid-record-skipped')
    if not recs:
        return Outcome(True, skipped=True, nontrivial=False, labels=labels + ['no-valid-record'])
    sim = simmod.Sim(m, t, prss=prss, seed=case.get('seed', 0), schedule={'mode': 'fast'}, sec_param=30)
    try:
        async def prog(mpc, pid):
            return await fxp.run_records(mpc, pid, l, f, recs)
        res = sim.run_programs(prog)
    finally:
        sim.close()
    for (rv, kn, root), rec in zip(refs, recs):
        labels.extend(sorted({'op:' + x for x in rv.feat}))
        labels.append('root:' + rec[0])
        for k in sorted(kn):
            labels.append('in-class-' + k)
    labels = sorted(set(labels))
    if res.inconclusive:
        return Outcome(True, inconclusive=True, nontrivial=False, labels=labels)
    brief = _brief(case)
    if any('CaseTimeout' in e for _, e in res.errors):
        from vlib.runner import CaseTimeout
        raise CaseTimeout()  # the runner's watchdog fired inside a party coroutine: let the runner handle it
    if not res.all_done:
        return Outcome(False, f'run did not complete: {res.describe()}\n{res.errors[:2]}\ncase={brief}', labels=labels)
    for i, v in enumerate(res.values):
        if v != res.values[0]:
            return Outcome(False, f'parties 0 and {i} obtained different outputs / flags\ncase={brief}', labels=labels)
    unknown, known = [], []
    ntrunc = 0
    flagged_result = False
    mixed = False
    exposed = False
    for (rv, kn, root), rec, got in zip(refs, recs, res.values[0]):
        if 'exc' in got:
            unknown.append(f'record {rec}: exception on valid input: {got["exc"]}')
            continue
        ntrunc += rv.ntrunc
        if got['exposed']:
            exposed = True
        for path, k, flag, raw in got['obs']:
            if flag is True and fxp.rec_at(rec, path)[0] not in ('s', 'c'):
                flagged_result = True
        mixed = mixed or list_ops_mixed(rec)
        for kind, path, text, kf in fxp.check_record(l, f, rec, rv, got):
            (known if kf else unknown).append((kf, f'record {rec}: {text}') if kf else f'record {rec}: {text}')
    if exposed:
        labels.append('F3-class-operands')
    if prop == 'C02':
        nt = t >= 1 and ntrunc > 0
    else:
        nt = mixed or flagged_result
    if unknown:
        return Outcome(False, '\n'.join(unknown[:4]) + f'\ncase={brief}', labels=labels, nontrivial=nt)
    if known:
        return Outcome(False, known[0][1] + f'\ncase={brief}', labels=labels, nontrivial=nt, known=known[0][0])
    return Outcome(True, labels=labels, nontrivial=nt)


def _brief(case):
    s = str(case)
    return s if len(s) < 2500 else s[:2500] + '...'
