"""Field specifications shared by the pure-function checks (C12, C13, C20, C21, C22).

A spec is JSON: {'p': p} for GF(p) or {'p': p, 'f': [c0, c1, ..., cn]} for GF(p)[X]/(f).
"""
import functools
from hypothesis import strategies as st
from vlib import refmath as R

BIG_PRIMES = [2**61 - 1, 2**89 - 1, 2**127 - 1, 2**255 - 19, 2**521 - 1, 2**64 - 59, 2**31 - 1,
              4294967311, 18446744073709551629]  # the last two are = 3 mod 4 resp. 1 mod 4 checked below
SMALL_PRIMES = [p for p in range(2, 260) if R.is_prime(p)]
MED_PRIMES = [65521, 65537, 1000003, 999983, 104729, 7919, 8191, 131071, 524287, 257, 769, 12289, 40961]
BIN_MODULI = {8: 0x11b, 16: 0x1002b, 32: (1 << 32) | 0x8d, 64: (1 << 64) | 0x1b, 128: (1 << 128) | 0x87}


@functools.lru_cache(maxsize=None)
def smallest_irreducible(p, n):
    """Smallest (in integer order) monic irreducible polynomial of degree n over GF(p), brute force."""
    for x in range(p ** n, 2 * p ** n):
        f = R.pfrom_int(x, p)
        if R.is_irreducible_bf(f, p):
            return f
    raise AssertionError


@functools.lru_cache(maxsize=None)
def some_irreducibles(p, n, count=3):
    out = []
    for x in range(p ** n, 2 * p ** n):
        f = R.pfrom_int(x, p)
        if R.is_irreducible_bf(f, p):
            out.append(f)
            if len(out) >= count:
                break
    return out


SMALL_EXT = [(2, n) for n in range(1, 9)] + [(3, n) for n in range(1, 6)] + [(5, 1), (5, 2), (5, 3), (7, 1), (7, 2), (7, 3),
             (11, 2), (13, 2), (17, 2), (19, 2), (23, 2), (3, 6)]


@st.composite
def field_spec(draw, kinds=('prime', 'binary', 'ext'), max_small_order=None):
    kind = draw(st.sampled_from(kinds))
    if kind == 'prime':
        p = draw(st.one_of(st.sampled_from(SMALL_PRIMES), st.sampled_from(MED_PRIMES), st.sampled_from(BIG_PRIMES)))
        return {'p': p}
    if kind == 'binary':
        if draw(st.booleans()):
            n = draw(st.sampled_from(sorted(BIN_MODULI)))
            x = BIN_MODULI[n]
            return {'p': 2, 'f': [(x >> i) & 1 for i in range(n + 1)]}
        n = draw(st.integers(1, 10))
        fs = some_irreducibles(2, n)
        return {'p': 2, 'f': list(draw(st.sampled_from(fs)))}
    p, n = draw(st.sampled_from([pn for pn in SMALL_EXT if pn[0] != 2]))
    if draw(st.integers(0, 5)) == 0:
        P = draw(st.sampled_from([2**127 - 1, 2**61 - 1 if (2**61 - 1) % 4 == 3 else 8191, 8191, 131071, 524287]))
        if P % 4 == 3:
            return {'p': P, 'f': [1, 0, 1]}  # x^2+1 is irreducible iff -1 is a non-residue iff p = 3 mod 4
    fs = some_irreducibles(p, n)
    return {'p': p, 'f': list(draw(st.sampled_from(fs)))}


def order(spec):
    return spec['p'] ** (len(spec['f']) - 1) if 'f' in spec else spec['p']


def make(spec):
    """Build the mpyc field for a spec (mpyc must be booted)."""
    from mpyc import finfields, gfpx
    if 'f' not in spec:
        return finfields.GF(spec['p'])
    poly = gfpx.GFpX(spec['p'])
    return finfields.GF(poly(list(spec['f'])))


def ref(spec):
    if 'f' in spec:
        return R.ExtField(spec['p'], tuple(spec['f']))
    return None


def to_ref(spec, e):
    """mpyc element -> reference representation (int for prime fields, tuple for extensions)."""
    if 'f' not in spec:
        return e.value
    return R.pfrom_int(int(e), spec['p'])


def elem_strategy(spec):
    q = order(spec)
    return st.one_of(st.integers(0, q - 1), st.sampled_from([0, 1, q - 1, q // 2, min(2, q - 1)]))
