"""Reference finite-field arithmetic and polynomial interpolation for the Shamir checks (C12, C13).

Independent of mpyc.  Field elements are canonical ints: the residue in [0, p) for GF(p), and
the base-p digit encoding of the coefficient vector (degree < n) for GF(p)[X]/(f).
Interpolation uses Newton's divided differences (mpyc uses Lagrange recombination vectors).
"""
from vlib import refmath as R


class RefField:
    def __init__(self, spec):
        self.p = spec['p']
        if 'f' not in spec:
            self.kind = 'prime'
            self.q = self.p
        else:
            f = tuple(spec['f'])
            self.n = len(f) - 1
            self.q = self.p ** self.n
            if self.p == 2:
                self.kind = 'bin'
                self.fint = sum(c << i for i, c in enumerate(f))
            else:
                self.kind = 'ext'
                self.E = R.ExtField(self.p, f)

    # -- conversion of a public integer into the field (mod p / base-p digits reduced mod f)
    def conv(self, k):
        if self.kind == 'prime':
            return k % self.p
        if k < 0:
            raise ValueError('negative integer has no polynomial reading')
        if self.kind == 'bin':
            return self._bred(k)
        return R.pto_int(self.E.red(R.pfrom_int(k, self.p)), self.p)

    def _bred(self, a):
        f, n = self.fint, self.n
        d = a.bit_length() - 1
        while d >= n:
            a ^= f << (d - n)
            d = a.bit_length() - 1
        return a

    def _t(self, a):
        return R.pfrom_int(a, self.p)

    def add(self, a, b):
        if self.kind == 'prime':
            return (a + b) % self.p
        if self.kind == 'bin':
            return a ^ b
        return R.pto_int(self.E.add(self._t(a), self._t(b)), self.p)

    def sub(self, a, b):
        if self.kind == 'prime':
            return (a - b) % self.p
        if self.kind == 'bin':
            return a ^ b
        return R.pto_int(self.E.sub(self._t(a), self._t(b)), self.p)

    def mul(self, a, b):
        if self.kind == 'prime':
            return a * b % self.p
        if self.kind == 'bin':
            r = 0
            while b:
                if b & 1:
                    r ^= a
                a <<= 1
                b >>= 1
            return self._bred(r)
        return R.pto_int(self.E.mul(self._t(a), self._t(b)), self.p)

    def inv(self, a):
        if self.kind == 'prime':
            if a % self.p == 0:
                raise ZeroDivisionError
            return pow(a, -1, self.p)
        if self.kind == 'bin':
            if a == 0:
                raise ZeroDivisionError
            # extended Euclid on binary polynomials: invariant g1*a = u, g2*a = v (mod f)
            u, v, g1, g2 = a, self.fint, 1, 0
            while u != 1:
                j = u.bit_length() - v.bit_length()
                if j < 0:
                    u, v, g1, g2, j = v, u, g2, g1, -j
                u ^= v << j
                g1 ^= g2 << j
            return self._bred(g1)
        return R.pto_int(self.E.inv(self._t(a)), self.p)


def newton_coeffs(F, xs, ys):
    """Coefficients (low degree first, len(xs) of them, as canonical ints) of the unique polynomial of
    degree < len(xs) through the points (xs[i], ys[i]); xs distinct canonical field elements."""
    k = len(xs)
    dd = list(ys)
    inv = {}
    for j in range(1, k):
        for i in range(k - 1, j - 1, -1):
            d = F.sub(xs[i], xs[i - j])
            if d not in inv:
                inv[d] = F.inv(d)
            dd[i] = F.mul(F.sub(dd[i], dd[i - 1]), inv[d])
    # expand Newton form: dd[0] + dd[1](X-x0) + dd[2](X-x0)(X-x1) + ...
    poly = [dd[k - 1]] if k else []
    for i in range(k - 2, -1, -1):
        # poly = poly * (X - xs[i]) + dd[i]
        new = [0] * (len(poly) + 1)
        for d, c in enumerate(poly):
            new[d + 1] = F.add(new[d + 1], c)
            new[d] = F.sub(new[d], F.mul(c, xs[i]))
        new[0] = F.add(new[0], dd[i])
        poly = new
    return poly


def horner(F, coeffs, x):
    r = 0
    for c in reversed(coeffs):
        r = F.add(F.mul(r, x), c)
    return r
