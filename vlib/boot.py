"""Bootstrap: make the working tree of lschoe/mpyc importable for a check.

* the repository root (VERIF_REPO, default /repo) goes first on sys.path, so checks always
  exercise the current working tree;
* third-party pieces that are not in /venv (numpy, optionally hypothesis) live in /verif/.deps
  (installed offline by setup.sh); numpy is put on the path only when a check asks for it,
  because its presence switches code paths inside mpyc;
* sys.argv is scrubbed before `import mpyc` (mpyc parses sys.argv at import time);
* logging is disabled (mpyc logs every barrier and shutdown).
"""

import os
import sys
import logging

VERIF = os.path.dirname(os.path.dirname(os.path.abspath(__file__)))
REPO = os.environ.get('VERIF_REPO', '/repo')
DEPS = os.path.join(VERIF, '.deps')
_booted = None


def boot(numpy=False):
    """Import mpyc from the working tree; returns the mpyc package."""
    global _booted
    if _booted is not None:
        if numpy and not _booted:
            raise RuntimeError('mpyc already imported without numpy in this process')
        import mpyc
        return mpyc
    sys.path[:] = [p for p in sys.path if os.path.abspath(p or '.') != os.path.abspath(REPO)]
    sys.path.insert(0, REPO)
    if numpy:
        if DEPS not in sys.path:
            sys.path.append(DEPS)
        os.environ.pop('MPYC_NONUMPY', None)
    else:
        os.environ['MPYC_NONUMPY'] = '1'  # same code paths as the baseline environment
    try:
        import hypothesis  # noqa: F401
    except ImportError:
        if DEPS not in sys.path:
            sys.path.append(DEPS)
    os.environ['MPYC_NOGMPY'] = '1'
    os.environ['MPYC_NOUVLOOP'] = '1'
    argv = sys.argv
    sys.argv = ['check', '--no-log']
    try:
        import mpyc
        import mpyc.runtime  # noqa: F401  (runs setup() for a 1-party runtime)
    finally:
        sys.argv = argv
    logging.disable(logging.CRITICAL)
    import warnings
    warnings.filterwarnings('ignore', category=RuntimeWarning, message='coroutine .* was never awaited')
    src = os.path.abspath(mpyc.__file__)
    if not src.startswith(os.path.abspath(REPO) + os.sep):
        raise RuntimeError(f'mpyc imported from {src}, not from {REPO}')
    if numpy:
        from mpyc.numpy import np
        if np is None:
            raise RuntimeError('numpy requested but not available to mpyc (run ./setup.sh)')
    _booted = bool(numpy)
    return mpyc
