"""Independent reference models of the finite group families of mpyc.fingroups (for C27/C28).

Written from textbook definitions with Python ints / tuples only; shares no code with mpyc.
Every model exposes: ident(), op(a, b), inv(a), pow(a, n) (right-to-left binary method, any integer n),
valid(a); elements are canonical hashable values, so equality is ==.

  RefSym(n)              permutations as tuples; op(p, q) = "first p then q"  (i -> q[p[i]])
  RefMod(p)              units modulo p under multiplication (QR and Schnorr groups are subgroups)
  RefEdwards(F, a, d)    affine points of a x^2 + y^2 = 1 + d x^2 y^2 with the complete addition law
  RefWeierstrass(F,a,b)  affine points of y^2 = x^3 + a x + b plus None (point at infinity), chord-tangent
  RefJacobian(p, f, g)   Mumford pairs (u, v) over GF(p) for y^2 = f(x), Cantor composition + reduction
  RefClassGroup(D)       reduced primitive positive definite forms (a, b, c), Dirichlet/Gauss composition
Fields for the curves: Fp(p) with int elements, Fp2(p) = Fp[i]/(i^2+1) with pairs (c0, c1).
"""

import math
from vlib import refmath as R


class _Group:
    def pow(self, a, n):
        if n < 0:
            a, n = self.inv(a), -n
        r = self.ident()
        while n:
            if n & 1:
                r = self.op(r, a)
            n >>= 1
            if n:
                a = self.op(a, a)
        return r

    def naive(self, a, n):
        """n-fold application by definition (|n| small)."""
        if n < 0:
            a, n = self.inv(a), -n
        r = self.ident()
        for _ in range(n):
            r = self.op(r, a)
        return r


# ---------------------------------------------------------------- symmetric groups
class RefSym(_Group):
    def __init__(self, n):
        self.n = n

    def ident(self):
        return tuple(range(self.n))

    def op(self, p, q):
        return tuple(q[p[i]] for i in range(self.n))

    def inv(self, p):
        r = [0] * self.n
        for i, j in enumerate(p):
            r[j] = i
        return tuple(r)

    def valid(self, p):
        return isinstance(p, tuple) and sorted(p) == list(range(self.n))


# ---------------------------------------------------------------- multiplicative groups mod p
class RefMod(_Group):
    def __init__(self, p):
        self.p = p

    def ident(self):
        return 1 % self.p

    def op(self, a, b):
        return a * b % self.p

    def inv(self, a):
        return pow(a, -1, self.p)

    def pow(self, a, n):
        return pow(a, n, self.p)

    def valid(self, a):
        return isinstance(a, int) and 0 < a < self.p


# ---------------------------------------------------------------- fields for curves
class Fp:
    def __init__(self, p):
        self.p = p
        self.zero, self.one = 0, 1

    def c(self, x):
        return x % self.p

    def add(self, a, b):
        return (a + b) % self.p

    def sub(self, a, b):
        return (a - b) % self.p

    def mul(self, a, b):
        return a * b % self.p

    def neg(self, a):
        return -a % self.p

    def inv(self, a):
        if a % self.p == 0:
            raise ZeroDivisionError
        return pow(a, -1, self.p)


class Fp2:
    """Fp[i]/(i^2+1), p = 3 mod 4; elements (c0, c1) = c0 + c1 i."""

    def __init__(self, p):
        assert p % 4 == 3
        self.p = p
        self.zero, self.one = (0, 0), (1, 0)

    def c(self, x):
        if isinstance(x, int):
            return (x % self.p, 0)
        return (x[0] % self.p, x[1] % self.p)

    def add(self, a, b):
        return ((a[0] + b[0]) % self.p, (a[1] + b[1]) % self.p)

    def sub(self, a, b):
        return ((a[0] - b[0]) % self.p, (a[1] - b[1]) % self.p)

    def mul(self, a, b):
        return ((a[0] * b[0] - a[1] * b[1]) % self.p, (a[0] * b[1] + a[1] * b[0]) % self.p)

    def neg(self, a):
        return (-a[0] % self.p, -a[1] % self.p)

    def inv(self, a):
        n = (a[0] * a[0] + a[1] * a[1]) % self.p
        if n == 0:
            raise ZeroDivisionError
        ni = pow(n, -1, self.p)
        return (a[0] * ni % self.p, -a[1] * ni % self.p)


# ---------------------------------------------------------------- Edwards curves
class RefEdwards(_Group):
    """a x^2 + y^2 = 1 + d x^2 y^2; (x1,y1)+(x2,y2) = ((x1y2+y1x2)/(1+d x1x2y1y2), (y1y2-a x1x2)/(1-d x1x2y1y2))."""

    def __init__(self, F, a, d):
        self.F, self.a, self.d = F, F.c(a), F.c(d)

    def ident(self):
        return (self.F.zero, self.F.one)

    def op(self, P, Q):
        F = self.F
        x1, y1 = P
        x2, y2 = Q
        x1x2, y1y2 = F.mul(x1, x2), F.mul(y1, y2)
        t = F.mul(self.d, F.mul(x1x2, y1y2))
        x3 = F.mul(F.add(F.mul(x1, y2), F.mul(y1, x2)), F.inv(F.add(F.one, t)))
        y3 = F.mul(F.sub(y1y2, F.mul(self.a, x1x2)), F.inv(F.sub(F.one, t)))
        return (x3, y3)

    def inv(self, P):
        return (self.F.neg(P[0]), P[1])

    def valid(self, P):
        F = self.F
        if P is None or len(P) != 2:
            return False
        x2, y2 = F.mul(P[0], P[0]), F.mul(P[1], P[1])
        return F.add(F.mul(self.a, x2), y2) == F.add(F.one, F.mul(self.d, F.mul(x2, y2)))


# ---------------------------------------------------------------- short Weierstrass curves
class RefWeierstrass(_Group):
    """y^2 = x^3 + a x + b; None is the point at infinity."""

    def __init__(self, F, a, b):
        self.F, self.a, self.b = F, F.c(a), F.c(b)

    def ident(self):
        return None

    def op(self, P, Q):
        F = self.F
        if P is None:
            return Q
        if Q is None:
            return P
        x1, y1 = P
        x2, y2 = Q
        if x1 == x2:
            if y1 != y2 or y1 == F.zero:
                return None
            x1x1 = F.mul(x1, x1)
            num = F.add(F.add(F.add(x1x1, x1x1), x1x1), self.a)
            lam = F.mul(num, F.inv(F.add(y1, y1)))
        else:
            lam = F.mul(F.sub(y2, y1), F.inv(F.sub(x2, x1)))
        x3 = F.sub(F.sub(F.mul(lam, lam), x1), x2)
        y3 = F.sub(F.mul(lam, F.sub(x1, x3)), y1)
        return (x3, y3)

    def inv(self, P):
        if P is None:
            return None
        return (P[0], self.F.neg(P[1]))

    def valid(self, P):
        F = self.F
        if P is None:
            return True
        x, y = P
        rhs = F.add(F.add(F.mul(F.mul(x, x), x), F.mul(self.a, x)), self.b)
        return F.mul(y, y) == rhs


# ---------------------------------------------------------------- Jacobians of hyperelliptic curves
def pgcdext(a, b, p):
    """(g, s, t) with g = s a + t b, g monic gcd (g = () iff a = b = 0)."""
    r0, r1 = R.ptrim(a), R.ptrim(b)
    s0, s1, t0, t1 = (1,), (), (), (1,)
    while r1:
        q, r = R.pdivmod(r0, r1, p)
        r0, r1 = r1, r
        s0, s1 = s1, R.psub(s0, R.pmul(q, s1, p), p)
        t0, t1 = t1, R.psub(t0, R.pmul(q, t1, p), p)
    if r0:
        c = pow(r0[-1], -1, p)
        r0 = tuple(x * c % p for x in r0)
        s0 = tuple(x * c % p for x in s0)
        t0 = tuple(x * c % p for x in t0)
    return r0, s0, t0


class RefJacobian(_Group):
    """Divisor class group of y^2 = f(x) (deg f = 2g+1, monic, odd p) in Mumford representation.

    Elements (u, v): u monic, deg v < deg u <= g, u | f - v^2; identity ((1,), ()).
    Composition and reduction: Cantor's algorithm in its textbook form
    (Handbook of Elliptic and Hyperelliptic Curve Cryptography, Alg. 14.7).
    """

    def __init__(self, p, f, g):
        self.p, self.f, self.g = p, R.ptrim([c % p for c in f]), g

    def ident(self):
        return ((1,), ())

    def valid(self, D):
        p = self.p
        u, v = D
        if u != R.ptrim(u) or v != R.ptrim(v) or not u or u[-1] != 1:
            return False
        if len(u) - 1 > self.g or len(v) >= len(u):
            return False
        if any(not 0 <= c < p for c in u + v):
            return False
        return R.pmod(R.psub(self.f, R.pmul(v, v, p), p), u, p) == ()

    def op(self, D1, D2):
        p, f = self.p, self.f
        u1, v1 = D1
        u2, v2 = D2
        d1, e1, e2 = pgcdext(u1, u2, p)
        d, c1, c2 = pgcdext(d1, R.padd(v1, v2, p), p)
        s1, s2, s3 = R.pmul(c1, e1, p), R.pmul(c1, e2, p), c2
        u, rem = R.pdivmod(R.pmul(u1, u2, p), R.pmul(d, d, p), p)
        assert rem == ()
        t = R.padd(R.padd(R.pmul(R.pmul(s1, u1, p), v2, p), R.pmul(R.pmul(s2, u2, p), v1, p), p),
                   R.pmul(s3, R.padd(R.pmul(v1, v2, p), f, p), p), p)
        t, rem = R.pdivmod(t, d, p)
        assert rem == ()
        v = R.pmod(t, u, p)
        while len(u) - 1 > self.g:
            u, rem = R.pdivmod(R.psub(f, R.pmul(v, v, p), p), u, p)
            assert rem == ()
            v = R.pmod(R.pneg(v, p), u, p)
        return (R.pmonic(u, p), v)

    def inv(self, D):
        return (D[0], R.pneg(D[1], self.p))

    def elements(self, limit=200000):
        """All Mumford pairs by brute force (small p, g); None if the search space exceeds limit."""
        p, g = self.p, self.g
        if sum(p ** (2 * k) for k in range(g + 1)) > limit:
            return None
        out = [self.ident()]
        for k in range(1, g + 1):
            for lo in range(p ** k):
                u = _digits(lo, p, k) + (1,)
                fu = R.pmod(self.f, u, p)
                for vi in range(p ** k):
                    v = R.ptrim(_digits(vi, p, k))
                    if R.pmod(R.pmul(v, v, p), u, p) == fu:
                        out.append((u, v))
        return out


def _digits(x, p, k):
    a = []
    for _ in range(k):
        x, r = divmod(x, p)
        a.append(r)
    return tuple(a)


def pshift(a, c, p):
    """a(x + c) over GF(p)."""
    r = ()
    for coef in reversed(a):
        r = R.padd(R.pmul(r, (c % p, 1), p), R.ptrim((coef % p,)), p)
    return r


# ---------------------------------------------------------------- class groups
def form_reduce(f):
    """Reduced form equivalent to the positive definite form f = (a, b, c)."""
    a, b, c = f
    while True:
        if not -a < b <= a:
            # b := b mod 2a in (-a, a]
            r = (a - b) // (2 * a)          # floor
            b2 = b + 2 * r * a
            c = a * r * r + b * r + c
            b = b2
        if a > c:
            a, b, c = c, -b, a
            continue
        if a == c and b < 0:
            b = -b
        return (a, b, c)


def xgcd(a, b):
    """(g, s, t), g = gcd(a, b) >= 0 = s a + t b."""
    s0, s1, t0, t1 = 1, 0, 0, 1
    while b:
        q = a // b
        a, b = b, a - q * b
        s0, s1 = s1, s0 - q * s1
        t0, t1 = t1, t0 - q * t1
    if a < 0:
        a, s0, t0 = -a, -s0, -t0
    return a, s0, t0


class RefClassGroup(_Group):
    """Form class group of discriminant D < 0, D = 1 mod 4 (elements: reduced primitive forms).

    Composition: with s = (b1+b2)/2, g = gcd(a1, a2, s) = u a1 + v a2 + w s,
    a3 = a1 a2 / g^2,  b3 = (u a1 b2 + v a2 b1 + w (b1 b2 + D)/2) / g  mod 2 a3,  c3 = (b3^2 - D)/(4 a3).
    """

    def __init__(self, D):
        assert D < 0 and D % 4 == 1
        self.D = D

    def ident(self):
        return (1, 1, (1 - self.D) // 4)

    def valid(self, f):
        a, b, c = f
        return (b * b - 4 * a * c == self.D and a > 0 and math.gcd(math.gcd(a, b), c) == 1
                and -a < b <= a <= c and (a != c or b >= 0))

    def op(self, f1, f2):
        D = self.D
        a1, b1, _ = f1
        a2, b2, _ = f2
        s = (b1 + b2) // 2
        g1, x, y = xgcd(a1, a2)
        g, z, w = xgcd(g1, s)
        u, v = z * x, z * y
        a3 = a1 * a2 // (g * g)
        num = u * a1 * b2 + v * a2 * b1 + w * ((b1 * b2 + D) // 2)
        assert num % g == 0
        b3 = (num // g) % (2 * a3)
        c3, rem = divmod(b3 * b3 - D, 4 * a3)
        assert rem == 0
        return form_reduce((a3, b3, c3))

    def inv(self, f):
        return form_reduce((f[0], -f[1], f[2]))

    def elements(self):
        """All reduced primitive forms (small |D|)."""
        D = self.D
        out = []
        a = 1
        while 3 * a * a <= -D:
            for b in range(-a + 1, a + 1):
                if (b - D) % 2:
                    continue
                c, rem = divmod(b * b - D, 4 * a)
                if rem or c < a or (a == c and b < 0):
                    continue
                if math.gcd(math.gcd(a, b), c) == 1:
                    out.append((a, b, c))
            a += 1
        return out
