"""In-process m-party simulator for MPyC with a harness-owned schedule.

Runs the unmodified mpyc code of m parties inside one Python process: m real Runtime objects,
one minimal event loop per party (owned by the harness), and for every pair i<j a real
asyncoro.MessageExchanger client at i and server at j joined by in-memory transports.
Every byte on every directed connection is visible to the harness and every scheduling
decision (which party iterates, which bytes arrive, how streams are chunked) is data.

Soundness of the schedule model: per-party FIFO order of callbacks and per-connection FIFO
order of bytes are never violated, so every explored schedule is one a real network and
real OS scheduling can produce.
"""

import asyncio
import logging
import collections
import heapq
import random
import struct
import itertools
import traceback

from vlib.boot import boot

boot_done = False
mpyc = None
M = {}  # imported mpyc modules


def _ensure(numpy=False):
    global mpyc, boot_done
    if boot_done:
        return
    mpyc = boot(numpy=numpy)
    import mpyc.runtime as rtm
    import mpyc.asyncoro as asyncoro
    import mpyc.sectypes as sectypes
    import mpyc.thresha as thresha
    import mpyc.mpctools as mpctools
    import mpyc.seclists as seclists
    import mpyc.secpols as secpols
    import mpyc.secgroups as secgroups
    import mpyc.random as mrandom
    import mpyc.statistics as mstatistics
    import mpyc.finfields as finfields
    import mpyc.gmpy as gmpy
    M.update(runtime=rtm, asyncoro=asyncoro, sectypes=sectypes, thresha=thresha,
             mpctools=mpctools, seclists=seclists, secpols=secpols, secgroups=secgroups,
             random=mrandom, statistics=mstatistics, finfields=finfields, gmpy=gmpy)
    boot_done = True


class HarnessError(Exception):
    """Something went wrong in the harness itself (never a property violation)."""


# --------------------------------------------------------------------------------------------
# Event loop owned by the harness


class Loop(asyncio.AbstractEventLoop):
    """Minimal event loop: FIFO ready queue, virtual clock, recorded exception contexts."""

    def __init__(self, sim, pid):
        self.sim = sim
        self.pid = pid
        self._ready = collections.deque()
        self._timers = []
        self._tcount = itertools.count()
        self._now = 0.0
        self.errors = []
        self.stopped = False
        self._exception_handler = None

    # scheduling interface used by asyncio Futures/Tasks
    def call_soon(self, callback, *args, context=None):
        h = asyncio.Handle(callback, args, self, context)
        self._ready.append(h)
        return h

    call_soon_threadsafe = call_soon

    def call_later(self, delay, callback, *args, context=None):
        return self.call_at(self._now + max(delay, 0), callback, *args, context=context)

    def call_at(self, when, callback, *args, context=None):
        h = asyncio.TimerHandle(when, callback, args, self, context)
        heapq.heappush(self._timers, (when, next(self._tcount), h))
        return h

    def _timer_handle_cancelled(self, handle):
        pass

    def time(self):
        return self._now

    def create_future(self):
        return asyncio.Future(loop=self)

    def create_task(self, coro, *, name=None, context=None):
        return asyncio.Task(coro, loop=self, name=name)

    def get_debug(self):
        return False

    def is_running(self):
        return True

    def is_closed(self):
        return False

    def stop(self):
        self.stopped = True

    def set_exception_handler(self, handler):
        self._exception_handler = handler

    def default_exception_handler(self, context):
        self.errors.append(context)

    def call_exception_handler(self, context):
        self.errors.append(context)

    # harness side
    def has_work(self):
        return bool(self._ready) or bool(self._timers)

    def run_ready(self):
        """Run exactly the callbacks that are ready now (one event-loop iteration)."""
        if not self._ready and self._timers:
            # advance the virtual clock to the earliest timer
            when, _, h = heapq.heappop(self._timers)
            self._now = max(self._now, when)
            if not h.cancelled():
                self._ready.append(h)
        n = len(self._ready)
        sim = self.sim
        prev = sim.current
        sim.current = self.pid
        asyncio.events._set_running_loop(self)
        no_log = getattr(sim, 'no_log', None)   # (some checks drive a Loop with a minimal stand-in for the Sim)
        if no_log is not None:
            logging.disable(logging.CRITICAL if no_log[self.pid] else logging.NOTSET)
        try:
            for _ in range(n):
                if not self._ready:
                    break  # party crashed inside this iteration (fault injection cleared the queue)
                h = self._ready.popleft()
                if not h.cancelled():
                    h._run()
        finally:
            asyncio.events._set_running_loop(None)
            sim.current = prev
            if no_log is not None:
                logging.disable(logging.CRITICAL)
        return n


# --------------------------------------------------------------------------------------------
# In-memory transport: one object per endpoint of a connection


class Transport(asyncio.Transport):

    def __init__(self, sim, owner, peer):
        super().__init__()
        self.sim = sim
        self.owner = owner
        self.peer = peer
        self.closed = False
        self.protocol = None
        self.lost = False  # connection_lost delivered to our protocol

    def write(self, data):
        self.sim._write(self, bytes(data))

    def writelines(self, list_of_data):
        self.write(b''.join(bytes(d) for d in list_of_data))

    def close(self):
        self.sim._close(self)

    def is_closing(self):
        return self.closed

    def get_extra_info(self, name, default=None):
        return default


class _Proxy:
    """Stands in for the module-global runtime: forwards to the party being stepped."""

    def __init__(self, sim):
        object.__setattr__(self, '_sim', sim)

    def __getattr__(self, name):
        sim = object.__getattribute__(self, '_sim')
        return getattr(sim.runtimes[sim.current], name)

    def __setattr__(self, name, value):
        sim = object.__getattribute__(self, '_sim')
        setattr(sim.runtimes[sim.current], name, value)

    async def __aenter__(self):
        return self

    async def __aexit__(self, *a):
        return None


class _Secrets:
    """Deterministic stand-in for the `secrets` module, one stream per party."""

    def __init__(self, sim):
        self.sim = sim

    def _rng(self):
        return self.sim.rngs[self.sim.current]

    def randbelow(self, n):
        self.sim.n_randbelow += 1
        if self.sim.randbelow_hook is not None:
            r = self.sim.randbelow_hook(self.sim.current, n)
        else:
            r = self._rng().randrange(n)
        if self.sim.randbelow_args is not None:
            self.sim.randbelow_args.append((n, r))
        return r

    def randbits(self, k):
        return self._rng().getrandbits(k) if k else 0

    def token_bytes(self, n=32):
        return self._rng().randbytes(n)

    def choice(self, seq):
        return seq[self._rng().randrange(len(seq))]


class Frame(collections.namedtuple('Frame', 'src dst pc payload seq')):
    __slots__ = ()


def handshake_len(m, t, prss, client, server):
    """Length of the opening handshake client->server, computed independently of mpyc."""
    n = 2
    if prss:
        for S in itertools.combinations(range(m), m - t):
            if min(S) == client and server in S:
                n += 16
    return n


class Sim:
    """One simulated run of m MPyC parties.

    schedule: dict with optional keys
      mode   'rr' (round robin) | 'pct' (priorities with change points) | 'rand' (seeded random walk)
             | 'serial' (one party runs to quiescence at a time)
      prio   permutation-ish list of ints (entity priorities, highest first) for 'pct'
      changes list of [step, entity_index] demotion points for 'pct'
      chunks list of ints: chunk sizes used cyclically for ARRIVE (0 = whole buffer)
      seed   int for 'rand'
    """

    MAX_STEPS = 2_000_000

    def __init__(self, m, t=None, prss=True, sec_param=30, no_barrier=False, seed=0,
                 schedule=None, numpy=False, record=True, options=None, cli_threshold=None, no_log=None):
        _ensure(numpy=numpy)
        self.m = m
        self.t = (m - 1) // 2 if t is None else t
        assert 2 * self.t < m or (m == 1 and self.t == 0)
        self.prss = prss
        self.seed = seed
        self.schedule = dict(schedule or {})
        self.current = 0
        self.record = record
        self.rngs = [random.Random(f'{seed}/{i}') for i in range(m)]
        self.n_randbelow = 0
        self.randbelow_hook = None
        self.on_close = None  # callback(owner, peer) invoked when a party closes a connection
        self.randbelow_args = None  # set to [] to record (argument, result) of every randbelow call
        self.loops = [Loop(self, i) for i in range(m)]
        self.steps = 0
        self.inconclusive = False
        # wire[(i,j)]: bytes written by i not yet arrived at j; arrived[(i,j)]: arrived, undelivered
        self.wire = {}
        self.arrived = {}
        self.eof = {}       # (i,j) -> 'pending' once i closed: EOF follows the wire bytes
        self.log = {}       # (i,j) -> bytearray of all bytes ever written i->j
        self.dropped = {}   # (i,j) -> bytes written i->j but discarded (peer closed / crashed)
        self.transports = {}  # (owner, peer) -> Transport
        self.protocols = {}   # (owner, peer) -> MessageExchanger
        self.crashed = set()
        self.silent = set()   # crashed parties whose peers get no EOF
        self.frames_written = collections.Counter()  # per party: complete frames written
        self.crash_plan = None
        self.close_events = []  # (step, owner, peer)
        self.write_events = 0
        self._chunk_i = 0
        self._delivered = {}  # bytes moved from wire to arrived per connection (for message-wise delivery)
        self._saved = None
        # cli_threshold: threshold given "on the command line" (options.threshold); when it differs from
        # t the program assigns mpc.threshold = t before start, as e.g. demos/parallelsort.py does
        self.cli_threshold = cli_threshold
        # livelock rule (off unless livelock_steps is set by a check): a run in which, for that many consecutive
        # scheduler steps, no party wrote a byte, no byte moved, no connection closed and no party program finished
        # consists of busy-waiting callbacks only (barrier()/shutdown() polling with sleep(0)); the state can no
        # longer change, so the run is a hang (deterministic, counted in steps, not wall-clock time)
        self.livelock_steps = None
        self.livelock = False
        self._progress_at = 0
        self._progress_sig = None
        self.tasks = []
        # no_log: per-party list of booleans (option --no-log given or not); parties are separate processes in a
        # deployment, each with its own logging configuration: the process-wide logging state is switched to the
        # running party's configuration around every callback (records go to a NullHandler)
        self.no_log = list(no_log) if no_log is not None else None
        self._install()
        self._make_runtimes(sec_param, no_barrier, options)

    # ---------------------------------------------------------------- set-up / tear-down
    def _install(self):
        rtm = M['runtime']
        self.proxy = _Proxy(self)
        self.secrets = _Secrets(self)
        mods = [M[k] for k in ('asyncoro', 'sectypes', 'mpctools', 'seclists', 'secpols',
                               'secgroups', 'random', 'statistics')]
        self._saved = dict(
            runtimes=[(mod, mod.runtime) for mod in mods],
            mpc=rtm.mpc, rt_secrets=rtm.secrets, th_secrets=M['thresha'].secrets,
            pyrandom=random.getstate())
        if self.no_log is not None:
            root = logging.getLogger()
            self._saved['logging'] = (root.level, root.handlers[:])
            root.handlers[:] = [logging.NullHandler()]
            root.setLevel(logging.INFO)
        for mod in mods:
            mod.runtime = self.proxy
        rtm.mpc = self.proxy
        rtm.secrets = self.secrets
        M['thresha'].secrets = self.secrets
        random.seed(f'global/{self.seed}')  # stub Miller-Rabin in mpyc.gmpy uses global random
        self._clear_caches()

    @staticmethod
    def _clear_caches():
        st = M['sectypes']
        for name in ('_SecFld', '_SecInt', '_SecFxp', '_SecFlt'):
            getattr(st, name).cache_clear()
        # only caches of functions DEFINED in these modules (they depend on the party configuration);
        # never imported ones such as gfpx.GFpX, whose classes must stay unique per process
        for mod in (M['secgroups'], M['secpols']):
            for name in dir(mod):
                f = getattr(mod, name)
                w = getattr(f, '__wrapped__', None)
                if hasattr(f, 'cache_clear') and w is not None and getattr(w, '__module__', None) == mod.__name__:
                    f.cache_clear()
        M['runtime'].Runtime.prfs.cache_clear()

    def close(self):
        """Restore module globals (always call, e.g. via try/finally or `with`)."""
        if self._saved is None:
            return
        rtm = M['runtime']
        for mod, rt in self._saved['runtimes']:
            mod.runtime = rt
        rtm.mpc = self._saved['mpc']
        rtm.secrets = self._saved['rt_secrets']
        M['thresha'].secrets = self._saved['th_secrets']
        random.setstate(self._saved['pyrandom'])
        if 'logging' in self._saved:
            root = logging.getLogger()
            root.setLevel(self._saved['logging'][0])
            root.handlers[:] = self._saved['logging'][1]
            logging.disable(logging.CRITICAL)
        self._saved = None
        self._clear_caches()
        asyncio.events._set_running_loop(None)

    def __enter__(self):
        return self

    def __exit__(self, *a):
        self.close()

    def _make_runtimes(self, sec_param, no_barrier, options):
        rtm = M['runtime']
        parser = mpyc._get_arg_parser()
        self.runtimes = []
        real_get = asyncio.get_event_loop
        try:
            for i in range(self.m):
                opts = parser.parse_args([])
                opts.threshold = self.t
                opts.no_prss = not self.prss
                opts.no_async = False
                opts.no_barrier = no_barrier
                opts.sec_param = sec_param
                opts.no_log = True if self.no_log is None else bool(self.no_log[i])
                opts.mix32_64bit = False
                for k, v in (options or {}).items():
                    setattr(opts, k, v)
                parties = [rtm.Party(j, 'sim', 0) for j in range(self.m)]
                asyncio.get_event_loop = lambda i=i: self.loops[i]
                self.current = i
                if self.cli_threshold is not None:
                    opts.threshold = self.cli_threshold
                rt = rtm.Runtime(i, parties, opts)
                if self.cli_threshold is not None and self.cli_threshold != self.t:
                    rt.threshold = self.t  # public setter, before the connections are made
                assert rt._loop is self.loops[i]
                self.runtimes.append(rt)
        finally:
            asyncio.get_event_loop = real_get
        self.current = 0

    def connect(self):
        """Wire up all connections (replaces Runtime.start()'s socket creation only)."""
        aco = M['asyncoro']
        m = self.m
        if m == 1:
            return
        for i, rt in enumerate(self.runtimes):
            self.current = i
            for peer in rt.parties:
                peer.protocol = asyncio.Future(loop=self.loops[i]) if peer.pid == i else None
        for i in range(m):
            for j in range(m):
                if i != j:
                    self.wire[i, j] = bytearray()
                    self.arrived[i, j] = bytearray()
                    self.log[i, j] = bytearray()
                    self.dropped[i, j] = 0
        for i in range(m):
            for j in range(i + 1, m):
                server = aco.MessageExchanger(self.runtimes[j])
                client = aco.MessageExchanger(self.runtimes[i], j)
                tc = Transport(self, i, j)
                ts = Transport(self, j, i)
                tc.protocol, ts.protocol = client, server
                self.transports[i, j] = tc
                self.transports[j, i] = ts
                self.protocols[i, j] = client
                self.protocols[j, i] = server
        # connection_made in each party's own context
        for i in range(m):
            for j in range(m):
                if i != j:
                    self._in_party(i, self.protocols[i, j].connection_made, self.transports[i, j])

    def _in_party(self, pid, f, *args):
        prev = self.current
        self.current = pid
        asyncio.events._set_running_loop(self.loops[pid])
        if self.no_log is not None:
            logging.disable(logging.CRITICAL if self.no_log[pid] else logging.NOTSET)
        try:
            return f(*args)
        finally:
            asyncio.events._set_running_loop(None)
            self.current = prev
            if self.no_log is not None:
                logging.disable(logging.CRITICAL)

    # ---------------------------------------------------------------- transport callbacks
    def _write(self, tr, data):
        i, j = tr.owner, tr.peer
        if i in self.crashed:
            return
        if tr.closed:
            self.dropped[i, j] += len(data)
            return
        self.write_events += 1
        plan = self.crash_plan
        if plan is not None and plan['party'] == i and not plan.get('done') and plan.get('hs_peer') is not None:
            # crash INSIDE the opening handshake to one peer: only the first `cut` bytes of it are written
            if plan['hs_peer'] == j and not self._is_frame_write(i, j):
                cut = min(plan['cut'], len(data))
                self.log[i, j] += data[:cut]
                if j not in self.crashed:
                    self.wire[i, j] += data[:cut]
                self._crash(i, plan.get('eof', True))
                plan.update(done=True, cut_applied=cut, frame_len=len(data), dst=j)
                return
        elif plan is not None and plan['party'] == i and not plan.get('done'):
            # count frames (every write after the handshake is exactly one frame)
            if self.frames_written[i] >= plan['after_frames'] and self._is_frame_write(i, j):
                cut = min(plan['cut'], len(data))
                self.log[i, j] += data[:cut]
                if j not in self.crashed:
                    self.wire[i, j] += data[:cut]
                self._crash(i, plan.get('eof', True))
                plan['done'] = True
                plan['cut_applied'] = cut
                plan['frame_len'] = len(data)
                plan['dst'] = j
                return
        if self._is_frame_write(i, j):
            self.frames_written[i] += 1
        self.log[i, j] += data
        if j in self.crashed or self.transports[j, i].closed:
            self.dropped[i, j] += len(data)
            return
        self.wire[i, j] += data

    def _is_frame_write(self, i, j):
        # the handshake is the first write of a client endpoint
        if i < j and len(self.log[i, j]) == 0:
            return False
        return True

    def _close(self, tr):
        i, j = tr.owner, tr.peer
        if tr.closed or i in self.crashed:
            return
        if self.on_close is not None:
            self.on_close(i, j)
        tr.closed = True
        self.close_events.append((self.steps, i, j))
        # our side stops reading at once: bytes still travelling j->i are discarded
        lost = len(self.wire[j, i]) + len(self.arrived[j, i])
        if lost:
            self.dropped[j, i] += lost
            self.wire[j, i].clear()
            self.arrived[j, i].clear()
        self.loops[i].call_soon(self._lost, tr)
        self.eof[i, j] = 'pending'

    def _lost(self, tr):
        if tr.lost:
            return
        tr.lost = True
        tr.protocol.connection_lost(None)

    def _crash(self, p, eof=True):
        """Party p stops for good."""
        self.crashed.add(p)
        self.loops[p]._ready.clear()
        self.loops[p]._timers.clear()
        for j in range(self.m):
            if j == p:
                continue
            self.wire[j, p].clear()
            self.arrived[j, p].clear()
            if eof:
                if not self.transports[p, j].closed:
                    self.eof[p, j] = 'pending'
            else:
                self.silent.add(p)

    # ---------------------------------------------------------------- scheduling
    def _entities(self):
        m = self.m
        ents = [('L', i) for i in range(m)]
        ents += [('C', i, j) for i in range(m) for j in range(m) if i != j]
        return ents

    def _enabled(self, e):
        if e[0] == 'L':
            j = e[1]
            if j in self.crashed:
                return False
            if self.loops[j].has_work():
                return True
            for i in range(self.m):
                if i != j and (self.arrived[i, j] or self.eof.get((i, j)) == 'arrived'):
                    return True
            return False
        _, i, j = e
        if j in self.crashed:
            return False
        return bool(self.wire[i, j]) or self.eof.get((i, j)) == 'pending'

    def _next_chunk(self, avail, conn=None):
        chunks = self.schedule.get('chunks') or [0]
        c = chunks[self._chunk_i % len(chunks)]
        self._chunk_i += 1
        if c == -1 and conn is not None:
            # message-wise delivery: exactly the next complete message (the opening handshake counts as one), so
            # that every single message can be delayed on its own by the scheduler
            i, j = conn
            w = self.wire[i, j]
            done = self._delivered.get(conn, 0)
            hs = handshake_len(self.m, self.t, self.prss, i, j) if i < j else 0
            if done < hs:
                n = hs - done
            elif len(w) >= 12:
                n = 12 + struct.unpack_from('<I', w, 8)[0]
            else:
                n = avail
            return min(n, avail)
        if c <= 0 or c > avail:
            return avail
        return c

    def _do(self, e):
        self.steps += 1
        if self.livelock_steps is not None:
            sig = (self.write_events, len(self.close_events), sum(1 for tk in self.tasks if tk.done()),
                   e[0] == 'C' and self.steps)
            if sig != self._progress_sig:
                self._progress_sig = sig
                self._progress_at = self.steps
            elif self.steps - self._progress_at > self.livelock_steps:
                self.livelock = True
        if e[0] == 'C':
            _, i, j = e
            w = self.wire[i, j]
            if w:
                n = self._next_chunk(len(w), (i, j))
                self._delivered[i, j] = self._delivered.get((i, j), 0) + n
                self.arrived[i, j] += w[:n]
                del w[:n]
            elif self.eof.get((i, j)) == 'pending':
                self.eof[i, j] = 'arrived'
            return
        j = e[1]
        loop = self.loops[j]
        # faithful to a selector loop: I/O callbacks are appended first, then the batch runs
        for i in range(self.m):
            if i == j:
                continue
            a = self.arrived[i, j]
            if a:
                data = bytes(a)
                a.clear()
                tr = self.transports[j, i]
                if not tr.closed and not tr.lost:
                    loop.call_soon(tr.protocol.data_received, data)
                else:
                    self.dropped[i, j] += len(data)
            if self.eof.get((i, j)) == 'arrived' and not self.arrived[i, j]:
                self.eof[i, j] = 'done'
                tr = self.transports[j, i]
                if not tr.closed:
                    tr.closed = True
                    # whatever j still had in flight to i is discarded
                    lost = len(self.wire[j, i]) + len(self.arrived[j, i])
                    if lost:
                        self.dropped[j, i] += lost
                        self.wire[j, i].clear()
                        self.arrived[j, i].clear()
                loop.call_soon(self._lost, tr)
        loop.run_ready()

    def run(self, until=None):
        """Run to quiescence (or until predicate `until()` holds). Returns number of steps."""
        sched = self.schedule
        mode = sched.get('mode', 'rr')
        ents = self._entities()
        ne = len(ents)
        if mode == 'pct':
            prio = list(sched.get('prio') or [])
            order = []
            seen = set()
            for x in prio:
                x %= ne
                if x not in seen:
                    seen.add(x)
                    order.append(x)
            order += [x for x in range(ne) if x not in seen]
            changes = sorted((int(s), int(x) % ne) for s, x in (sched.get('changes') or []))
            ci = 0
        elif mode == 'rand':
            rng = random.Random(sched.get('seed', 0))
            # bias: probability of picking a connection (delays) varies per run
            bias = rng.choice([0.2, 0.5, 0.8])
            starve = set()
            if rng.random() < 0.5:
                starve = {rng.randrange(ne)}
        rr = 0
        serial_cur = 0
        start = self.steps
        if mode == 'fast':
            return self._run_fast(until)
        # fairness: real parties run concurrently, so no enabled entity can be postponed for ever
        # (a party busy-waiting in barrier()/shutdown() with sleep(0) must not starve the others)
        fair = int(sched.get('fair', 150))
        waiting = {}
        while True:
            if until is not None and until():
                break
            if self.steps - start > self.MAX_STEPS:
                self.inconclusive = True
                break
            if self.livelock:
                break
            en = [k for k in range(ne) if self._enabled(ents[k])]
            if not en:
                break
            if mode == 'rr':
                # next enabled entity in cyclic order
                k = min(en, key=lambda x: (x - rr) % ne)
                rr = (k + 1) % ne
            elif mode == 'serial':
                # one party runs to quiescence at a time; connections into it are served eagerly
                cands = [k for k in en if (ents[k][0] == 'L' and ents[k][1] == serial_cur)
                         or (ents[k][0] == 'C' and ents[k][2] == serial_cur)]
                if not cands:
                    serial_cur = (serial_cur + 1) % self.m
                    continue
                k = cands[0]
            elif mode == 'pct':
                while ci < len(changes) and changes[ci][0] <= self.steps - start:
                    x = changes[ci][1]
                    order.remove(x)
                    order.append(x)
                    ci += 1
                ens = set(en)
                k = next(x for x in order if x in ens)
            elif mode == 'rand':
                pool = [k for k in en if k not in starve] or en
                cs = [k for k in pool if ents[k][0] == 'C']
                ls = [k for k in pool if ents[k][0] == 'L']
                if cs and ls:
                    k = rng.choice(cs) if rng.random() < bias else rng.choice(ls)
                else:
                    k = rng.choice(pool)
                if starve and rng.random() < 0.002:
                    starve = {rng.randrange(ne)}
            else:
                raise HarnessError(f'unknown schedule mode {mode}')
            ens_ = set(en)
            for x in list(waiting):
                if x not in ens_:
                    del waiting[x]
            for x in en:
                waiting[x] = waiting.get(x, 0) + 1
            oldest = max(en, key=lambda x: waiting[x])
            if waiting[oldest] > fair:
                k = oldest
            waiting[k] = 0
            self._do(ents[k])
        return self.steps - start

    def _run_fast(self, until=None):
        """Canonical cheap schedule: every party in turn gets all pending bytes and iterates."""
        start = self.steps
        m = self.m
        while True:
            progress = False
            for j in range(m):
                if j in self.crashed:
                    continue
                if until is not None and until():
                    return self.steps - start
                for i in range(m):
                    if i == j:
                        continue
                    w = self.wire[i, j]
                    if w:
                        self.arrived[i, j] += w
                        w.clear()
                    if self.eof.get((i, j)) == 'pending':
                        self.eof[i, j] = 'arrived'
                if self._enabled(('L', j)):
                    self._do(('L', j))
                    progress = True
            if not progress:
                break
            if self.steps - start > self.MAX_STEPS:
                self.inconclusive = True
                break
        return self.steps - start

    # ---------------------------------------------------------------- running programs
    def run_programs(self, prog, shutdown=True, per_party_args=None):
        """Run `await prog(mpc, pid)` at every party (then shutdown); return a Result."""
        aco_task = asyncio.Task
        tasks = []
        import time as _time

        async def main(i):
            rt = self.runtimes[i]
            if self.m > 1:
                await rt.parties[i].protocol
            rt.start_time = _time.time()
            if per_party_args is not None:
                res = await prog(self.proxy, i, per_party_args[i])
            else:
                res = await prog(self.proxy, i)
            if shutdown:
                await rt.shutdown()
            return res

        self.connect()
        for i in range(self.m):
            self.current = i
            asyncio.events._set_running_loop(self.loops[i])
            try:
                tasks.append(aco_task(main(i), loop=self.loops[i]))
            finally:
                asyncio.events._set_running_loop(None)
        self.current = 0
        self.tasks = tasks
        self.run()
        return self.collect(tasks)

    def collect(self, tasks):
        res = Result()
        res.steps = self.steps
        res.inconclusive = self.inconclusive
        for i, tk in enumerate(tasks):
            if i in self.crashed:
                res.status.append('crashed')
                res.values.append(None)
                continue
            if tk.done():
                if tk.cancelled():
                    res.status.append('cancelled')
                    res.values.append(None)
                elif tk.exception() is not None:
                    exc = tk.exception()
                    res.status.append('error')
                    res.values.append(None)
                    res.errors.append((i, ''.join(traceback.format_exception(exc))[-3000:]))
                else:
                    res.status.append('done')
                    res.values.append(tk.result())
            else:
                res.status.append('pending')
                res.values.append(None)
        for i, lp in enumerate(self.loops):
            for ctx in lp.errors:
                exc = ctx.get('exception')
                if exc is not None:
                    txt = ''.join(traceback.format_exception(exc))[-3000:]
                else:
                    txt = str(ctx.get('message'))
                res.errors.append((i, txt))
        return res

    # ---------------------------------------------------------------- wire inspection
    def frames(self, i, j):
        """Parse the complete byte log of connection i->j with an independent parser.

        Returns (handshake_bytes, [Frame...], tail_bytes)."""
        data = bytes(self.log[i, j])
        hs = b''
        if i < j:
            n = handshake_len(self.m, self.t, self.prss, i, j)
            hs, data = data[:n], data[n:]
        out = []
        pos = 0
        seq = 0
        while len(data) - pos >= 12:
            pc, size = struct.unpack_from('<qI', data, pos)
            if len(data) - pos - 12 < size:
                break
            out.append(Frame(i, j, pc, data[pos + 12:pos + 12 + size], seq))
            seq += 1
            pos += 12 + size
        return hs, out, data[pos:]


class Result:
    def __init__(self):
        self.status = []
        self.values = []
        self.errors = []
        self.steps = 0
        self.inconclusive = False

    @property
    def all_done(self):
        return all(s == 'done' for s in self.status)

    def describe(self):
        s = f'status={self.status}'
        if self.errors:
            s += ' errors=' + ' | '.join(f'P{i}: {e.strip().splitlines()[-1]}' for i, e in self.errors[:3])
        return s


def run(m, prog, t=None, prss=True, seed=0, schedule=None, numpy=False, **kw):
    """Convenience: run prog at all parties of a fresh simulation; returns (Result, Sim)."""
    sim = Sim(m, t, prss=prss, seed=seed, schedule=schedule, numpy=numpy, **kw)
    try:
        res = sim.run_programs(prog)
    finally:
        sim.close()
    return res, sim
