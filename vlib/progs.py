"""Program grammar for secure-integer programs, with reference and secure interpreters.

A program is a JSON-serialisable straight-line list of nodes.  Nodes refer to earlier
scalar-valued nodes by index.  Multi-valued operations are terminal (their results are only
output).  Programs are built constructively: each candidate node is evaluated by the
reference interpreter while drawing and kept only if it satisfies the documented
precondition of its operation (all values within l bits, comparisons' differences within
l bits, positive public divisors, coprime arguments for inverse, bits for Boolean ops).

Node formats:
  ['in', sender, v]            secret input v by party `sender` (a genuine degree-t sharing)
  ['const', v]                 secint(v) (public constant lifted to a secure value)
  ['un', op, a]                neg abs sgn lsb iszero not
  ['bin', op, a, b]            add sub mul lt le eq ge gt ne min max and or xor gcd lcm inverse
  ['binp', op, a, c]           secure a, public int c: add sub mul floordiv mod rshift pow lt le eq ge gt ne
  ['rbinp', op, c, a]          public c, secure a: add sub mul lt eq
  ['ifelse', c, a, b]
  ['red', op, [a...]]          sum prod all any min max
  ['inprod', [a...], [b...]]
  ['pub', op, a(, b)]          is_zero_public / eq_public: awaited at once, value public (await point)
  ['await', kind, a]           kind in output|gather|sleep|peek: mid-program await on an earlier value
  ['barrier']
  ['coro', a, b]               user-defined @mpc.coroutine helper: (a*b + a) via awaits inside
  ['multi', op, ...]           if_swap(c,a,b) min_max([..]) argmin([..]) argmax([..]) divmod(a,c)
                               gcdext(a,b) scalar_mul(a,[..]) schur_prod([..],[..])
                               matrix_prod(A,B) ifelse_list(c,[..],[..]) ifswap_list(c,[..],[..])
                               vector_add([..],[..]) vector_sub([..],[..]) sorted([..])
"""

import math
from hypothesis import strategies as st

SCALAR_KINDS = ('in', 'const', 'un', 'bin', 'binp', 'rbinp', 'ifelse', 'red', 'inprod', 'coro')
CMP = {'lt': lambda a, b: a < b, 'le': lambda a, b: a <= b, 'eq': lambda a, b: a == b,
       'ge': lambda a, b: a >= b, 'gt': lambda a, b: a > b, 'ne': lambda a, b: a != b}


class Invalid(Exception):
    """The node violates a documented precondition: not generated."""


def _rng(l):
    return -(1 << (l - 1)), (1 << (l - 1)) - 1


def _chk(v, l):
    lo, hi = _rng(l)
    if not lo <= v <= hi:
        raise Invalid
    return v


def ref_node(node, vals, l):
    """Reference value of a node given reference values of earlier nodes (ints / lists)."""
    kind = node[0]
    lo, hi = _rng(l)
    if kind == 'in':
        return _chk(node[2], l)
    if kind == 'const':
        return _chk(node[1], l)
    if kind == 'un':
        op, a = node[1], vals[node[2]]
        if op == 'neg':
            return _chk(-a, l)
        if op == 'abs':
            return _chk(abs(a), l)
        if op == 'sgn':
            return (a > 0) - (a < 0)
        if op == 'lsb':
            return a % 2
        if op == 'iszero':
            return int(a == 0)
        if op == 'not':
            if a not in (0, 1):
                raise Invalid
            return 1 - a
    if kind == 'bin':
        op, a, b = node[1], vals[node[2]], vals[node[3]]
        if op == 'add':
            return _chk(a + b, l)
        if op == 'sub':
            return _chk(a - b, l)
        if op == 'mul':
            return _chk(a * b, l)
        if op in CMP:
            if op not in ('eq', 'ne'):
                _chk(a - b, l)
                _chk(b - a, l)
            return int(CMP[op](a, b))
        if op in ('min', 'max'):
            _chk(a - b, l)
            _chk(b - a, l)
            return min(a, b) if op == 'min' else max(a, b)
        if op in ('and', 'or', 'xor'):
            if a not in (0, 1) or b not in (0, 1):
                raise Invalid
            return {'and': a & b, 'or': a | b, 'xor': a ^ b}[op]
        if op == 'gcd':
            # abs() of the result and internal sign handling need |a|,|b| < 2^(l-1)
            if a == lo or b == lo:
                raise Invalid
            return math.gcd(a, b)
        if op == 'lcm':
            if a == lo or b == lo:
                raise Invalid
            return _chk(math.lcm(a, b), l)
        if op == 'inverse':
            if not (a >= 0 and b > 0 and math.gcd(a, b) == 1):
                raise Invalid
            _chk(2 * b, l)  # implementation forms u + 2b before the final reduction
            return pow(a, -1, b) if b > 1 else 0
    if kind == 'binp':
        op, a, c = node[1], vals[node[2]], node[3]
        if op == 'add':
            return _chk(a + c, l)
        if op == 'sub':
            return _chk(a - c, l)
        if op == 'mul':
            return _chk(a * c, l)
        if op == 'floordiv':
            if c < 1 or c > hi:
                raise Invalid
            return a // c
        if op == 'mod':
            if c < 1 or c > hi:
                raise Invalid
            return a % c
        if op == 'rshift':
            if not 0 <= c < l - 1:
                raise Invalid
            return a >> c
        if op == 'pow':
            if not 0 <= c <= 5:
                raise Invalid
            r = 1
            return _chk(a ** c, l)  # ring arithmetic: only the result has to fit
        if op in CMP:
            _chk(c, l)
            _chk(a - c, l)
            _chk(c - a, l)
            return int(CMP[op](a, c))
    if kind == 'rbinp':
        op, c, a = node[1], node[2], vals[node[3]]
        _chk(c, l)
        if op == 'add':
            return _chk(c + a, l)
        if op == 'sub':
            return _chk(c - a, l)
        if op == 'mul':
            return _chk(c * a, l)
        if op in CMP:
            _chk(a - c, l)
            _chk(c - a, l)
            return int(CMP[op](c, a))
    if kind == 'ifelse':
        c, a, b = vals[node[1]], vals[node[2]], vals[node[3]]
        if c not in (0, 1):
            raise Invalid
        return a if c else b  # c*(a-b)+b is ring arithmetic: no range condition
    if kind == 'red':
        op, xs = node[1], [vals[i] for i in node[2]]
        if op == 'sum':
            return _chk(sum(xs), l)
        if op == 'prod':
            r = 1
            for x in xs:
                r *= x
            return _chk(r, l)
        if op in ('all', 'any'):
            if any(x not in (0, 1) for x in xs):
                raise Invalid
            return int(all(xs)) if op == 'all' else int(any(xs))
        if op in ('min', 'max'):
            if not xs:
                raise Invalid
            _chk(max(xs) - min(xs), l)
            return min(xs) if op == 'min' else max(xs)
    if kind == 'inprod':
        xs, ys = [vals[i] for i in node[1]], [vals[i] for i in node[2]]
        if len(xs) != len(ys):
            raise Invalid
        return _chk(sum(x * y for x, y in zip(xs, ys)), l)
    if kind == 'coro':
        a, b = vals[node[1]], vals[node[2]]
        _chk(a * b, l)
        return _chk(a * b + a, l)
    if kind == 'pub':
        op = node[1]
        if op == 'is_zero_public':
            return bool(vals[node[2]] == 0)
        if op == 'eq_public':
            return bool(vals[node[2]] == vals[node[3]])
    if kind == 'await':
        return None
    if kind in ('barrier', 'boom'):
        return None
    if kind == 'multi':
        return _ref_multi(node, vals, l)
    if kind == 'rnd':
        # secure randomness: many correct outputs, validity predicate in compare()
        if node[1] == 'bits' and not 0 <= node[2] <= 6:
            raise Invalid
        if node[1] == 'random' and node[2] is not None and node[2] < 1:
            raise Invalid
        return ['rnd'] + list(node[1:])
    raise Invalid


def _prod_tree_ok(xs, l):
    # mpc.prod multiplies pairwise in a tree: x[0]*x[1], x[2]*x[3], ... (odd tail carried over)
    xs = list(xs)
    while len(xs) > 1:
        nxt = [_chk(xs[i] * xs[i + 1], l) for i in range(0, len(xs) - 1, 2)]
        if len(xs) % 2:
            nxt.append(xs[-1])
        xs = nxt


def _ref_multi(node, vals, l):
    op = node[1]
    lo, hi = _rng(l)
    if op == 'if_swap':
        c, a, b = vals[node[2]], vals[node[3]], vals[node[4]]
        if c not in (0, 1):
            raise Invalid
        _chk(a - b, l)
        _chk(b - a, l)
        return [b, a] if c else [a, b]
    if op in ('min_max', 'argmin', 'argmax', 'sorted'):
        xs = [vals[i] for i in node[2]]
        if not xs:
            raise Invalid
        _chk(max(xs) - min(xs), l)
        if op == 'min_max':
            return [min(xs), max(xs)]
        if op == 'sorted':
            return sorted(xs)
        if op == 'argmin':
            v = min(xs)
        else:
            v = max(xs)
        return [xs.index(v), v]
    if op == 'divmod':
        a, c = vals[node[2]], node[3]
        if c < 1 or c > hi:
            raise Invalid
        return list(divmod(a, c))
    if op == 'gcdext':
        a, b = vals[node[2]], vals[node[3]]
        if a == lo or b == lo:
            raise Invalid
        return ['gcdext', a, b]  # validity predicate, many correct outputs
    if op == 'scalar_mul':
        a, xs = vals[node[2]], [vals[i] for i in node[3]]
        return [_chk(a * x, l) for x in xs]
    if op in ('schur_prod', 'vector_add', 'vector_sub'):
        xs, ys = [vals[i] for i in node[2]], [vals[i] for i in node[3]]
        if len(xs) != len(ys):
            raise Invalid
        f = {'schur_prod': lambda x, y: x * y, 'vector_add': lambda x, y: x + y,
             'vector_sub': lambda x, y: x - y}[op]
        return [_chk(f(x, y), l) for x, y in zip(xs, ys)]
    if op == 'matrix_prod':
        A = [[vals[i] for i in row] for row in node[2]]
        B = [[vals[i] for i in row] for row in node[3]]
        if not A or not B or any(len(r) != len(B) for r in A) or len({len(r) for r in B}) != 1:
            raise Invalid
        return [[_chk(sum(A[i][k] * B[k][j] for k in range(len(B))), l)
                 for j in range(len(B[0]))] for i in range(len(A))]
    if op in ('ifelse_list', 'ifswap_list'):
        c = vals[node[2]]
        xs, ys = [vals[i] for i in node[3]], [vals[i] for i in node[4]]
        if c not in (0, 1) or len(xs) != len(ys) or not xs:
            raise Invalid
        for x, y in zip(xs, ys):
            _chk(x - y, l)
            _chk(y - x, l)
        if op == 'ifelse_list':
            return list(xs) if c else list(ys)
        return [list(ys), list(xs)] if c else [list(xs), list(ys)]
    raise Invalid


def reference(nodes, l):
    vals = []
    for nd in nodes:
        vals.append(ref_node(nd, vals, l))
    return vals


def is_valid(nodes, l):
    try:
        reference(nodes, l)
        return True
    except (Invalid, IndexError, TypeError):
        return False


def is_scalar(node):
    if node[0] == 'red' and not node[2]:
        return False  # results on empty lists are plain Python values: terminal
    if node[0] == 'inprod' and not node[1]:
        return False
    return node[0] in SCALAR_KINDS


# --------------------------------------------------------------------------------------------
# generation

RESHAPING = {'mul', 'lt', 'le', 'eq', 'ge', 'gt', 'ne', 'min', 'max', 'gcd', 'lcm', 'inverse',
             'floordiv', 'mod', 'rshift', 'pow', 'abs', 'sgn', 'lsb', 'iszero', 'prod', 'all',
             'any', 'and', 'or', 'xor'}


def value_strategy(l, small=False):
    lo, hi = _rng(l)
    base = [st.integers(-4, 4).map(lambda v: max(lo, min(hi, v))),
            st.integers(max(lo, -12), min(hi, 12))]
    if not small:
        base += [st.sampled_from([lo, hi, lo + 1, hi - 1, 0, 1, -1]), st.integers(lo, hi)]
    return st.one_of(*base)


@st.composite
def int_program(draw, m, l, max_nodes=10, heavy=True, awaits=False, min_nodes=2, rnd=False, boom=False):
    """Draw a valid secure-integer program for m parties and bit length l."""
    nodes = []
    vals = []
    n_inputs = draw(st.integers(2, 4))
    for _ in range(n_inputs):
        v = draw(value_strategy(l, small=draw(st.booleans())))
        nodes.append(['in', draw(st.integers(0, m - 1)), v])
        vals.append(v)
    n_ops = draw(st.integers(min_nodes, max_nodes))
    lo, hi = _rng(l)

    def scalars():
        return [i for i, nd in enumerate(nodes) if is_scalar(nd)]

    def bits():
        return [i for i in scalars() if vals[i] in (0, 1)]

    kinds = ['un', 'bin', 'bin', 'bin', 'binp', 'binp', 'rbinp', 'ifelse', 'red', 'inprod',
             'pub', 'multi', 'multi', 'multi', 'bitop', 'const', 'in']
    if awaits:
        kinds += ['await'] * 2 + ['barrier', 'coro', 'modlike', 'modlike', 'modlike'] + ['multi'] * 5 + ['inprod']
        # (list operations are separate MPyC coroutines each: schedule properties need every one of them often)
    if heavy:
        kinds += ['heavy']
    if rnd:
        kinds += ['rnd', 'rnd']
    if boom:
        kinds += ['boom']
    for _ in range(n_ops):
        for _attempt in range(4):
            kind = draw(st.sampled_from(kinds))
            sc = scalars()
            ref = st.sampled_from(sc)
            if kind == 'in':
                nd = ['in', draw(st.integers(0, m - 1)), draw(value_strategy(l))]
            elif kind == 'const':
                nd = ['const', draw(value_strategy(l))]
            elif kind == 'un':
                nd = ['un', draw(st.sampled_from(['neg', 'abs', 'sgn', 'lsb', 'iszero', 'not'])),
                      draw(ref)]
            elif kind == 'bin':
                op = draw(st.sampled_from(['add', 'sub', 'mul', 'mul', 'lt', 'le', 'eq', 'ge', 'gt',
                                           'ne', 'min', 'max', 'and', 'or', 'xor']))
                nd = ['bin', op, draw(ref), draw(ref)]
            elif kind == 'modlike':
                op = draw(st.sampled_from(['mod', 'mod', 'floordiv', 'rshift']))
                c = draw(st.integers(0, max(0, l - 2))) if op == 'rshift' else draw(st.integers(1, min(hi, 9)))
                nd = ['binp', op, draw(ref), c]
            elif kind == 'bitop':
                b = bits()
                if not b:
                    nd = ['bin', draw(st.sampled_from(['lt', 'eq', 'ge'])), draw(ref), draw(ref)]
                elif draw(st.booleans()):
                    nd = ['un', 'not', draw(st.sampled_from(b))]
                else:
                    nd = ['bin', draw(st.sampled_from(['and', 'or', 'xor'])), draw(st.sampled_from(b)),
                          draw(st.sampled_from(b))]
            elif kind == 'heavy':
                op = draw(st.sampled_from(['gcd', 'lcm', 'inverse']))
                nd = ['bin', op, draw(ref), draw(ref)]
            elif kind == 'binp':
                op = draw(st.sampled_from(['add', 'sub', 'mul', 'floordiv', 'mod', 'mod', 'rshift',
                                           'pow', 'lt', 'le', 'eq', 'ge', 'gt', 'ne']))
                if op in ('floordiv', 'mod'):
                    c = draw(st.one_of(st.integers(1, min(hi, 9)), st.integers(1, hi),
                                       st.sampled_from([1, 2, 4, hi])))
                elif op == 'rshift':
                    c = draw(st.integers(0, max(0, l - 2)))
                elif op == 'pow':
                    c = draw(st.integers(0, 5))
                else:
                    c = draw(value_strategy(l, small=True))
                nd = ['binp', op, draw(ref), c]
            elif kind == 'rbinp':
                op = draw(st.sampled_from(['add', 'sub', 'mul', 'lt', 'eq', 'ge']))
                nd = ['rbinp', op, draw(value_strategy(l, small=True)), draw(ref)]
            elif kind == 'ifelse':
                b = bits()
                if not b:
                    continue
                nd = ['ifelse', draw(st.sampled_from(b)), draw(ref), draw(ref)]
            elif kind == 'red':
                op = draw(st.sampled_from(['sum', 'prod', 'all', 'any', 'min', 'max']))
                pool = bits() if op in ('all', 'any') else sc
                if not pool:
                    continue
                nd = ['red', op, draw(st.lists(st.sampled_from(pool), min_size=0 if op in ('sum', 'prod', 'all', 'any') else 1, max_size=5))]
            elif kind == 'inprod':
                n = draw(st.integers(0, 4))
                nd = ['inprod', [draw(ref) for _ in range(n)], [draw(ref) for _ in range(n)]]
            elif kind == 'pub':
                op = draw(st.sampled_from(['is_zero_public', 'eq_public']))
                nd = ['pub', op, draw(ref)] + ([draw(ref)] if op == 'eq_public' else [])
            elif kind == 'await':
                nd = ['await', draw(st.sampled_from(['output', 'gather', 'sleep'])), draw(ref)]
            elif kind == 'barrier':
                nd = ['barrier']
            elif kind == 'rnd':
                rk = draw(st.sampled_from(['bit', 'bits', 'random']))
                if rk == 'bit':
                    nd = ['rnd', 'bit', draw(st.booleans())]
                elif rk == 'bits':
                    nd = ['rnd', 'bits', draw(st.integers(0, 4)), draw(st.booleans())]
                else:
                    nd = ['rnd', 'random', draw(st.one_of(st.none(), st.integers(1, 1 << (l - 1)),
                                                          st.sampled_from([1, 2, 3, 1 << (l - 1)])))]
            elif kind == 'boom':
                nd = ['boom', draw(ref)]
            elif kind == 'coro':
                nd = ['coro', draw(ref), draw(ref)]
            else:  # multi
                op = draw(st.sampled_from(['if_swap', 'min_max', 'argmin', 'argmax', 'divmod',
                                           'scalar_mul', 'schur_prod', 'matrix_prod', 'ifelse_list',
                                           'ifswap_list', 'vector_add', 'vector_sub', 'sorted']
                                          + (['gcdext'] if heavy else [])))
                if op == 'if_swap':
                    b = bits()
                    if not b:
                        continue
                    nd = ['multi', op, draw(st.sampled_from(b)), draw(ref), draw(ref)]
                elif op in ('min_max', 'argmin', 'argmax', 'sorted'):
                    nd = ['multi', op, draw(st.lists(ref, min_size=1, max_size=5))]
                elif op == 'divmod':
                    nd = ['multi', op, draw(ref), draw(st.integers(1, hi))]
                elif op == 'gcdext':
                    nd = ['multi', op, draw(ref), draw(ref)]
                elif op == 'scalar_mul':
                    nd = ['multi', op, draw(ref), draw(st.lists(ref, min_size=0, max_size=4))]
                elif op in ('schur_prod', 'vector_add', 'vector_sub'):
                    n = draw(st.integers(0, 4))
                    nd = ['multi', op, [draw(ref) for _ in range(n)], [draw(ref) for _ in range(n)]]
                elif op == 'matrix_prod':
                    n1, n2, n3 = draw(st.integers(1, 2)), draw(st.integers(1, 3)), draw(st.integers(1, 2))
                    nd = ['multi', op, [[draw(ref) for _ in range(n2)] for _ in range(n1)],
                          [[draw(ref) for _ in range(n3)] for _ in range(n2)]]
                else:
                    b = bits()
                    if not b:
                        continue
                    n = draw(st.integers(1, 3))
                    nd = ['multi', op, draw(st.sampled_from(b)), [draw(ref) for _ in range(n)],
                          [draw(ref) for _ in range(n)]]
            try:
                v = ref_node(nd, vals, l)
            except Invalid:
                continue
            nodes.append(nd)
            vals.append(v)
            if awaits and draw(st.booleans()):
                # a sibling of the same operation right behind it: two protocol instances of the same kind are
                # then pending together, with operands dealt by different parties
                sib = None
                sc2, b2 = scalars(), bits()
                r2 = st.sampled_from(sc2)
                if nd[0] == 'multi' and nd[1] in ('ifelse_list', 'ifswap_list') and b2:
                    n2 = len(nd[3])
                    sib = ['multi', nd[1], draw(st.sampled_from(b2)), [draw(r2) for _ in range(n2)],
                           [draw(r2) for _ in range(n2)]]
                elif nd[0] == 'multi' and nd[1] in ('schur_prod', 'vector_add', 'vector_sub') and nd[2]:
                    sib = ['multi', nd[1], [draw(r2) for _ in nd[2]], [draw(r2) for _ in nd[2]]]
                elif nd[0] == 'inprod' and nd[1]:
                    sib = ['inprod', [draw(r2) for _ in nd[1]], [draw(r2) for _ in nd[1]]]
                if sib is not None:
                    try:
                        v2 = ref_node(sib, vals, l)
                        nodes.append(sib)
                        vals.append(v2)
                    except Invalid:
                        pass
            if awaits and nd[0] not in ('await', 'barrier') and draw(st.booleans()):
                # await an earlier (possibly already completed) value right after starting an operation
                sc = scalars()
                tgt = draw(st.sampled_from(sc[-4:] + sc[:2]))
                nodes.append(['await', draw(st.sampled_from(['gather', 'gather', 'gather', 'output',
                                                             'output', 'sleep'])), tgt])
                vals.append(None)
            break
    return nodes


def program_features(nodes, m, t):
    """Labels / non-triviality facts about a program."""
    f = set()
    senders = {nd[1] for nd in nodes if nd[0] == 'in'}
    for nd in nodes:
        k = nd[0]
        f.add(k if k not in ('un', 'bin', 'binp', 'rbinp', 'red', 'multi', 'pub', 'await') else f'{k}:{nd[1]}')
    reshaping = any((nd[0] in ('un', 'bin', 'binp', 'red') and nd[1] in RESHAPING)
                    or nd[0] in ('ifelse', 'inprod', 'multi', 'pub', 'coro') for nd in nodes)
    return dict(ops=sorted(f), reshaping=reshaping, senders=sorted(senders),
                has_await=any(nd[0] in ('await', 'pub', 'barrier') for nd in nodes))


# --------------------------------------------------------------------------------------------
# secure interpreter (runs inside every simulated party, public API only)


def make_party_program(nodes, l, receivers=None, on_value=None, collect_shares=False,
                       out_mode='end', on_output=None):
    """Return `async def prog(mpc, pid)` executing nodes; returns list of opened node values.

    Each scalar node value is opened with mpc.output at the end (all started, then awaited);
    multi nodes are opened element-wise.  With collect_shares, each party also returns its own
    shares (via the public mpc.gather) of every scalar node.
    """

    async def prog(mpc, pid):
        import asyncio
        secint = mpc.SecInt(l)
        vals = []
        eager = []

        @mpc.coroutine
        async def helper(a, b):
            await mpc.returnType(secint)
            c = a * b
            c = await mpc.gather(c)   # await inside a user-defined MPyC coroutine
            return c + a

        @mpc.coroutine
        async def failing(a):
            await mpc.returnType(None)
            await mpc.gather(a)
            raise ValueError('failure inside a user-defined MPyC coroutine')

        for nd in nodes:
            k = nd[0]
            if k == 'in':
                v = mpc.input(secint(nd[2] if pid == nd[1] else None), senders=nd[1])
            elif k == 'const':
                v = secint(nd[1])
            elif k == 'un':
                a = vals[nd[2]]
                op = nd[1]
                v = {'neg': lambda: -a, 'abs': lambda: abs(a), 'sgn': lambda: mpc.sgn(a),
                     'lsb': lambda: mpc.lsb(a), 'iszero': lambda: mpc.is_zero(a),
                     'not': lambda: ~a}[op]()
            elif k == 'bin':
                a, b = vals[nd[2]], vals[nd[3]]
                op = nd[1]
                v = {'add': lambda: a + b, 'sub': lambda: a - b, 'mul': lambda: a * b,
                     'lt': lambda: a < b, 'le': lambda: a <= b, 'eq': lambda: a == b,
                     'ge': lambda: a >= b, 'gt': lambda: a > b, 'ne': lambda: a != b,
                     'min': lambda: mpc.min(a, b), 'max': lambda: mpc.max(a, b),
                     'and': lambda: a & b, 'or': lambda: a | b, 'xor': lambda: a ^ b,
                     'gcd': lambda: mpc.gcd(a, b), 'lcm': lambda: mpc.lcm(a, b),
                     'inverse': lambda: mpc.inverse(a, b)}[op]()
            elif k == 'binp':
                a, c = vals[nd[2]], nd[3]
                op = nd[1]
                v = {'add': lambda: a + c, 'sub': lambda: a - c, 'mul': lambda: a * c,
                     'floordiv': lambda: a // c, 'mod': lambda: a % c, 'rshift': lambda: a >> c,
                     'pow': lambda: a ** c,
                     'lt': lambda: a < c, 'le': lambda: a <= c, 'eq': lambda: a == c,
                     'ge': lambda: a >= c, 'gt': lambda: a > c, 'ne': lambda: a != c}[op]()
            elif k == 'rbinp':
                c, a = nd[2], vals[nd[3]]
                op = nd[1]
                v = {'add': lambda: c + a, 'sub': lambda: c - a, 'mul': lambda: c * a,
                     'lt': lambda: c < a, 'eq': lambda: c == a, 'ge': lambda: c >= a}[op]()
            elif k == 'ifelse':
                v = mpc.if_else(vals[nd[1]], vals[nd[2]], vals[nd[3]])
            elif k == 'red':
                xs = [vals[i] for i in nd[2]]
                op = nd[1]
                if op in ('sum', 'prod', 'all', 'any') and not xs:
                    v = {'sum': mpc.sum, 'prod': mpc.prod, 'all': mpc.all, 'any': mpc.any}[op](xs)
                else:
                    v = {'sum': mpc.sum, 'prod': mpc.prod, 'all': mpc.all, 'any': mpc.any,
                         'min': mpc.min, 'max': mpc.max}[op](xs)
            elif k == 'inprod':
                v = mpc.in_prod([vals[i] for i in nd[1]], [vals[i] for i in nd[2]])
            elif k == 'coro':
                v = helper(vals[nd[1]], vals[nd[2]])
            elif k == 'pub':
                if nd[1] == 'is_zero_public':
                    v = await mpc.is_zero_public(vals[nd[2]])
                else:
                    v = await mpc.eq_public(vals[nd[2]], vals[nd[3]])
                v = bool(v)
            elif k == 'await':
                a = vals[nd[2]]
                if nd[1] == 'output':
                    await mpc.output(a)
                elif nd[1] == 'gather':
                    await mpc.gather(a)
                elif nd[1] == 'peek':
                    mpc.peek(a)   # opens a for the log: every party takes part whether or not it logs
                else:
                    await asyncio.sleep(0)
                v = None
            elif k == 'barrier':
                await mpc.barrier()
                v = None
            elif k == 'boom':
                failing(vals[nd[1]])   # a user coroutine without return value that raises after an await
                v = None
            elif k == 'multi':
                v = _secure_multi(mpc, nd, vals)
            elif k == 'rnd':
                if nd[1] == 'bit':
                    v = mpc.random_bit(secint, bool(nd[2]))
                elif nd[1] == 'bits':
                    v = list(mpc.random_bits(secint, nd[2], bool(nd[3])))
                else:
                    v = mpc._random(secint, nd[2])
            else:
                raise ValueError(k)
            vals.append(v)
            if on_value is not None:
                on_value(pid, len(vals) - 1, v)
            if out_mode == 'eager':
                # open every value as soon as it exists; completions are reported through on_output
                f = _open(mpc, v, receivers)
                eager.append(f)
                if on_output is not None:
                    _watch(f, pid, [len(vals) - 1], on_output)

        # open everything: start all outputs, then await them
        futs = []
        for k, (nd, v) in enumerate(zip(nodes, vals)):
            futs.append(eager[k] if out_mode == 'eager' else _open(mpc, v, receivers))
        if out_mode == 'after_shutdown':
            # outputs are started but not awaited: shutdown itself has to wait for them
            await mpc.shutdown()
        outs = []
        for f in futs:
            outs.append(await _resolve(f))
        shares = None
        if collect_shares:
            shares = []
            for nd, v in zip(nodes, vals):
                shares.append(await _own_shares(mpc, v))
        return dict(outs=outs, shares=shares, modulus=int(secint.field.modulus))

    return prog


def _secure_multi(mpc, nd, vals):
    op = nd[1]
    g = lambda ix: [vals[i] for i in ix]
    if op == 'if_swap':
        return list(mpc.if_swap(vals[nd[2]], vals[nd[3]], vals[nd[4]]))
    if op == 'min_max':
        return list(mpc.min_max(g(nd[2])))
    if op == 'argmin':
        return list(mpc.argmin(g(nd[2])))
    if op == 'argmax':
        return list(mpc.argmax(g(nd[2])))
    if op == 'sorted':
        return list(mpc.sorted(g(nd[2])))
    if op == 'divmod':
        return list(divmod(vals[nd[2]], nd[3]))
    if op == 'gcdext':
        return list(mpc.gcdext(vals[nd[2]], vals[nd[3]]))
    if op == 'scalar_mul':
        return list(mpc.scalar_mul(vals[nd[2]], g(nd[3])))
    if op == 'schur_prod':
        return list(mpc.schur_prod(g(nd[2]), g(nd[3])))
    if op == 'vector_add':
        return list(mpc.vector_add(g(nd[2]), g(nd[3])))
    if op == 'vector_sub':
        return list(mpc.vector_sub(g(nd[2]), g(nd[3])))
    if op == 'matrix_prod':
        return [list(r) for r in mpc.matrix_prod([g(r) for r in nd[2]], [g(r) for r in nd[3]])]
    if op == 'ifelse_list':
        return list(mpc.if_else(vals[nd[2]], g(nd[3]), g(nd[4])))
    if op == 'ifswap_list':
        x, y = mpc.if_swap(vals[nd[2]], g(nd[3]), g(nd[4]))
        return [list(x), list(y)]
    raise ValueError(op)


def _watch(f, pid, path, on_output):
    """Report the completion of every output future in the nested structure f."""
    if isinstance(f, list):
        for k, x in enumerate(f):
            _watch(x, pid, path + [k], on_output)
    elif f is None or isinstance(f, (bool, int)):
        if f is not None:
            on_output(pid, path, f)
    else:
        def cb(fut):
            if not fut.cancelled() and fut.exception() is None:
                on_output(pid, path, fut.result())
        f.add_done_callback(cb)


async def _own_shares(mpc, v):
    """This party's own share(s) of v via the public mpc.gather (None for public values)."""
    if isinstance(v, list):
        return [await _own_shares(mpc, x) for x in v]
    if hasattr(v, 'share'):
        s = await mpc.gather(v)
        return int(s.value)
    return None


def _open(mpc, v, receivers):
    if v is None or isinstance(v, (bool, int)):
        return v
    if isinstance(v, list):
        return [_open(mpc, x, receivers) for x in v]
    return mpc.output(v, receivers)


async def _resolve(f):
    if f is None or isinstance(f, (bool, int)):
        return f
    if isinstance(f, list):
        return [await _resolve(x) for x in f]
    r = await f
    return r


def compare(nodes, ref_vals, outs):
    """Compare opened values of one party with the reference; returns None or a message."""
    for i, (nd, want, got) in enumerate(zip(nodes, ref_vals, outs)):
        if want is None:
            continue
        if isinstance(want, list) and want and want[0] == 'gcdext':
            _, a, b = want
            try:
                g, s, t = got
            except Exception:
                return f'node {i} {nd}: malformed gcdext result {got!r}'
            if g != math.gcd(a, b) or s * a + t * b != g:
                return f'node {i} {nd}: gcdext({a},{b}) -> {got} violates g=gcd and s*a+t*b=g'
            continue
        if isinstance(want, list) and want and want[0] == 'rnd':
            msg = _check_rnd(want, got)
            if msg:
                return f'node {i} {nd}: {msg}'
            continue
        if isinstance(want, bool):
            if bool(got) != want or not isinstance(got, bool):
                return f'node {i} {nd}: expected {want}, got {got!r}'
            continue
        if got != want or _has_bool(got):
            return f'node {i} {nd}: expected {want}, got {got!r}'
    return None


def _check_rnd(want, got):
    kind = want[1]
    if kind == 'bit':
        ok = got in ((-1, 1) if want[2] else (0, 1))
        return None if ok else f'random bit (signed={want[2]}) opened to {got!r}'
    if kind == 'bits':
        allowed = (-1, 1) if want[3] else (0, 1)
        if not isinstance(got, list) or len(got) != want[2] or any(b not in allowed for b in got):
            return f'random_bits({want[2]}, signed={want[3]}) opened to {got!r}'
        return None
    if want[2] is not None and not (isinstance(got, int) and 0 <= got < want[2]):
        return f'_random(bound={want[2]}) opened to {got!r}'
    return None


def _has_bool(x):
    return False


# --------------------------------------------------------------------------------------------
# party configurations and schedules as generated data

CONFIGS = [(m, t) for m in range(1, 8) for t in range(0, (m + 1) // 2) if 2 * t < m or m == 1]


@st.composite
def config(draw, min_m=1, max_m=7, need_t=False):
    """(m, t, prss): weighted toward m in 3..5, always legal (2t < m)."""
    m = draw(st.sampled_from([x for x in [1, 2, 3, 3, 3, 4, 4, 5, 5, 6, 7] if min_m <= x <= max_m]))
    tmax = (m - 1) // 2
    if need_t and tmax == 0:
        m, tmax = 3, 1
    t = draw(st.sampled_from([tmax, tmax, tmax, 0, max(0, tmax - 1)])) if not need_t else \
        draw(st.sampled_from(sorted({1, tmax})))
    prss = draw(st.booleans())
    return m, t, prss


@st.composite
def cli_threshold(draw, m, t):
    """None (threshold set by options only) or a different command-line threshold that the program overrides."""
    if draw(st.integers(0, 3)):
        return None
    return draw(st.integers(0, (m - 1) // 2))


@st.composite
def schedule(draw, m, rich=True):
    """A schedule as data; empty/rr shrinks toward the canonical schedule."""
    ne = m + m * (m - 1)
    mode = draw(st.sampled_from(['rr', 'fast', 'rand', 'pct', 'serial'] if rich else ['fast', 'rr']))
    s = dict(mode=mode)
    if mode == 'rand':
        s['seed'] = draw(st.integers(0, 2**32))
    if mode == 'pct':
        s['prio'] = draw(st.lists(st.integers(0, ne - 1), max_size=ne))
        s['changes'] = draw(st.lists(st.tuples(st.integers(0, 3000), st.integers(0, ne - 1)).map(list),
                                     max_size=6))
    if mode != 'fast':
        # -1 = message-wise delivery (each message can be delayed on its own)
        s['chunks'] = draw(st.one_of(st.lists(st.sampled_from([0, 0, 1, 2, 5, 11, 12, 13, 40, 1000, -1, -1]), max_size=5),
                                     st.just([-1])))
    return s


def run_int_case(case, collect_shares=False, receivers=None, on_value=None, sim_hook=None,
                 sec_param=30, out_mode='end', on_output=None):
    """Run an integer program case in the simulator; returns (sim, result, ref_vals)."""
    from vlib import sim as simmod
    nodes, l = case['nodes'], case['l']
    ref_vals = reference(nodes, l)
    sim = simmod.Sim(case['m'], case['t'], prss=case['prss'], seed=case.get('seed', 0),
                     schedule=case.get('sched') or {'mode': 'fast'}, sec_param=sec_param,
                     no_barrier=case.get('no_barrier', False), cli_threshold=case.get('cli_t'),
                     no_log=case.get('no_log'))
    try:
        if sim_hook is not None:
            sim_hook(sim)
        prog = make_party_program(nodes, l, receivers=receivers, on_value=on_value,
                                  collect_shares=collect_shares, out_mode=out_mode, on_output=on_output)
        res = sim.run_programs(prog, shutdown=out_mode != 'after_shutdown')
    finally:
        sim.close()
    return sim, res, ref_vals
