"""Shared machinery of C02 / C03: secure fixed-point op records.

A *record* is a JSON tree.  Leaves:

  ['s', raw, sender, integral]   secure input dealt by party `sender` (value raw / 2^f; the public flag
                                 `integral` is passed explicitly and identically at all parties; it is
                                 sanitised to `integral and raw % 2^f == 0`, so every JSON value is valid)
  ['c', n] / ['c', ['f', hex]]   secure constant secfxp(n) / secfxp(float): flag inferred by the constructor
  ['p', n] / ['p', ['f', hex]]   public Python int / float operand (only directly under a binary operation)

Inner nodes are [op, child, ...] (see `_OPS`).  `Interp` evaluates a record on the real runtime of one
party inside the simulator and registers every secure fixed-point object it creates; `RefEval`
evaluates the same record with exact Fractions and produces, for every registered object, the exact
value V, the literal tolerance E of the C02 statement (accumulated by interval propagation over the
tree; leaves have E = 0, so a one-operation record gets exactly the tolerance of its clause) and the
"explained" tolerance X (F6 / F7 classes; X == E outside those classes).  All in units of value
(Fractions); one unit is 2^-f.
"""
import math
from fractions import Fraction as Fr

# ------------------------------------------------------------------ exact sine / cosine
_P = 256
_PI_CACHE = {}


def _atan_inv(n, P):
    """floor-ish(atan(1/n) * 2^P) by the alternating Gregory series (error < a few units)."""
    x = (1 << P) // n
    n2 = n * n
    s = x
    k = 1
    sign = 1
    while x:
        x //= n2
        k += 2
        sign = -sign
        s += sign * (x // k)
    return s


def pi_scaled(P=_P):
    """pi * 2^P (Machin), absolute error < 2^-(P-8) after scaling back."""
    if P not in _PI_CACHE:
        g = 32
        v = 16 * _atan_inv(5, P + g) - 4 * _atan_inv(239, P + g)
        _PI_CACHE[P] = v >> g
    return _PI_CACHE[P]


def sincos_exact(a):
    """(sin a, cos a) for a Fraction a, as Fractions with absolute error < 2^-150 for |a| < 2^64."""
    P = _P
    two_pi = 2 * pi_scaled(P)
    A = (a.numerator << P) // a.denominator
    k = (2 * A + two_pi) // (2 * two_pi)  # nearest multiple of 2 pi
    r = A - k * two_pi                    # |r| <= pi (scaled by 2^P)
    r2 = (r * r) >> P
    # sin
    term = r
    s = r
    i = 1
    while term:
        term = -((term * r2) >> P) // ((2 * i) * (2 * i + 1))
        s += term
        i += 1
    term = 1 << P
    c = term
    i = 1
    while term:
        term = -((term * r2) >> P) // ((2 * i - 1) * (2 * i))
        c += term
        i += 1
    return Fr(s, 1 << P), Fr(c, 1 << P)


# ------------------------------------------------------------------ helpers
class Invalid(Exception):
    """The record does not satisfy the preconditions (out of range, malformed): skipped, never a failure."""


def pub_value(v):
    """Python value of a public/constant payload: int or ['f', hex]."""
    if isinstance(v, bool):
        raise Invalid('bool payload')
    if isinstance(v, int):
        return v
    if isinstance(v, list) and len(v) == 2 and v[0] == 'f' and isinstance(v[1], str):
        x = float.fromhex(v[1])
        if math.isnan(x) or math.isinf(x):
            raise Invalid('non-finite float')
        return x
    raise Invalid(f'bad public payload {v!r}')


def fl(x):
    """Encode a float for a record."""
    return ['f', float(x).hex()]


class R:
    """Reference for one secure object: exact value V, literal tolerance E, explained tolerance X,
    known-finding classes kn (set) entered on the way, amb (comparison whose outcome is not determined)."""
    __slots__ = ('V', 'E', 'X', 'kn', 'amb', 'trunc_of')

    def __init__(self, V, E=Fr(0), X=None, kn=(), amb=False):
        self.V = Fr(V)
        self.E = Fr(E)
        self.X = self.E if X is None else Fr(X)
        self.kn = frozenset(kn)
        self.amb = amb
        self.trunc_of = None

    def hi(self):
        return abs(self.V) + self.X


CMP = {'lt': lambda a, b: a < b, 'le': lambda a, b: a <= b, 'gt': lambda a, b: a > b,
       'ge': lambda a, b: a >= b, 'eq': lambda a, b: a == b, 'ne': lambda a, b: a != b}

# list operations whose result flags are copied from element 0 of the operands (candidate finding F3)
F3_OPS = ('vadd', 'vsub', 'smul', 'schur', 'schur_self', 'ifelse_l', 'ifswap_l', 'matprod', 'inl',
          'sl_del', 'sl_pop')


def flatten(s):
    """Flatten a structure (scalar / list / list of lists) into a list."""
    if isinstance(s, list):
        out = []
        for e in s:
            out.extend(flatten(e))
        return out
    return [s]


# ------------------------------------------------------------------ exact reference
class RefEval:

    def __init__(self, l, f):
        self.l, self.f = l, f
        self.u = Fr(1, 1 << f)
        self.lim = Fr(1 << (l - 1), 1 << f)
        self.reg = []       # (path, structure of R) in registration order (same order as Interp)
        self.feat = set()   # feature labels
        self.ntrunc = 0     # probabilistic truncations of non-multiples of 2^f (for the NT rule)

    # -- range check of a computed value
    def chk(self, r):
        if not (-self.lim <= r.V - r.X and r.V + r.X < self.lim):
            raise Invalid('result out of range')
        return r

    def whole(self, r):
        return r.E == 0 and r.V.denominator == 1

    def leaf(self, node):
        k = node[0]
        if k == 's':
            raw = node[1]
            if not isinstance(raw, int) or isinstance(raw, bool):
                raise Invalid('raw')
            if not -(1 << (self.l - 1)) <= raw < (1 << (self.l - 1)):
                raise Invalid('input out of range')
            return R(Fr(raw, 1 << self.f))
        v = pub_value(node[1])
        if isinstance(v, float):
            if k == 'c':
                raw = round(Fr(v) * (1 << self.f))
                if not -(1 << (self.l - 1)) < raw < (1 << (self.l - 1)) - 1:
                    raise Invalid('constant out of range')
                if Fr(raw, 1 << self.f) == Fr(v):
                    return R(Fr(v))
                # a float that is not a multiple of 2^-f: the constructor yields a nearest representable value
                # (whichever way ties go): exact value with half a unit of tolerance
                return R(Fr(v), self.u / 2)
            return R(Fr(v))
        if k == 'c' and not -(1 << (self.l - 1)) <= (v << self.f) < (1 << (self.l - 1)):
            raise Invalid('constant out of range')
        return R(v)

    def representable(self, x):
        return (Fr(x) / self.u).denominator == 1

    def ev(self, node, path=()):
        if not isinstance(node, list) or not node or not isinstance(node[0], str):
            raise Invalid(f'bad node {node!r}')
        op = node[0]
        if op in ('s', 'c'):
            r = self.leaf(node)
            self.reg.append((path, r))
            return r
        if op == 'p':
            raise Invalid('public operand in a secure position')
        h = getattr(self, 'r_' + op, None)
        if h is None:
            raise Invalid(f'unknown op {op}')
        self.feat.add(op)
        res = h(node, path)
        for r in flatten(res):
            self.chk(r)
        self.reg.append((path, res))
        return res

    def operand(self, node, path, i):
        """Child i of node: secure sub-tree, or public value -> (R, is_public, python_value)."""
        ch = node[i]
        if isinstance(ch, list) and ch and ch[0] == 'p':
            v = pub_value(ch[1])
            return R(Fr(v)), True, v
        return self.ev(ch, path + (i,)), False, None

    def scal(self, r):
        if isinstance(r, list):
            raise Invalid('scalar expected')
        if r.amb:
            raise Invalid('ambiguous comparison used as operand')
        return r

    def lst(self, r, n=None):
        if not isinstance(r, list) or not r or any(isinstance(e, list) for e in r):
            raise Invalid('nonempty list expected')
        if n is not None and len(r) != n:
            raise Invalid('length mismatch')
        for e in r:
            self.scal(e)
        return r

    def kn(self, *rs):
        s = frozenset()
        for r in rs:
            s |= r.kn
        return s

    # -- exact operations
    def _addsub(self, node, path, sign):
        a, pa, va = self.operand(node, path, 1)
        b, pb, vb = self.operand(node, path, 2)
        if pa and pb:
            raise Invalid('two public operands')
        for p_, r_, v_ in ((pa, a, va), (pb, b, vb)):
            if p_:
                self.feat.add('pub-float' if isinstance(v_, float) else 'pub-int')
                if not self.representable(r_.V):
                    raise Invalid('public float operand of +/-/comparison not representable')
                self.chk(r_)
            else:
                self.scal(r_)
        return a, b

    def r_add(self, node, path):
        a, b = self._addsub(node, path, 1)
        return R(a.V + b.V, a.E + b.E, a.X + b.X, self.kn(a, b))

    def r_sub(self, node, path):
        a, b = self._addsub(node, path, -1)
        return R(a.V - b.V, a.E + b.E, a.X + b.X, self.kn(a, b))

    def r_neg(self, node, path):
        a = self.scal(self.ev(node[1], path + (1,)))
        return R(-a.V, a.E, a.X, a.kn)

    def r_pos(self, node, path):
        a = self.scal(self.ev(node[1], path + (1,)))
        return R(a.V, a.E, a.X, a.kn)

    def r_lshift(self, node, path):
        a = self.scal(self.ev(node[1], path + (1,)))
        n = node[2]
        if not isinstance(n, int) or isinstance(n, bool) or not 0 <= n <= self.l:
            raise Invalid('shift')
        return R(a.V * (1 << n), a.E * (1 << n), a.X * (1 << n), a.kn)

    def r_conv(self, node, path):
        a = self.scal(self.ev(node[1], path + (1,)))
        l2, f2 = node[2], node[3]
        if not (isinstance(l2, int) and isinstance(f2, int) and f2 >= self.f and l2 - f2 >= self.l - self.f
                and l2 >= 2 * f2 and l2 <= 160):
            raise Invalid('conversion target must hold every value of the source type exactly')
        return R(a.V, a.E, a.X, a.kn)

    def r_conv_l(self, node, path):
        x = self.lst(self.ev(node[1], path + (1,)))
        l2, f2 = node[2], node[3]
        if not (isinstance(l2, int) and isinstance(f2, int) and f2 >= self.f and l2 - f2 >= self.l - self.f
                and l2 >= 2 * f2 and l2 <= 160):
            raise Invalid('conversion target must hold every value of the source type exactly')
        return [R(a.V, a.E, a.X, a.kn) for a in x]

    def r_cmp(self, node, path):
        rel = node[1]
        if rel not in CMP:
            raise Invalid('relation')
        a, b = self._cmp_operands(node, path)
        d = R(a.V - b.V, a.E + b.E, a.X + b.X)
        self.chk(d)  # the difference is formed in l bits
        self.feat.add('cmp-' + rel)
        amb = d.X > 0 and abs(d.V) <= d.X
        return R(1 if CMP[rel](a.V, b.V) else 0, 0, 0, self.kn(a, b), amb=amb)

    def _cmp_operands(self, node, path):
        a, pa, va = self.operand(node, path, 2)
        b, pb, vb = self.operand(node, path, 3)
        if pa:
            raise Invalid('left operand of a comparison must be secure')
        self.scal(a)
        if pb:
            self.feat.add('pub-float' if isinstance(vb, float) else 'pub-int')
            if not self.representable(b.V):
                raise Invalid('public float not representable')
            self.chk(b)
        else:
            self.scal(b)
        return a, b

    # -- candidate finding F3a: scalar_mul / schur_prod / matrix_prod / prod (and seclist updates built on
    # scalar_mul) truncate raw field elements with l = bit_length instead of bit_length + f, so the mask does not
    # cover raw values below -2^(l-1): such a truncation fails with probability about |raw| / 2^(k+l)
    def f3a(self, v_pre_low):
        """Class predicate: exact pre-truncation value (lower end of its interval) below -2^(l-1-2f)."""
        return v_pre_low < -Fr(1 << (self.l - 1), 1 << (2 * self.f))

    def mul_L(self, a, b):
        """Product inside a list operation (scalar_mul, schur_prod): as mul_R plus the F3a class mark."""
        r = self.mul_R(a, b)
        low = a.V * b.V - (abs(a.V) * b.X + abs(b.V) * a.X + a.X * b.X)
        if self.f3a(low):
            r = R(r.V, r.E, r.X, r.kn | {'F3a'})
        return r

    # -- multiplication
    def mul_R(self, a, b):
        """Secure x secure product of references: one unit on top of the propagated operand errors."""
        V = a.V * b.V
        E = abs(a.V) * b.E + abs(b.V) * a.E + a.E * b.E + self.u
        X = abs(a.V) * b.X + abs(b.V) * a.X + a.X * b.X + self.u
        if (V / self.u).denominator != 1 or a.E or b.E:
            self.ntrunc += 1
        return R(V, E, X, self.kn(a, b))

    def r_mul(self, node, path):
        a, pa, va = self.operand(node, path, 1)
        b, pb, vb = self.operand(node, path, 2)
        if pa and pb:
            raise Invalid('two public operands')
        if pa:
            a, b, va, vb, pa, pb = b, a, vb, va, pb, pa
        self.scal(a)
        if not pb:
            self.scal(b)
            self.feat.add('mul-ss')
            return self.mul_R(a, b)
        if isinstance(vb, int):
            self.feat.add('mul-int')
            n = abs(vb)
            return R(a.V * vb, n * a.E + self.u, n * a.X + self.u, a.kn)
        self.feat.add('mul-float')
        c = abs(Fr(vb))
        braw = round(Fr(vb) * (1 << self.f))
        z = (braw & -braw).bit_length() - 1 if braw else 0
        self.feat.add('float-z=' + ('0' if z <= 0 else 'f+' if z >= self.f else 'mid'))
        if not self.whole(a) and z < self.f:
            self.ntrunc += 1
        return R(a.V * Fr(vb), c * a.E + 2 * (1 + abs(a.V) + a.E) * self.u,
                 c * a.X + 2 * (1 + abs(a.V) + a.X) * self.u, a.kn)

    def r_sq(self, node, path):
        a = self.scal(self.ev(node[1], path + (1,)))
        return self.mul_R(a, a)

    # -- division
    def rec_ok(self, b):
        if self.l not in (2 * self.f, 2 * self.f + 1):
            raise Invalid('division needs f = l//2 (SecFxp docstring)')
        lo = abs(b.V) - b.X
        if lo < self.u:
            raise Invalid('divisor smaller than 2^-f')
        if 1 / lo >= self.lim:
            self.feat.add('div-1/y-out-of-range')  # only the quotient itself has to be in range
        return lo

    def r_div(self, node, path):
        a, pa, va = self.operand(node, path, 1)
        b = self.scal(self.ev(node[2], path + (2,)))
        if not pa:
            self.scal(a)
        else:
            self.feat.add('div-pubnum-' + ('float' if isinstance(va, float) else 'int'))
            if not self.representable(a.V):
                raise Invalid('public numerator not representable')
        lo = self.rec_ok(b)
        V = a.V / b.V
        prop_E = (abs(a.V) * b.E + abs(b.V) * a.E) / (abs(b.V) * (abs(b.V) - b.E)) if (a.E or b.E) else Fr(0)
        prop_X = (abs(a.V) * b.X + abs(b.V) * a.X) / (abs(b.V) * lo) if (a.X or b.X) else Fr(0)
        E = prop_E + 16 * (1 + abs(a.V) + a.E) * self.u
        X = prop_X + 16 * (1 + abs(a.V) + a.X) * max(Fr(1), 1 / lo) * self.u
        kn = self.kn(a, b)
        if lo < 1:
            kn = kn | {'F6'}
            self.feat.add('div-y<1')
        else:
            self.feat.add('div-y>=1')
        self.ntrunc += 1
        return R(V, E, X, kn)

    def r_divp(self, node, path):
        a = self.scal(self.ev(node[1], path + (1,)))
        if not (isinstance(node[2], list) and node[2] and node[2][0] == 'p'):
            raise Invalid('divp needs a public divisor')
        c = pub_value(node[2][1])
        if c == 0:
            raise Invalid('division by zero')
        self.feat.add('divp-' + ('float' if isinstance(c, float) else 'int'))
        q = 1 / c                      # what Runtime.div computes (float division)
        cf = Fr(c)
        # the reference's allowance for the float evaluation of 1/c: half an ulp of q, times |x|
        ulp = Fr(math.ulp(q)) if math.isfinite(q) else None
        if ulp is None:
            raise Invalid('1/c overflows')
        fe = (abs(a.V) + a.X) * ulp
        V = a.V / cf
        E = a.E / abs(cf) + 16 * (1 + abs(a.V) + a.E) * self.u + fe
        X = a.X / abs(cf) + 16 * (1 + abs(a.V) + a.X) * self.u + fe
        self.ntrunc += 1
        return R(V, E, X, a.kn)

    # -- sine / cosine
    def _sc(self, node, path, which):
        a = self.scal(self.ev(node[1], path + (1,)))
        s, c = sincos_exact(a.V)
        eps = Fr(1, 1 << 140)
        hi = abs(a.V) + a.X
        kn = a.kn
        if hi > 32:
            kn = kn | {'F7'}
            self.feat.add('sincos-|a|>32')
        else:
            self.feat.add('sincos-|a|<=32')
        self.ntrunc += 1
        out = []
        for v in ((s,), (c,), (s, c))[which]:
            out.append(R(v, a.E + 4 * self.u + eps, a.X + (4 + hi / 8) * self.u + eps if hi > 32
                         else a.X + 4 * self.u + eps, kn))
        return out

    def r_sin(self, node, path):
        return self._sc(node, path, 0)[0]

    def r_cos(self, node, path):
        return self._sc(node, path, 1)[0]

    def r_sincos(self, node, path):
        return self._sc(node, path, 2)

    # -- truncation (of an exact operand): floor or ceiling of raw / 2^k
    def r_trunc(self, node, path):
        a = self.scal(self.ev(node[1], path + (1,)))
        k = node[2]
        if not isinstance(k, int) or isinstance(k, bool) or not 1 <= k <= self.f:
            raise Invalid('trunc amount (at most f bits: the field has room for l+f bits only)')
        if a.E:
            raise Invalid('trunc of an inexact operand')
        raw = a.V / self.u
        if raw % (1 << k):
            self.ntrunc += 1
        r = R(a.V / (1 << k), (1 - Fr(1, 1 << k)) * self.u, None, a.kn)
        return r

    def r_truncl(self, node, path):
        xs = self.lst(self.ev(node[1], path + (1,)))
        k = node[2]
        if not isinstance(k, int) or isinstance(k, bool) or not 1 <= k <= self.f:
            raise Invalid('trunc amount (at most f bits: the field has room for l+f bits only)')
        out = []
        for a in xs:
            if a.E:
                raise Invalid('trunc of an inexact operand')
            if (a.V / self.u) % (1 << k):
                self.ntrunc += 1
            out.append(R(a.V / (1 << k), (1 - Fr(1, 1 << k)) * self.u, None, a.kn))
        return out

    # -- powers
    def r_pow(self, node, path):
        a = self.scal(self.ev(node[1], path + (1,)))
        n = node[2]
        if not isinstance(n, int) or isinstance(n, bool) or not 0 <= n <= 16:
            raise Invalid('exponent')
        self.feat.add(f'pow-{min(n, 5)}{"+" if n > 5 else ""}')
        if n == 0:
            return R(1)
        hi = abs(a.V) + a.X
        if max(hi, Fr(1)) ** n + n * (1 + hi) ** (n - 1) * self.u >= self.lim:
            raise Invalid('power out of range')
        E = n * (abs(a.V) + a.E) ** (n - 1) * a.E + n * (1 + abs(a.V) + a.E) ** (n - 1) * self.u
        X = n * hi ** (n - 1) * a.X + n * (1 + hi) ** (n - 1) * self.u
        if n >= 2 and not self.whole(a):
            self.ntrunc += 1
        return R(a.V ** n, E, X, a.kn)

    # -- comparison-derived scalar operations (comparison exact + products with a secure whole number)
    def r_abs(self, node, path):
        a = self.scal(self.ev(node[1], path + (1,)))
        return R(abs(a.V), a.E + self.u, a.X + self.u, a.kn)

    def r_sgn(self, node, path):
        a = self.scal(self.ev(node[1], path + (1,)))
        amb = a.X > 0 and abs(a.V) <= a.X
        return R((a.V > 0) - (a.V < 0), 0, 0, a.kn, amb=amb)

    def _sel2(self, a, b, pick_a):
        d = R(a.V - b.V, a.E + b.E, a.X + b.X)
        self.chk(d)
        r = a if pick_a else b
        return R(r.V, max(a.E, b.E) + self.u, max(a.X, b.X) + self.u, self.kn(a, b))

    def r_min(self, node, path):
        a = self.scal(self.ev(node[1], path + (1,)))
        b = self.scal(self.ev(node[2], path + (2,)))
        return self._sel2(a, b, a.V <= b.V)

    def r_max(self, node, path):
        a = self.scal(self.ev(node[1], path + (1,)))
        b = self.scal(self.ev(node[2], path + (2,)))
        return self._sel2(a, b, a.V >= b.V)

    def cond(self, node, path, i):
        c = self.scal(self.ev(node[i], path + (i,)))
        if c.E or c.V not in (0, 1):
            raise Invalid('condition must be an exact bit')
        return c

    def r_ifelse(self, node, path):
        c = self.cond(node, path, 1)
        a = self.scal(self.ev(node[2], path + (2,)))
        b = self.scal(self.ev(node[3], path + (3,)))
        d = R(a.V - b.V, a.E + b.E, a.X + b.X)
        self.chk(d)
        r = a if c.V == 1 else b
        return R(r.V, a.E + b.E + self.u, a.X + b.X + self.u, self.kn(a, b, c))

    # -- lists
    def r_list(self, node, path):
        if len(node) < 2:
            raise Invalid('empty list')
        return [self.scal(self.ev(ch, path + (i,))) for i, ch in enumerate(node) if i >= 1]

    def r_inl(self, node, path):
        items, sender = node[1], node[2]
        if not items:
            raise Invalid('empty list')
        out = []
        for it in items:
            raw = it[0]
            if not isinstance(raw, int) or not -(1 << (self.l - 1)) <= raw < (1 << (self.l - 1)):
                raise Invalid('input out of range')
            out.append(R(Fr(raw, 1 << self.f)))
        return out

    def r_item(self, node, path):
        xs = self.lst(self.ev(node[1], path + (1,)))
        i = node[2]
        if not isinstance(i, int) or not 0 <= i < len(xs):
            raise Invalid('index')
        return xs[i]

    def r_vadd(self, node, path):
        x = self.lst(self.ev(node[1], path + (1,)))
        y = self.lst(self.ev(node[2], path + (2,)), len(x))
        return [R(a.V + b.V, a.E + b.E, a.X + b.X, self.kn(a, b)) for a, b in zip(x, y)]

    def r_vsub(self, node, path):
        x = self.lst(self.ev(node[1], path + (1,)))
        y = self.lst(self.ev(node[2], path + (2,)), len(x))
        return [R(a.V - b.V, a.E + b.E, a.X + b.X, self.kn(a, b)) for a, b in zip(x, y)]

    def r_smul(self, node, path):
        a = self.scal(self.ev(node[1], path + (1,)))
        x = self.lst(self.ev(node[2], path + (2,)))
        return [self.mul_L(a, b) for b in x]

    def r_schur(self, node, path):
        x = self.lst(self.ev(node[1], path + (1,)))
        y = self.lst(self.ev(node[2], path + (2,)), len(x))
        return [self.mul_L(a, b) for a, b in zip(x, y)]

    def r_schur_self(self, node, path):
        x = self.lst(self.ev(node[1], path + (1,)))
        return [self.mul_L(a, a) for a in x]

    def _dot(self, x, y):
        """Dot product: the sum of n products, each within one unit (n units in total)."""
        n = len(x)
        V = sum(a.V * b.V for a, b in zip(x, y))
        E = sum(abs(a.V) * b.E + abs(b.V) * a.E + a.E * b.E for a, b in zip(x, y)) + n * self.u
        X = sum(abs(a.V) * b.X + abs(b.V) * a.X + a.X * b.X for a, b in zip(x, y)) + n * self.u
        # the sum of the absolute products must fit as well (raw sum formed before the single truncation)
        if sum(abs(a.V * b.V) for a, b in zip(x, y)) + X >= self.lim:
            raise Invalid('dot product out of range')
        if not (all(self.whole(a) for a in x) or all(self.whole(b) for b in y)):
            self.ntrunc += 1
        kn = frozenset()
        for r in list(x) + list(y):
            kn |= r.kn
        return R(V, E, X, kn)

    def r_inprod(self, node, path):
        x = self.lst(self.ev(node[1], path + (1,)))
        y = self.lst(self.ev(node[2], path + (2,)), len(x))
        return self._dot(x, y)

    def r_inprod_self(self, node, path):
        x = self.lst(self.ev(node[1], path + (1,)))
        return self._dot(x, x)

    def r_sum(self, node, path):
        x = self.lst(self.ev(node[1], path + (1,)))
        kn = frozenset()
        for r in x:
            kn |= r.kn
        # partial sums are formed in the field: only the total has to be in range
        return R(sum(a.V for a in x), sum(a.E for a in x), sum(a.X for a in x), kn)

    def r_prod(self, node, path):
        x = self.lst(self.ev(node[1], path + (1,)))
        k = len(x)
        V = Fr(1)
        for a in x:
            V *= a.V
        # any association order: every partial product of a sub-multiset must be in range, and the
        # error of a chain of k-1 roundings is at most (k-1) * prod(1+|a_i|+X_i) units (plus operand errors)
        big = Fr(1)
        for a in x:
            big *= max(Fr(1), abs(a.V) + a.X)
        grow = Fr(1)
        for a in x:
            grow *= 1 + abs(a.V) + a.X
        propE = sum(a.E for a in x) * grow
        propX = sum(a.X for a in x) * grow
        E = propE + (k - 1) * grow * self.u
        X = propX + (k - 1) * grow * self.u
        if big + X >= self.lim:
            raise Invalid('product out of range')
        if sum(0 if self.whole(a) else 1 for a in x) >= 2:
            self.ntrunc += 1
        kn = frozenset()
        for r in x:
            kn |= r.kn
        if any(a.V - a.X < 0 for a in x) and self.f3a(-big):
            kn = kn | {'F3a'}  # some partial product may be a large negative value
        return R(V, E, X, kn)

    def r_ifelse_l(self, node, path):
        c = self.cond(node, path, 1)
        x = self.lst(self.ev(node[2], path + (2,)))
        y = self.lst(self.ev(node[3], path + (3,)), len(x))
        out = []
        for a, b in zip(x, y):
            self.chk(R(a.V - b.V, a.E + b.E, a.X + b.X))
            r = a if c.V == 1 else b
            out.append(R(r.V, a.E + b.E, a.X + b.X, self.kn(a, b, c)))
        return out

    def r_ifswap_l(self, node, path):
        c = self.cond(node, path, 1)
        x = self.lst(self.ev(node[2], path + (2,)))
        y = self.lst(self.ev(node[3], path + (3,)), len(x))
        o1, o2 = [], []
        for a, b in zip(x, y):
            self.chk(R(a.V - b.V, a.E + b.E, a.X + b.X))
            p, q = (b, a) if c.V == 1 else (a, b)
            o1.append(R(p.V, a.E + b.E, a.X + b.X, self.kn(a, b, c)))
            o2.append(R(q.V, a.E + b.E, a.X + b.X, self.kn(a, b, c)))
        return [o1, o2]

    def mat(self, r):
        if not isinstance(r, list) or not r or not all(isinstance(row, list) and row for row in r):
            raise Invalid('matrix expected')
        n = len(r[0])
        for row in r:
            self.lst(row, n)
        return r

    def r_matrix(self, node, path):
        if len(node) < 2:
            raise Invalid('empty matrix')
        return self.mat([self.lst(self.ev(ch, path + (i,))) for i, ch in enumerate(node) if i >= 1])

    def r_matprod(self, node, path):
        A = self.mat(self.ev(node[1], path + (1,)))
        B = self.mat(self.ev(node[2], path + (2,)))
        tr = bool(node[3])
        if tr:
            B = [list(c) for c in zip(*B)]  # B^T: rows of B become columns
        if len(A[0]) != len(B):
            raise Invalid('shape mismatch')
        cols = [list(c) for c in zip(*B)]
        out = []
        for row in A:
            o = []
            for col in cols:
                r = self._dot(row, col)
                if self.f3a(r.V - (r.X - len(row) * self.u)):
                    r = R(r.V, r.E, r.X, r.kn | {'F3a'})
                o.append(r)
            out.append(o)
        return out

    def r_row(self, node, path):
        M = self.ev(node[1], path + (1,))
        if not isinstance(M, list) or not M or not isinstance(M[0], list):
            raise Invalid('matrix expected')
        i = node[2]
        if not isinstance(i, int) or not 0 <= i < len(M):
            raise Invalid('row index')
        return M[i]

    # -- list selection by comparison
    def _exact_list(self, node, path):
        x = self.lst(self.ev(node[1], path + (1,)))
        for a in x:
            if a.E:
                raise Invalid('ordering of inexact values')
        for a in x:
            for b in x:
                self.chk(R(a.V - b.V))
        return x

    def r_minl(self, node, path):
        x = self._exact_list(node, path)
        k = len(x)
        return R(min(a.V for a in x), (k - 1) * self.u, None, self.kn(*x))

    def r_maxl(self, node, path):
        x = self._exact_list(node, path)
        k = len(x)
        return R(max(a.V for a in x), (k - 1) * self.u, None, self.kn(*x))

    def r_sorted(self, node, path):
        x = self._exact_list(node, path)
        k = len(x)
        return [R(v, k * k * self.u, None, self.kn(*x)) for v in sorted(a.V for a in x)]

    # -- secure lists with secret index
    def _index(self, node, path, i, n):
        ix = self.scal(self.ev(node[i], path + (i,)))
        if ix.E or ix.V.denominator != 1 or not 0 <= ix.V < n:
            raise Invalid('index must be an exact whole number in range')
        return int(ix.V)

    def r_sl_get(self, node, path):
        x = self.lst(self.ev(node[1], path + (1,)))
        i = self._index(node, path, 2, len(x))
        a = x[i]
        n = len(x)
        return R(a.V, a.E + n * self.u, a.X + n * self.u, self.kn(*x))

    def _sl_bound(self, x, extra=()):
        n = len(x) + 2
        mE = max([a.E for a in x] + [a.E for a in extra]) if x else Fr(0)
        mX = max([a.X for a in x] + [a.X for a in extra]) if x else Fr(0)
        # every element passes through at most a dot product (n units), a scalar product and a Schur
        # product (1 unit each) of the statement's clauses
        return 3 * mE + (2 * n + 4) * self.u, 3 * mX + (2 * n + 4) * self.u

    def r_sl_set(self, node, path):
        x = self.lst(self.ev(node[1], path + (1,)))
        i = self._index(node, path, 2, len(x))
        v = self.scal(self.ev(node[3], path + (3,)))
        for a in x:
            self.chk(R(v.V - a.V, v.E + a.E, v.X + a.X))
        E, X = self._sl_bound(x, (v,))
        kn = self.kn(*x, v)
        if any(self.f3a(v.V - a.V - v.X - a.X) for a in x):
            kn = kn | {'F3a'}  # scalar_mul(value - x[i], unit vector)
        out = [R(a.V, E, X, kn) for a in x]
        out[i] = R(v.V, E, X, kn)
        return out

    def r_sl_del(self, node, path):
        x = self.lst(self.ev(node[1], path + (1,)))
        if len(x) < 2:
            raise Invalid('list too short')
        i = self._index(node, path, 2, len(x))
        for a, b in zip(x, x[1:]):
            self.chk(R(b.V - a.V, a.E + b.E, a.X + b.X))
        E, X = self._sl_bound(x)
        return [R(a.V, E, X, self.kn(*x)) for j, a in enumerate(x) if j != i]

    def r_sl_pop(self, node, path):
        x = self.lst(self.ev(node[1], path + (1,)))
        if len(x) < 2:
            raise Invalid('list too short')
        i = self._index(node, path, 2, len(x))
        for a, b in zip(x, x[1:]):
            self.chk(R(b.V - a.V, a.E + b.E, a.X + b.X))
        E, X = self._sl_bound(x)
        rest = [R(a.V, E, X, self.kn(*x)) for j, a in enumerate(x) if j != i]
        return [R(x[i].V, E, X, self.kn(*x))] + rest

    def r_sl_ins(self, node, path):
        x = self.lst(self.ev(node[1], path + (1,)))
        i = self._index(node, path, 2, len(x) + 1)
        v = self.scal(self.ev(node[3], path + (3,)))
        for a in x:
            self.chk(R(v.V - a.V, v.E + a.E, v.X + a.X))
            self.chk(R(2 * a.V, 2 * a.E, 2 * a.X))
        for a, b in zip(x, x[1:]):
            self.chk(R(b.V - a.V, a.E + b.E, a.X + b.X))
        E, X = self._sl_bound(x, (v,))
        E, X = 2 * E, 2 * X
        vals = [a for a in x]
        vals.insert(i, v)
        kn = self.kn(*x, v)
        if any(self.f3a(v.V - a.V - v.X - a.X) for a in list(x) + [R(0)]):
            kn = kn | {'F3a'}  # scalar_mul(value - ([0] + x)[i], unit vector)
        return [R(a.V, E, X, kn) for a in vals]


# ------------------------------------------------------------------ interpreter on the real runtime
class Interp:
    """Evaluates records with the real secure operations at one party (inside the simulator)."""

    def __init__(self, mpc, pid, l, f):
        self.mpc, self.pid, self.l, self.f = mpc, pid, l, f
        self.T = mpc.SecFxp(l, f)
        self.reg = []        # (path, structure of secure objects)
        self.exposed = []    # paths of F3-class list operations whose operands have mixed flags

    def secure(self, node, path):
        T = self.T
        k = node[0]
        if k == 's':
            raw, sender, flag = node[1], node[2] % len(self.mpc.parties), bool(node[3])
            flag = flag and raw % (1 << self.f) == 0
            x = T(T.field(raw) if self.pid == sender else None, integral=flag)
            return self.mpc.input(x, senders=sender)
        v = pub_value(node[1])
        return T(v)

    def ev(self, node, path=()):
        op = node[0]
        if op in ('s', 'c'):
            r = self.secure(node, path)
        else:
            r = getattr(self, 'e_' + op)(node, path)
        self.reg.append((path, r))
        return r

    def operand(self, node, path, i):
        ch = node[i]
        if ch[0] == 'p':
            return pub_value(ch[1])
        return self.ev(ch, path + (i,))

    @staticmethod
    def mixed(lst):
        """Element 0 flagged integral while another element is not: the F3 class predicate."""
        lst = flatten(lst)
        return lst[0].integral is True and any(e.integral is not True for e in lst[1:])

    def expose(self, path, *lists):
        if any(self.mixed(x) for x in lists):
            self.exposed.append(path)

    def e_add(self, node, path):
        return self.operand(node, path, 1) + self.operand(node, path, 2)

    def e_sub(self, node, path):
        return self.operand(node, path, 1) - self.operand(node, path, 2)

    def e_neg(self, node, path):
        return -self.ev(node[1], path + (1,))

    def e_pos(self, node, path):
        return +self.ev(node[1], path + (1,))

    def e_lshift(self, node, path):
        return self.ev(node[1], path + (1,)) << node[2]

    def e_conv(self, node, path):
        a = self.ev(node[1], path + (1,))
        T2 = self.mpc.SecFxp(node[2], node[3])
        return self.mpc.convert(self.mpc.convert(a, T2), self.T)

    def e_conv_l(self, node, path):
        x = self.ev(node[1], path + (1,))
        T2 = self.mpc.SecFxp(node[2], node[3])
        return self.mpc.convert(self.mpc.convert(x, T2), self.T)   # list form of convert, there and back

    def e_cmp(self, node, path):
        a = self.operand(node, path, 2)
        b = self.operand(node, path, 3)
        rel = node[1]
        if rel == 'lt':
            return a < b
        if rel == 'le':
            return a <= b
        if rel == 'gt':
            return a > b
        if rel == 'ge':
            return a >= b
        if rel == 'eq':
            return a == b
        return a != b

    def e_mul(self, node, path):
        return self.operand(node, path, 1) * self.operand(node, path, 2)

    def e_sq(self, node, path):
        a = self.ev(node[1], path + (1,))
        return a * a

    def e_div(self, node, path):
        return self.operand(node, path, 1) / self.operand(node, path, 2)

    def e_divp(self, node, path):
        return self.ev(node[1], path + (1,)) / pub_value(node[2][1])

    def e_sin(self, node, path):
        return self.mpc.sin(self.ev(node[1], path + (1,)))

    def e_cos(self, node, path):
        return self.mpc.cos(self.ev(node[1], path + (1,)))

    def e_sincos(self, node, path):
        return list(self.mpc.sincos(self.ev(node[1], path + (1,))))

    def e_trunc(self, node, path):
        a = self.ev(node[1], path + (1,))
        if node[2] == self.f and len(node) > 3 and node[3]:
            return self.mpc.trunc(a)  # default: f = frac_length
        return self.mpc.trunc(a, f=node[2])

    def e_truncl(self, node, path):
        x = self.ev(node[1], path + (1,))
        return self.mpc.trunc(x, f=node[2])

    def e_pow(self, node, path):
        return self.ev(node[1], path + (1,)) ** node[2]

    def e_abs(self, node, path):
        return abs(self.ev(node[1], path + (1,)))

    def e_sgn(self, node, path):
        return self.mpc.sgn(self.ev(node[1], path + (1,)))

    def e_min(self, node, path):
        return self.mpc.min(self.ev(node[1], path + (1,)), self.ev(node[2], path + (2,)))

    def e_max(self, node, path):
        return self.mpc.max(self.ev(node[1], path + (1,)), self.ev(node[2], path + (2,)))

    def e_ifelse(self, node, path):
        c = self.ev(node[1], path + (1,))
        return self.mpc.if_else(c, self.ev(node[2], path + (2,)), self.ev(node[3], path + (3,)))

    def e_list(self, node, path):
        return [self.ev(ch, path + (i,)) for i, ch in enumerate(node) if i >= 1]

    def e_inl(self, node, path):
        T = self.T
        items, sender = node[1], node[2] % len(self.mpc.parties)
        xs = []
        for raw, flag in items:
            flag = bool(flag) and raw % (1 << self.f) == 0
            xs.append(T(T.field(raw) if self.pid == sender else None, integral=flag))
        self.expose(path, xs)
        return self.mpc.input(xs, senders=sender)

    def e_item(self, node, path):
        return self.ev(node[1], path + (1,))[node[2]]

    def e_vadd(self, node, path):
        x, y = self.ev(node[1], path + (1,)), self.ev(node[2], path + (2,))
        if x[0].integral is True and y[0].integral is True:
            self.expose(path, [x[0]] + x[1:] + y[1:])
        return self.mpc.vector_add(x, y)

    def e_vsub(self, node, path):
        x, y = self.ev(node[1], path + (1,)), self.ev(node[2], path + (2,))
        if x[0].integral is True and y[0].integral is True:
            self.expose(path, [x[0]] + x[1:] + y[1:])
        return self.mpc.vector_sub(x, y)

    def e_smul(self, node, path):
        a, x = self.ev(node[1], path + (1,)), self.ev(node[2], path + (2,))
        if a.integral is True:
            self.expose(path, x)
        return self.mpc.scalar_mul(a, x)

    def e_schur(self, node, path):
        x, y = self.ev(node[1], path + (1,)), self.ev(node[2], path + (2,))
        self.expose(path, x, y)
        return self.mpc.schur_prod(x, y)

    def e_schur_self(self, node, path):
        x = self.ev(node[1], path + (1,))
        self.expose(path, x)
        return self.mpc.schur_prod(x, x)

    def e_inprod(self, node, path):
        return self.mpc.in_prod(self.ev(node[1], path + (1,)), self.ev(node[2], path + (2,)))

    def e_inprod_self(self, node, path):
        x = self.ev(node[1], path + (1,))
        return self.mpc.in_prod(x, x)

    def e_sum(self, node, path):
        return self.mpc.sum(self.ev(node[1], path + (1,)))

    def e_prod(self, node, path):
        return self.mpc.prod(self.ev(node[1], path + (1,)))

    def e_ifelse_l(self, node, path):
        c = self.ev(node[1], path + (1,))
        x, y = self.ev(node[2], path + (2,)), self.ev(node[3], path + (3,))
        if x[0].integral is True and y[0].integral is True:
            self.expose(path, [x[0]] + x[1:] + y[1:])
        return self.mpc.if_else(c, x, y)

    def e_ifswap_l(self, node, path):
        c = self.ev(node[1], path + (1,))
        x, y = self.ev(node[2], path + (2,)), self.ev(node[3], path + (3,))
        if x[0].integral is True and y[0].integral is True:
            self.expose(path, [x[0]] + x[1:] + y[1:])
        r = self.mpc.if_swap(c, x, y)
        return [list(r[0]), list(r[1])]

    def e_matrix(self, node, path):
        return [self.ev(ch, path + (i,)) for i, ch in enumerate(node) if i >= 1]

    def e_matprod(self, node, path):
        A, B = self.ev(node[1], path + (1,)), self.ev(node[2], path + (2,))
        self.expose(path, A, B)
        return [list(r) for r in self.mpc.matrix_prod(A, B, tr=bool(node[3]))]

    def e_row(self, node, path):
        return self.ev(node[1], path + (1,))[node[2]]

    def e_minl(self, node, path):
        return self.mpc.min(self.ev(node[1], path + (1,)))

    def e_maxl(self, node, path):
        return self.mpc.max(self.ev(node[1], path + (1,)))

    def e_sorted(self, node, path):
        return list(self.mpc.sorted(self.ev(node[1], path + (1,))))

    def _seclist(self, x):
        from mpyc.seclists import seclist
        return seclist(x, self.T)

    def e_sl_get(self, node, path):
        x = self.ev(node[1], path + (1,))
        i = self.ev(node[2], path + (2,))
        return self._seclist(x)[i]

    def e_sl_set(self, node, path):
        x = self.ev(node[1], path + (1,))
        i = self.ev(node[2], path + (2,))
        v = self.ev(node[3], path + (3,))
        s = self._seclist(x)
        s[i] = v
        return list(s)

    def _del_exposed(self, path, x):
        # delitem: vector_sub(x[1:], x[:-1]) copies (x[1] and x[0]) to all, then schur_prod / vector_add
        if len(x) >= 3 and x[0].integral is True and x[1].integral is True and \
                any(e.integral is not True for e in x[2:]):
            self.exposed.append(path)

    def e_sl_del(self, node, path):
        x = self.ev(node[1], path + (1,))
        i = self.ev(node[2], path + (2,))
        self._del_exposed(path, x)
        s = self._seclist(x)
        del s[i]
        return list(s)

    def e_sl_pop(self, node, path):
        x = self.ev(node[1], path + (1,))
        i = self.ev(node[2], path + (2,))
        self._del_exposed(path, x)
        s = self._seclist(x)
        v = s.pop(i)
        return [v] + list(s)

    def e_sl_ins(self, node, path):
        x = self.ev(node[1], path + (1,))
        i = self.ev(node[2], path + (2,))
        v = self.ev(node[3], path + (3,))
        s = self._seclist(x)
        s.insert(i, v)
        return list(s)


async def run_records(mpc, pid, l, f, records):
    """Party program: evaluate every record, open everything it created; returns per record
    {'obs': [[path, k, flag, raw], ...], 'exposed': [path, ...]} or {'exc': text}."""
    import traceback
    out = []
    for rec in records:
        it = Interp(mpc, pid, l, f)
        try:
            it.ev(rec)
        except Exception:
            out.append({'exc': traceback.format_exc()[-1500:]})
            continue
        objs, meta = [], []
        T = it.T
        for path, s in it.reg:
            for k, o in enumerate(flatten(s)):
                if isinstance(o, T):
                    objs.append(o)
                    meta.append([list(path), k, o.integral])
                else:
                    meta.append([list(path), k, 'not-secure:' + type(o).__name__])
        raws = await mpc.output(objs, raw=True) if objs else []
        j = 0
        obs = []
        for mt in meta:
            if isinstance(mt[2], str):
                obs.append(mt + [None])
            else:
                obs.append(mt + [int(raws[j])])
                j += 1
        out.append({'obs': obs, 'exposed': [list(p) for p in it.exposed]})
    return out


def reference(l, f, rec):
    """-> RefEval after evaluating rec (raises Invalid)."""
    rv = RefEval(l, f)
    rv.ev(rec)
    return rv


def check_record(l, f, rec, rv, got):
    """Compare one record's observations with the reference.

    Returns a list of findings (kind, path, text, known) where kind is 'flag' (value marked integral is not
    whole) or 'value' (outside the literal tolerance); known is None, 'F3', 'F6' or 'F7' when the failure lies
    inside that finding's class AND (F6/F7) inside its explained tolerance.
    """
    res = []
    exposed = [tuple(p) for p in got['exposed']]

    def f3(path):
        return any(p[:len(path)] == tuple(path) for p in exposed)

    ref_flat = []
    for path, s in rv.reg:
        for k, r in enumerate(flatten(s)):
            ref_flat.append((list(path), k, r))
    obs = got['obs']
    if len(obs) != len(ref_flat):
        return [('shape', [], f'{len(obs)} observed objects, reference has {len(ref_flat)}', None)]
    one = 1 << f
    for (path, k, flag, raw), (rpath, rk, r) in zip(obs, ref_flat):
        if path != rpath or k != rk:
            return [('shape', path, f'object order differs: {path}/{k} vs {rpath}/{rk}', None)]
        if isinstance(flag, str):
            res.append(('type', path, f'result is not a secure fixed-point number ({flag})', None))
            continue
        if flag is True and raw % one:
            res.append(('flag', path, f'value {raw}/2^{f} = {raw / one!r} is marked integral but is not a whole '
                        f'number (node {path}, element {k})', 'F3' if f3(path) else None))
        if r.amb:
            if raw not in ((-one, 0, one) if rec_at(rec, path)[0] == 'sgn' else (0, one)):
                res.append(('value', path, f'comparison result {raw}/2^{f} is not 0 or 1', 'F3' if f3(path) else None))
            continue
        R_ = r.V * one
        err = abs(raw - R_)
        if err <= r.E * one:
            continue
        known = None
        if f3(path):
            known = 'F3'
        elif 'F3a' in r.kn:
            known = 'F3a'  # failed list-operation truncation: garbage value, no explained tolerance
        elif r.kn and err <= r.X * one:
            known = 'F6' if 'F6' in r.kn else 'F7'
        res.append(('value', path, f'node {path} element {k} ({rec_at(rec, path)[0]}): got {raw}/2^{f}, exact '
                    f'{float(R_):.6f}/2^{f}: error {float(err):.4f} units, literal tolerance '
                    f'{float(r.E * one):.4f} units, explained tolerance {float(r.X * one):.4f} units '
                    f'(classes {sorted(r.kn)})', known))
    return res


def rec_at(rec, path):
    n = rec
    for i in path:
        n = n[i]
    return n
