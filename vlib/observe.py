"""Harness-side observation points installed on a Sim by attribute assignment (no repo hooks).

Observer(sim) wraps, for the lifetime of the simulation:
  * MessageExchanger.receive        -> recv_log[(owner, peer)] = [pc, ...]
  * thresha.random_split / np_random_split -> deals = [dict(pid, order, n, t, m, draws, secrets, shares)]
  * asyncoro.Task                   -> tasks[pid] = [(task, step_created, depth)]
  * Runtime.output (optional)       -> opened[pid] = [(pc, values)] for outputs started *inside* protocols
Everything is restored by Observer.close() (call before/after sim.close(); idempotent).
"""

import asyncio

from vlib import sim as simmod


class Observer:

    def __init__(self, sim, deals=True, receives=True, tasks=True, keep_shares=False, sends=False):
        self.sim = sim
        self.send_log = []  # (pid, peer, pc, payload, sim step)
        self.recv_log = {}
        self.deals = []
        self.tasks = {i: [] for i in range(sim.m)}
        self.keep_shares = keep_shares
        self._restore = []
        M = simmod.M
        aco = M['asyncoro']
        th = M['thresha']
        if receives:
            orig_receive = aco.MessageExchanger.receive
            log = self.recv_log

            def receive(px, pc):
                log.setdefault((px.runtime.pid, px.peer_pid), []).append(pc)
                return orig_receive(px, pc)

            aco.MessageExchanger.receive = receive
            self._restore.append((aco.MessageExchanger, 'receive', orig_receive))
        if sends:
            rtc = M['runtime'].Runtime
            orig_send = rtc._send_message
            slog = self.send_log

            def _send_message(rt, peer_pid, data):
                slog.append((rt.pid, peer_pid, rt._program_counter[0], bytes(data), sim.steps))
                return orig_send(rt, peer_pid, data)

            rtc._send_message = _send_message
            self._restore.append((rtc, '_send_message', orig_send))
        if deals:
            for name in ('random_split', 'np_random_split'):
                orig = getattr(th, name)
                self._wrap_split(th, name, orig)
        if tasks:
            orig_task = aco.Task
            rec = self.tasks

            def Task(coro, loop=None, **kw):
                tk = orig_task(coro, loop=loop, **kw)
                pid = sim.current
                rec[pid].append((tk, sim.steps, sim.runtimes[pid]._program_counter[1]))
                return tk

            aco.Task = Task
            self._restore.append((aco, 'Task', orig_task))

    def _wrap_split(self, th, name, orig):
        sim = self.sim
        deals = self.deals
        keep = self.keep_shares

        def split(field, s, t, m):
            before = sim.n_randbelow
            calls_before = len(sim.randbelow_args) if sim.randbelow_args is not None else None
            shares = orig(field, s, t, m)
            try:
                n = len(s)
            except TypeError:
                n = None
            d = dict(pid=sim.current, order=int(field.order), n=n, t=t, m=m, variant=name,
                     draws=sim.n_randbelow - before, send_idx=len(self.send_log), step=sim.steps,
                     pc=sim.runtimes[sim.current]._program_counter[0])
            if calls_before is not None:
                d['draw_args'] = sim.randbelow_args[calls_before:]
            if keep:
                d['secrets'] = list(s) if isinstance(s, (list, tuple)) else s  # snapshot: callers reuse lists
                d['shares'] = shares
            deals.append(d)
            return shares

        setattr(th, name, split)
        self._restore.append((th, name, orig))

    def close(self):
        while self._restore:
            obj, name, orig = self._restore.pop()
            setattr(obj, name, orig)

    def __enter__(self):
        return self

    def __exit__(self, *a):
        self.close()
