"""Independent number-theory oracles for C25 (written from definitions; shares no code with mpyc).

Everything here is either a brute-force search, a validity predicate on a claimed result, or a
computation from a *known factorisation* (Euler criterion + multiplicativity).
"""

import math
from vlib import refmath as R


def sign(v):
    return (v > 0) - (v < 0)


# ---------------------------------------------------------------- gcdext: GMP normalisation
def gcdext_complaint(a, b, res):
    """'' if res = (g, s, t) is the Bezout triple GMP's mpz_gcdext defines for (a, b).

    GMP manual / stub docstring: normally |s| < |b|/(2g) and |t| < |a|/(2g) (this defines s and t
    uniquely); if |a| = |b| then s = 0, t = sgn(b); otherwise s = sgn(a) if b = 0 or |b| = 2g, and
    t = sgn(b) if a = 0 or |a| = 2g.  Any two Bezout pairs differ by a multiple of (b/g, -a/g), and an
    open interval of length |b|/g holds at most one member of a residue class modulo |b|/g, so the
    predicate below admits exactly one (s, t).
    """
    if not (isinstance(res, tuple) and len(res) == 3 and all(type(v) is int for v in res)):
        return f'result {res!r} is not a triple of ints'
    g, s, t = res
    if g != math.gcd(a, b):
        return f'g={g} != gcd={math.gcd(a, b)}'
    if a * s + b * t != g:
        return f'a*s + b*t = {a * s + b * t} != g={g}'
    if abs(a) == abs(b):
        if not (s == 0 and t == sign(b)):
            return f'|a|=|b|: expected s=0, t=sgn(b)={sign(b)}, got s={s}, t={t}'
        return ''
    if b == 0 or abs(b) == 2 * g:
        if s != sign(a):
            return f'b=0 or |b|=2g: expected s=sgn(a)={sign(a)}, got s={s}'
    elif not 2 * g * abs(s) < abs(b):
        return f'|s|={abs(s)} is not < |b|/(2g)'
    if a == 0 or abs(a) == 2 * g:
        if t != sign(b):
            return f'a=0 or |a|=2g: expected t=sgn(b)={sign(b)}, got t={t}'
    elif not 2 * g * abs(t) < abs(a):
        return f'|t|={abs(t)} is not < |a|/(2g)'
    return ''


# ---------------------------------------------------------------- symbols from a known factorisation
def legendre_euler(a, p):
    """Legendre symbol (a|p) for an odd prime p, by Euler's criterion."""
    a %= p
    if a == 0:
        return 0
    r = pow(a, (p - 1) // 2, p)
    if r == 1:
        return 1
    assert r == p - 1, 'p is not prime'
    return -1


def jacobi_factored(a, odd_primes):
    """Jacobi symbol (a|n) for n = product of the listed odd primes (with repetition)."""
    r = 1
    for q in odd_primes:
        r *= legendre_euler(a, q)
    return r


def kronecker_factored(a, sgn, e2, odd_primes):
    """Kronecker symbol (a|n), n = sgn * 2^e2 * product(odd_primes); sgn = 0 means n = 0."""
    if sgn == 0:
        return 1 if abs(a) == 1 else 0
    r = 1
    if sgn < 0 and a < 0:
        r = -r
    if e2:
        if a % 2 == 0:
            return 0
        if a % 8 in (3, 5) and e2 % 2:
            r = -r
    return r * jacobi_factored(a, odd_primes)


# ---------------------------------------------------------------- roots
def iroot_complaint(x, n, res):
    """'' if res = (y, b) is the integer n-th root of x >= 0 (n >= 1) with exactness flag."""
    if not (isinstance(res, tuple) and len(res) == 2):
        return f'result {res!r} is not a pair'
    y, b = res
    if type(y) is not int or type(b) is not bool:
        return f'result types {type(y).__name__}, {type(b).__name__}'
    if y < 0 or not y**n <= x < (y + 1)**n:
        return f'y={y} is not the integer {n}-th root of x'
    if b != (y**n == x):
        return f'exactness flag {b} wrong'
    return ''


# ---------------------------------------------------------------- prime powers
def prime_power_bf(x):
    """(p, d) if x = p^d for a prime p, else None; trial division (small x)."""
    if x <= 1:
        return None
    f = R.factor(x)
    if len(f) != 1:
        return None
    (p, d), = f.items()
    return p, d


# ---------------------------------------------------------------- rational reconstruction
def ratrec_bf(x, y, N, D):
    """All (n, d) with n = x*d (mod y), -N <= n <= N, 0 < d <= D, gcd(n, d) = 1 (brute force over d)."""
    sols = []
    for d in range(1, D + 1):
        r = x * d % y
        for n in (r, r - y):
            if -N <= n <= N and math.gcd(n, d) == 1:
                sols.append((n, d))
    return sols


def ratrec_box(y, N, D):
    """Bounds (N', D') the call ratrec(x, y, N, D) has to search, or None if the call is invalid.

    Both given: (N, D) if N >= 0, D > 0, 2ND < y.  One omitted: the largest bound for the other with
    2ND < y (for N = 0 only (0, 1) can be a solution, so D' = 1 loses nothing).  Both omitted:
    N' = isqrt((y-1)//2), D' = max(1, N') -- "sqrt(y/2) approximately" rounded down, always valid for y >= 1.
    """
    if y < 1:
        return None
    if N is None and D is None:
        r = math.isqrt((y - 1) // 2)
        return r, max(1, r)
    if N is None:
        if D <= 0:
            return None
        N = (y - 1) // (2 * D)
    elif D is None:
        if N < 0:
            return None
        D = (y - 1) // (2 * N) if N else 1
    if N < 0 or D <= 0 or 2 * N * D >= y:
        return None
    return N, D


def ratrec_complaint(x, y, N, D, outcome, sols=None):
    """outcome = ('ok', (n, d)) | ('exc', name).  sols: known solution list for the box (else brute force)."""
    box = ratrec_box(y, N, D)
    if box is None:
        return '' if outcome[0] == 'exc' else f'invalid arguments accepted: returned {outcome[1]!r}'
    if sols is None:
        sols = ratrec_bf(x, y, *box)
    if outcome[0] == 'exc':
        return f'raised {outcome[1]} although {sols[0]} is a solution within N={box[0]}, D={box[1]}' if sols else ''
    res = outcome[1]
    if not (isinstance(res, tuple) and len(res) == 2 and all(type(v) is int for v in res)):
        return f'result {res!r} is not a pair of ints'
    n, d = res
    if d <= 0 or (n - x * d) % y or math.gcd(n, d) != 1:
        return f'({n}, {d}) is not a reduced fraction with n = x*d mod y, d > 0'
    if not 2 * abs(n) * d < y:
        return f'({n}, {d}) violates 2|n|d < y'
    if (N is not None and abs(n) > N) or (D is not None and d > D):
        return f'({n}, {d}) outside the given bounds N={N}, D={D}'
    if sols and (n, d) != sols[0]:
        return f'({n}, {d}) returned but the solution within N={box[0]}, D={box[1]} is {sols[0]}'
    return ''


# ---------------------------------------------------------------- modular powers
def modpow(x, e, m):
    """x^e mod m (m > 0) by left-to-right square and multiply; negative e via the inverse (or None)."""
    if e < 0:
        g, s = _egcd(x % m, m)
        if g != 1:
            return None
        x, e = s % m, -e
    r = 1 % m
    x %= m
    for bit in bin(e)[2:]:
        r = r * r % m
        if bit == '1':
            r = r * x % m
    return r


def _egcd(a, b):
    s0, s1 = 1, 0
    while b:
        q = a // b
        a, b = b, a - q * b
        s0, s1 = s1, s0 - q * s1
    return a, s0


# ---------------------------------------------------------------- pseudoprimes
# least strong pseudoprimes to the first k prime bases (psi_1 .. psi_13) and other small spsp(2)
SPSP = [2047, 3277, 4033, 4681, 8321, 15841, 29341, 42799, 49141, 52633, 65281, 74665, 80581, 85489, 88357, 90751,
        1373653, 1530787, 1987021, 2284453, 3116107, 5173601, 6787327, 11541307, 13694761, 15978007,
        25326001, 161304001, 960946321, 1157839381, 3215031751, 3697278427, 5764643587, 6770862367,
        2152302898747, 3474749660383, 341550071728321, 3825123056546413051, 318665857834031151167461,
        3317044064679887385961981]
CARMICHAEL = [561, 1105, 1729, 2465, 2821, 6601, 8911, 10585, 15841, 29341, 41041, 46657, 52633, 62745, 63973,
              75361, 101101, 115921, 126217, 162401, 172081, 188461, 252601, 278545, 294409, 314821, 334153,
              340561, 399001, 410041, 449065, 488881, 512461, 1033669, 9999109081,
              # Chernick (6k+1)(12k+1)(18k+1)
              (6 * 1515 + 1) * (12 * 1515 + 1) * (18 * 1515 + 1)]


def chernick(k0, limit=20000):
    """Carmichael number (6k+1)(12k+1)(18k+1) with all three factors prime, first k >= k0 (or None)."""
    for k in range(max(1, k0), max(1, k0) + limit):
        if R.is_prime(6 * k + 1) and R.is_prime(12 * k + 1) and R.is_prime(18 * k + 1):
            return (6 * k + 1) * (12 * k + 1) * (18 * k + 1)
    return None


def p_2p1(a, limit=20000):
    """p * (2p - 1) with both prime, first p >= a (strong pseudoprime to many bases), or None."""
    p = max(2, a)
    for _ in range(limit):
        if R.is_prime(p) and R.is_prime(2 * p - 1):
            return p * (2 * p - 1)
        p += 1
    return None
