"""Verification library for lschoe/mpyc (property-based testing / fuzzing machinery)."""
