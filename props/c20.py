"""C20: finite field elements obey the field laws through every operator."""
import copy
import itertools
from hypothesis import strategies as st
from vlib.boot import boot
from vlib.runner import Outcome
from vlib import fields as FS, refmath as R

ID = 'C20'
LEVEL = 'exploration'
RULE = ('fields from GF(prime) (small/medium/up to 2^521-1), GF(2^n) (n<=128), odd-characteristic extensions; '
        'all ordered pairs of elements exhaustively for orders <= 64 (quick) / 300 (thorough), generated '
        'triples + mixed-in ints/polynomials + exponents + shifts beyond; every operator compared with an '
        'independent reference field implementation and the axioms; non-trivial = both operands nonzero '
        '(pairs) ; distinct by case hash / enumerated pair')
ASSUMPTIONS = ['reference arithmetic: Python big ints modulo p and schoolbook polynomial arithmetic modulo f']

boot(numpy=False)
from mpyc import finfields, gfpx  # noqa: E402


def budget(tier):
    return dict(shards=16, examples=250 if tier == 'quick' else 5000)


def enumerate_cases(tier):
    lim = 64 if tier == 'quick' else 300
    xlim = 32 if tier == 'quick' else 300
    specs = [{'p': p} for p in FS.SMALL_PRIMES if p <= lim]
    for p, n in FS.SMALL_EXT:
        if n >= 2 and p ** n <= xlim:
            for f in FS.some_irreducibles(p, n, 2):
                specs.append({'p': p, 'f': list(f)})
    for s in specs:
        yield {'mode': 'exh', 'field': s}


@st.composite
def _case(draw):
    spec = draw(FS.field_spec())
    q = FS.order(spec)
    el = FS.elem_strategy(spec)
    return {'mode': 'gen', 'field': spec, 'a': draw(el), 'b': draw(el), 'c': draw(el),
            'k': draw(st.one_of(st.integers(-5, 5), st.integers(-2 * q, 2 * q))),
            'e': draw(st.one_of(st.integers(-6, 12), st.integers(-2**70, 2**70))),
            's': draw(st.integers(0, 12))}


@st.composite
def _cross_case(draw):
    A = draw(FS.field_spec())
    B = draw(FS.field_spec())
    steps = draw(st.lists(st.tuples(st.sampled_from(['shift', 'shift', 'pow', 'inv', 'mix', 'pair']),
                                    st.integers(0, 2**64), st.one_of(st.integers(-9, 12), st.integers(-2**40, 2**40))).map(list),
                          min_size=1, max_size=4))
    return {'mode': 'cross', 'field': A, 'field2': B, 'steps': steps}


def strategy(tier):
    return st.one_of(_case(), _case(), _case(), _cross_case())


class Fail(Exception):
    pass


def _norm(spec, x):
    """int -> reference element."""
    if 'f' not in spec:
        return x % spec['p']
    return R.pmod(R.pfrom_int(x, spec['p']), tuple(spec['f']), spec['p']) if x >= 0 else None


class Ref:
    """Reference arithmetic on canonical representatives."""

    def __init__(self, spec):
        self.spec = spec
        self.p = spec['p']
        self.F = FS.ref(spec)

    def conv(self, k):
        """Integer mixed in: converted first (prime: mod p; extension: base-p digits as polynomial)."""
        if self.F is None:
            return k % self.p
        if k < 0:
            raise ValueError
        return self.F.red(R.pfrom_int(k, self.p))

    def add(self, a, b):
        return (a + b) % self.p if self.F is None else self.F.add(a, b)

    def sub(self, a, b):
        return (a - b) % self.p if self.F is None else self.F.sub(a, b)

    def mul(self, a, b):
        return a * b % self.p if self.F is None else self.F.mul(a, b)

    def neg(self, a):
        return -a % self.p if self.F is None else self.F.neg(a)

    def inv(self, a):
        if self.F is None:
            if a % self.p == 0:
                raise ZeroDivisionError
            return pow(a, -1, self.p)
        return self.F.inv(a)

    def pow(self, a, n):
        if self.F is None:
            if n < 0:
                a, n = self.inv(a), -n
            return pow(a, n, self.p)
        return self.F.pow(a, n)

    def zero(self):
        return 0 if self.F is None else ()

    def one(self):
        return 1 % self.p if self.F is None else (1,)


def _check_reduced(spec, F, x, what):
    if not isinstance(x, F):
        raise Fail(f'{what}: result {x!r} is not an element of the field')
    if 'f' not in spec:
        if not (isinstance(x.value, int) and 0 <= x.value < spec['p']):
            raise Fail(f'{what}: value {x.value} not reduced')
    else:
        v = x.value
        coeffs = list(v)
        if len(coeffs) - 1 >= len(spec['f']) - 1 or any(not 0 <= c < spec['p'] for c in coeffs):
            raise Fail(f'{what}: value {v} not reduced modulo the field modulus')


def _eq(spec, F, x, want, what):
    _check_reduced(spec, F, x, what)
    got = FS.to_ref(spec, x)
    if got != want:
        raise Fail(f'{what}: got {got}, reference {want}')


def _pair_laws(spec, F, rf, ia, ib):
    """All binary-operator laws for elements given as ints ia, ib."""
    a, b = F(ia), F(ib)
    ra, rb = FS.to_ref(spec, a), FS.to_ref(spec, b)
    if ra != rf.conv(ia):
        raise Fail(f'constructor: F({ia}) = {ra}, reference {rf.conv(ia)}')
    _eq(spec, F, a + b, rf.add(ra, rb), f'{ia}+{ib}')
    _eq(spec, F, a - b, rf.sub(ra, rb), f'{ia}-{ib}')
    _eq(spec, F, a * b, rf.mul(ra, rb), f'{ia}*{ib}')
    _eq(spec, F, -a, rf.neg(ra), f'-{ia}')
    _eq(spec, F, +a, ra, f'+{ia}')
    if rb != rf.zero():
        _eq(spec, F, a / b, rf.mul(ra, rf.inv(rb)), f'{ia}/{ib}')
        _eq(spec, F, b.reciprocal(), rf.inv(rb), f'reciprocal({ib})')
        if (b * b.reciprocal()) != F(1):
            raise Fail(f'{ib} * reciprocal != 1')
    else:
        for what, f in (('a/0', lambda: a / b), ('reciprocal(0)', lambda: b.reciprocal()),
                        ('1/0 reflected', lambda: 1 / b)):
            try:
                f()
            except ZeroDivisionError:
                pass
            else:
                raise Fail(f'{what} did not raise ZeroDivisionError')
    # in-place forms agree with binary ones and keep the value reduced
    for sym, ip, want in (('+=', lambda x: x.__iadd__(b), rf.add(ra, rb)), ('-=', lambda x: x.__isub__(b), rf.sub(ra, rb)),
                          ('*=', lambda x: x.__imul__(b), rf.mul(ra, rb))):
        x = F(ia)
        y = ip(x)
        if y is not x:
            raise Fail(f'in-place {sym} did not return self')
        _eq(spec, F, x, want, f'{ia}{sym}{ib}')
    if rb != rf.zero():
        x = F(ia)
        x /= b
        _eq(spec, F, x, rf.mul(ra, rf.inv(rb)), f'{ia}/={ib}')
    # mixing in integers equals converting first; reflected forms agree
    k = ib
    rk = rf.conv(k)
    _eq(spec, F, a + k, rf.add(ra, rk), f'{ia}+int({k})')
    _eq(spec, F, k + a, rf.add(rk, ra), f'int({k})+{ia}')
    _eq(spec, F, a - k, rf.sub(ra, rk), f'{ia}-int({k})')
    _eq(spec, F, k - a, rf.sub(rk, ra), f'int({k})-{ia}')
    _eq(spec, F, a * k, rf.mul(ra, rk), f'{ia}*int({k})')
    _eq(spec, F, k * a, rf.mul(rk, ra), f'int({k})*{ia}')
    if rk != rf.zero():
        _eq(spec, F, a / k, rf.mul(ra, rf.inv(rk)), f'{ia}/int({k})')
    if ra != rf.zero():
        _eq(spec, F, k / a, rf.mul(rk, rf.inv(ra)), f'int({k})/{ia}')
    x = F(ia)
    x += k
    _eq(spec, F, x, rf.add(ra, rk), f'{ia}+=int({k})')
    x = F(ia)
    x -= k
    _eq(spec, F, x, rf.sub(ra, rk), f'{ia}-=int({k})')
    x = F(ia)
    x *= k
    _eq(spec, F, x, rf.mul(ra, rk), f'{ia}*=int({k})')
    if (a == b) != (ra == rb) or (a != b) != (ra != rb):
        raise Fail(f'== / != wrong for {ia}, {ib}')
    if (a == k) != (ra == rk):
        raise Fail(f'== with int wrong for {ia}, {k}')
    if ra == rb and hash(a) != hash(b):
        raise Fail('equal elements hash differently')
    if bool(a) != (ra != rf.zero()):
        raise Fail(f'bool({ia}) wrong')
    if 'f' in spec:
        # mixing in polynomials equals converting first
        poly = gfpx.GFpX(spec['p'])
        pb = poly(ib)
        _eq(spec, F, a + pb, rf.add(ra, rk), f'{ia}+poly({ib})')
        _eq(spec, F, pb * a, rf.mul(rk, ra), f'poly({ib})*{ia}')
        _eq(spec, F, a - pb, rf.sub(ra, rk), f'{ia}-poly({ib})')
        _eq(spec, F, pb - a, rf.sub(rk, ra), f'poly({ib})-{ia}')


def _known_shift(spec):
    return 'F13' if ('f' in spec and spec['p'] != 2) else None


def _shift_laws(spec, F, rf, ia, s):
    a = F(ia)
    ra = FS.to_ref(spec, a)
    two_int = rf.conv(2 ** s) if ('f' in spec or True) else None  # the integer 2**s converted first
    two_pow = rf.pow(rf.conv(2), s)                              # the field element 2, s-th power
    l = a << s
    _check_reduced(spec, F, l, f'{ia}<<{s}')
    got = FS.to_ref(spec, l)
    readings = {rf.mul(ra, two_int), rf.mul(ra, two_pow)}
    if got not in readings:
        raise Fail(f'shift: {ia}<<{s} = {got} is not a multiplication by a power of two ({readings})')
    x = F(ia)
    x <<= s
    if FS.to_ref(spec, x) != got:
        raise Fail(f'shift: in-place <<= differs from <<')
    for which, den in (('int', two_int), ('pow', two_pow)):
        pass
    dens = [d for d in (two_int, two_pow) if d != rf.zero()]
    if not dens:
        return
    try:
        r = a >> s
    except ZeroDivisionError:
        if two_int == rf.zero():
            return  # division by the integer 2**s which is zero in the field
        raise Fail(f'shift: {ia}>>{s} raised ZeroDivisionError')
    _check_reduced(spec, F, r, f'{ia}>>{s}')
    gotr = FS.to_ref(spec, r)
    if gotr not in {rf.mul(ra, rf.inv(d)) for d in dens}:
        raise Fail(f'shift: {ia}>>{s} = {gotr} is not a division by a power of two')
    y = F(ia)
    y >>= s
    if FS.to_ref(spec, y) != gotr:
        raise Fail('shift: in-place >>= differs from >>')
    back = (a << s) >> s
    if FS.to_ref(spec, back) != ra and two_int != rf.zero():
        raise Fail(f'shift: ({ia}<<{s})>>{s} != {ia}')


def _mix_laws(spec, F, ia, k):
    """Mixing in a plain integer equals converting it first (any sign, any size), for every operator form."""
    a = F(ia)
    fk = F(k)
    pairs = [('+', lambda x, y: x + y), ('-', lambda x, y: x - y), ('*', lambda x, y: x * y),
             ('/', lambda x, y: x / y)]
    for sym, op in pairs:
        for left in (True, False):
            args_mixed = (a, k) if left else (k, a)
            args_conv = (a, fk) if left else (fk, a)
            res = []
            for args in (args_mixed, args_conv):
                try:
                    res.append(('ok', FS.to_ref(spec, op(*args))))
                except ZeroDivisionError:
                    res.append(('zde', None))
            if res[0] != res[1]:
                what = f'{ia}{sym}int({k})' if left else f'int({k}){sym}{ia}'
                raise Fail(f'mixing in an integer differs from converting first: {what} -> {res[0]}, '
                           f'with F({k}) -> {res[1]}')
    for sym, ip in (('+=', lambda x, y: x.__iadd__(y)), ('-=', lambda x, y: x.__isub__(y)),
                    ('*=', lambda x, y: x.__imul__(y)), ('/=', lambda x, y: x.__itruediv__(y))):
        res = []
        for y in (k, fk):
            x = F(ia)
            try:
                res.append(('ok', FS.to_ref(spec, ip(x, y))))
            except ZeroDivisionError:
                res.append(('zde', None))
        if res[0] != res[1]:
            raise Fail(f'in-place {ia}{sym}int({k}) -> {res[0]}, with F({k}) -> {res[1]}')
    if (a == k) != (a == fk) or (a != k) != (a != fk):
        raise Fail(f'== / != with int({k}) differs from == / != with F({k})')


def _cross_laws(case):
    """The same operations interleaved over two different fields: no state may leak between fields."""
    A, B = case['field'], case['field2']
    FA, FB = FS.make(A), FS.make(B)
    rfa, rfb = Ref(A), Ref(B)
    for step in case['steps']:
        op, x, y = step
        for spec, F, rf in ((A, FA, rfa), (B, FB, rfb), (A, FA, rfa)):
            q = FS.order(spec)
            ix = x % q
            if op == 'shift':
                _shift_laws(spec, F, rf, ix, y % 13)
            elif op == 'pow':
                _pow_laws(spec, F, rf, ix, y)
            elif op == 'inv':
                a = F(ix)
                ra = FS.to_ref(spec, a)
                if ra != rf.zero():
                    _eq(spec, F, 1 / a, rf.inv(ra), f'1/{ix}')
                    _eq(spec, F, a.reciprocal(), rf.inv(ra), f'{ix}.reciprocal()')
            elif op == 'mix':
                _mix_laws(spec, F, ix, y)
            else:
                _pair_laws(spec, F, rf, ix, y % q)


def _pow_laws(spec, F, rf, ia, e):
    a = F(ia)
    ra = FS.to_ref(spec, a)
    if ra == rf.zero() and e < 0:
        try:
            a ** e
        except (ZeroDivisionError, ValueError):  # the pure-Python powmod stub raises ValueError
            return
        raise Fail(f'0**{e} did not raise')
    _eq(spec, F, a ** e, rf.pow(ra, e), f'{ia}**{e}')
    if abs(e) <= 12:
        r = F(1)
        base = a if e >= 0 else a.reciprocal()
        for _ in range(abs(e)):
            r = r * base
        if r != a ** e:
            raise Fail(f'{ia}**{e} differs from repeated multiplication')


def run_case(case):
    spec = case['field']
    try:
        F = FS.make(spec)
    except Exception as e:
        return Outcome(False, f'GF() refused valid field {spec}: {e!r}')
    rf = Ref(spec)
    q = FS.order(spec)
    label = 'prime' if 'f' not in spec else ('binary' if spec['p'] == 2 else 'ext')
    try:
        if case['mode'] == 'exh':
            n = nt = 0
            for ia, ib in itertools.product(range(q), repeat=2):
                _pair_laws(spec, F, rf, ia, ib)
                n += 1
                nt += bool(ia and ib)
            for ia in range(q):
                for e in (-3, -2, -1, 0, 1, 2, 3, q - 1, q, -(q - 1)):
                    _pow_laws(spec, F, rf, ia, e)
                ic = (ia * 7 + 3) % q
                ib = (ia * 5 + 1) % q
                _triple(spec, F, rf, ia, ib, ic)
            known = None
            try:
                for ia in range(q):
                    for s in range(0, 5):
                        _shift_laws(spec, F, rf, ia, s)
            except Fail as e:
                known = _known_shift(spec)
                if known:
                    return Outcome(False, f'{spec}: {e}', labels=[label, 'exh'], known=known, n=n, n_nt=nt, exhaustive=True)
                raise
            return Outcome(True, labels=[label, 'exh'], n=n, n_nt=nt, exhaustive=True)
        if case['mode'] == 'cross':
            try:
                _cross_laws(case)
            except Fail as e:
                known = _known_shift(spec) or _known_shift(case['field2'])
                if known:
                    return Outcome(False, f'{e}', labels=['cross'], known=known)
                raise
            return Outcome(True, labels=['cross', label], nontrivial=case['field'] != case['field2'])
        ia, ib, ic = case['a'], case['b'], case['c']
        _mix_laws(spec, F, ia, case['k'])
        _mix_laws(spec, F, ib, -abs(case['k']) - spec['p'])
        _pair_laws(spec, F, rf, ia, ib)
        _pair_laws(spec, F, rf, ic, ia)
        _triple(spec, F, rf, ia, ib, ic)
        k = case['k']
        if 'f' not in spec or k >= 0:
            a = F(ia)
            ra, rk = FS.to_ref(spec, a), rf.conv(k)
            _eq(spec, F, a + k, rf.add(ra, rk), f'{ia}+int({k})')
            _eq(spec, F, k - a, rf.sub(rk, ra), f'int({k})-{ia}')
            _eq(spec, F, k * a, rf.mul(rk, ra), f'int({k})*{ia}')
        _pow_laws(spec, F, rf, ia, case['e'])
        _pow_laws(spec, F, rf, ib, case['e'] % 13 - 6)
        try:
            _shift_laws(spec, F, rf, ia, case['s'])
        except Fail as e:
            known = _known_shift(spec)
            if known:
                return Outcome(False, f'{spec}: {e}', labels=[label, 'gen'], known=known)
            raise
    except Fail as e:
        return Outcome(False, f'{spec}: {e}\ncase={case}', labels=[label])
    except Exception:
        import traceback
        return Outcome(False, f'exception on valid input: {traceback.format_exc()[-1500:]}\ncase={case}', labels=[label])
    return Outcome(True, labels=[label, 'gen'], nontrivial=bool(case['a'] and case['b']))


def _triple(spec, F, rf, ia, ib, ic):
    a, b, c = F(ia), F(ib), F(ic)
    if (a + b) + c != a + (b + c) or (a * b) * c != a * (b * c):
        raise Fail(f'associativity fails for {ia},{ib},{ic}')
    if a + b != b + a or a * b != b * a:
        raise Fail(f'commutativity fails for {ia},{ib}')
    if a * (b + c) != a * b + a * c:
        raise Fail(f'distributivity fails for {ia},{ib},{ic}')
    if a + F(0) != a or a * F(1) != a or a + (-a) != F(0):
        raise Fail(f'identity/inverse law fails for {ia}')
