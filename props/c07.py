"""C07: input, output and transfer reach exactly the designated parties.

A case is a sequence of operations executed by all parties of a simulated run:
  ['transfer', {'senders': S, 'receivers': R}, payloads]      S, R: None | int | list | ['range', a, b]
  ['transfer', {'pairs': [[a, b], ...]}, payloads]            arbitrary graph as list of arcs
  ['transfer', {'dict': [[a, [b...]], ...]}, payloads]        total dict (keys in increasing order)
  ['io', type, senders, values, x_is_list, receivers, threshold]   input by senders, then output
payloads[i] is the object party i passes (JSON-encoded picklable value).
Oracle (docstrings of Runtime.transfer/input/output + statement): every receiver obtains exactly
its designated senders' objects in sender order (a bare object when `senders` is an int);
a party that is not a receiver obtains no sender value (None, or an empty list when senders is
a list -- the docstring leaves that open); all receivers of an output obtain the same value,
equal to the sender's input; non-receivers of an output obtain None.
"""
from hypothesis import strategies as st
from vlib import progs
from vlib import sim as simmod
from vlib.runner import Outcome

ID = 'C07'
LEVEL = 'exploration'
RULE = ('generated (m,t,PRSS) x sequences of transfer (senders/receivers as None|int|list|range, arc lists, '
        'total dicts; nested picklable payloads incl. bytes, tuples, big ints) and input->output round trips '
        '(SecInt, SecFxp, prime and binary SecFld; scalar and list; senders int|list; receiver subsets; output '
        'threshold None|t..2t) x schedules; oracle = designated routing per docstring; non-trivial = m>=3 and '
        'an op whose sender set != receiver set != all parties; distinct by case hash')
ASSUMPTIONS = ['sender_receivers dicts are total (a key for every party) with keys in increasing order and arc lists '
               'have no duplicate arcs: the documented "set of arcs" domain',
               'a non-receiver may obtain None or an empty list from transfer (docstring leaves it open)']


TIMEOUT_INCONCLUSIVE = True  # hangs are decided by quiescence in the simulator, not by the wall clock


def budget(tier):
    return dict(shards=16, examples=60 if tier == 'quick' else 900)


# ------------------------------------------------------------------ payloads (JSON-encoded picklables)
_leaf = st.one_of(st.none(), st.booleans(), st.integers(-2**70, 2**70), st.text(max_size=6),
                  st.binary(max_size=8).map(lambda b: {'__bytes__': b.hex()}),
                  st.floats(allow_nan=False, allow_infinity=False, width=32))
_payload = st.recursive(_leaf, lambda ch: st.one_of(
    st.lists(ch, max_size=3), st.lists(ch, max_size=3).map(lambda x: {'__tuple__': x}),
    st.dictionaries(st.text(max_size=3), ch, max_size=3).map(lambda d: {'__dict__': sorted(d.items())})),
    max_leaves=6)


def decode(x):
    if isinstance(x, dict):
        if '__bytes__' in x:
            return bytes.fromhex(x['__bytes__'])
        if '__tuple__' in x:
            return tuple(decode(y) for y in x['__tuple__'])
        if '__dict__' in x:
            return {k: decode(v) for k, v in x['__dict__']}
    if isinstance(x, list):
        return [decode(y) for y in x]
    return x


@st.composite
def _pset(draw, m, allow_int=True, allow_none=True, nonempty=False):
    kinds = ['list', 'list', 'range'] + (['int'] if allow_int else []) + (['none'] if allow_none else [])
    k = draw(st.sampled_from(kinds))
    if k == 'none':
        return None
    if k == 'int':
        return draw(st.integers(0, m - 1))
    if k == 'range':
        a = draw(st.integers(0, m - 1))
        b = draw(st.integers(a + 1 if nonempty else a, m))
        return ['range', a, b]
    return draw(st.lists(st.integers(0, m - 1), min_size=1 if nonempty else 0, max_size=m, unique=True))


def _plist(spec, m):
    if spec is None:
        return list(range(m))
    if isinstance(spec, int):
        return [spec]
    if spec and spec[0] == 'range':
        return list(range(spec[1], spec[2]))
    return list(spec)


def _parg(spec):
    if isinstance(spec, list) and spec and spec[0] == 'range':
        return range(spec[1], spec[2])
    return spec


@st.composite
def _op(draw, m, t):
    kind = draw(st.sampled_from(['sr', 'sr', 'pairs', 'dict', 'io', 'io', 'io']))
    if kind == 'sr':
        spec = {'senders': draw(_pset(m)), 'receivers': draw(_pset(m))}
        return ['transfer', spec, [draw(_payload) for _ in range(m)]]
    if kind == 'pairs':
        arcs = draw(st.lists(st.tuples(st.integers(0, m - 1), st.integers(0, m - 1)).map(list),
                             max_size=2 * m, unique_by=tuple))
        return ['transfer', {'pairs': arcs}, [draw(_payload) for _ in range(m)]]
    if kind == 'dict':
        d = [[a, draw(st.lists(st.integers(0, m - 1), max_size=m, unique=True))] for a in range(m)]
        return ['transfer', {'dict': d}, [draw(_payload) for _ in range(m)]]
    typ = draw(st.sampled_from([['int', 8], ['int', 16], ['fxp', 16, 8], ['fxp', 32, 16], ['fld', 101], ['fld', 2**61 - 1],
                                ['fld2', 8], ['fld', 257]]))
    senders = draw(_pset(m, allow_none=True, nonempty=True))
    slist = _plist(senders, m)
    is_list = draw(st.booleans())
    n = draw(st.integers(0, 3)) if is_list else 1
    vals = []
    for _ in slist:
        vs = []
        for _ in range(n):
            if typ[0] == 'int':
                vs.append(draw(st.integers(-2**(typ[1] - 1), 2**(typ[1] - 1) - 1)))
            elif typ[0] == 'fxp':
                vs.append(draw(st.integers(-2**(typ[1] - 1), 2**(typ[1] - 1) - 1)))  # scaled by 2^-f
            elif typ[0] == 'fld':
                vs.append(draw(st.integers(0, typ[1] - 1)))
            else:
                vs.append(draw(st.integers(0, 2**typ[1] - 1)))
        vals.append(vs)
    receivers = draw(_pset(m))
    thr = draw(st.sampled_from([None, None, t, 2 * t, min(2 * t, t + 1)]))
    return ['io', typ, senders, vals, is_list, receivers, thr]


@st.composite
def _case(draw, tier):
    m, t, prss = draw(progs.config(max_m=6 if tier == 'quick' else 7))
    ops = draw(st.lists(_op(m, t), min_size=1, max_size=4 if tier == 'quick' else 8))
    return dict(m=m, t=t, prss=prss, seed=draw(st.integers(0, 2**20)), ops=ops,
                sched=draw(progs.schedule(m, rich=draw(st.booleans()))))


def strategy(tier):
    return _case(tier)


# ------------------------------------------------------------------ secure side
def _stype(mpc, typ):
    if typ[0] == 'int':
        return mpc.SecInt(typ[1])
    if typ[0] == 'fxp':
        return mpc.SecFxp(typ[1], typ[2])
    if typ[0] == 'fld':
        return mpc.SecFld(typ[1])
    return mpc.SecFld(2 ** typ[1])


def _mk(typ, st_, v):
    if typ[0] == 'fxp':
        # the integral flag is public and must agree at all parties: set it explicitly
        return st_(None if v is None else v / 2 ** typ[2], integral=False)
    if v is None:
        return st_(None)
    return st_(v)


def _plain(typ, x):
    """Opened value -> comparable plain value."""
    if x is None:
        return None
    if typ[0] == 'fxp':
        return x  # float, exact for these sizes
    return int(x)


def make_prog(case):
    m = case['m']

    async def prog(mpc, pid):
        res = []
        for op in case['ops']:
            if op[0] == 'transfer':
                spec, payloads = op[1], op[2]
                obj = decode(payloads[pid])
                if 'pairs' in spec:
                    r = await mpc.transfer(obj, sender_receivers=[tuple(a) for a in spec['pairs']])
                elif 'dict' in spec:
                    r = await mpc.transfer(obj, sender_receivers={a: list(b) for a, b in spec['dict']})
                else:
                    kw = {}
                    if spec['senders'] is not None:
                        kw['senders'] = _parg(spec['senders'])
                    if spec['receivers'] is not None:
                        kw['receivers'] = _parg(spec['receivers'])
                    r = await mpc.transfer(obj, **kw)
                res.append(r)
            else:
                _, typ, senders, vals, is_list, receivers, thr = op
                st_ = _stype(mpc, typ)
                slist = _plist(senders, m)
                n = len(vals[0]) if vals else 0
                if pid in slist:
                    mine = vals[slist.index(pid)]
                else:
                    mine = [None] * n
                x = [_mk(typ, st_, v) for v in mine]
                if not is_list:
                    x = x[0]
                kw = {} if senders is None else {'senders': _parg(senders)}
                y = mpc.input(x, **kw)
                # normalise to list (per sender) of lists (per element)
                if isinstance(senders, int):
                    y = [y]
                if not is_list:
                    y = [[a] for a in y]
                okw = {}
                if receivers is not None:
                    okw['receivers'] = _parg(receivers)
                if thr is not None:
                    okw['threshold'] = thr
                outs = []
                for ys in y:
                    o1 = await mpc.output(list(ys), **okw)          # list form
                    o2 = [await mpc.output(a, **okw) for a in ys]   # scalar form
                    outs.append([[_plain(typ, a) for a in o1], [_plain(typ, a) for a in o2]])
                res.append(outs)
        return res

    return prog


# ------------------------------------------------------------------ oracle
def expected_transfer(op, m, pid):
    """Returns a list of acceptable results for party pid."""
    spec, payloads = op[1], [decode(p) for p in op[2]]
    if 'pairs' in spec:
        my = [a for a, b in spec['pairs'] if b == pid]
        return [[payloads[a] for a in my]] if my else [[], None]
    if 'dict' in spec:
        my = [a for a, b in spec['dict'] if pid in b]
        return [[payloads[a] for a in my]] if my else [[], None]
    S, R = _plist(spec['senders'], m), _plist(spec['receivers'], m)
    if pid in R:
        if isinstance(spec['senders'], int):
            return [payloads[S[0]]]
        return [[payloads[a] for a in S]]
    if isinstance(spec['senders'], int):
        return [None]
    return [[], None]


def expected_io(op, m, pid):
    _, typ, senders, vals, is_list, receivers, thr = op
    R = _plist(receivers, m)
    out = []
    for vs in vals:
        if pid in R:
            pl = [v / 2 ** typ[2] if typ[0] == 'fxp' else v for v in vs]
        else:
            pl = [None] * len(vs)
        out.append([pl, list(pl)])
    return out


def run_case(case):
    m, t = case['m'], case['t']
    labels = [f'm={m}', f't={t}']
    nt = False
    for op in case['ops']:
        labels.append(op[0] + (':' + ('pairs' if 'pairs' in op[1] else 'dict' if 'dict' in op[1] else 'sr') if op[0] == 'transfer' else ':' + op[1][0]))
        if op[0] == 'transfer' and 'senders' in op[1]:
            S, R = set(_plist(op[1]['senders'], m)), set(_plist(op[1]['receivers'], m))
            nt = nt or (m >= 3 and S != R and R != set(range(m)) and bool(S) and bool(R))
            if isinstance(op[1]['senders'], int) and R != set(range(m)):
                labels.append('int-sender+receiver-subset')
        elif op[0] == 'transfer':
            nt = nt or m >= 3
        else:
            R = set(_plist(op[5], m))
            nt = nt or (m >= 3 and R != set(range(m)) and bool(R))
    sim = simmod.Sim(m, t, prss=case['prss'], seed=case['seed'], schedule=case['sched'])
    try:
        res = sim.run_programs(make_prog(case))
    finally:
        sim.close()
    if res.inconclusive:
        return Outcome(True, inconclusive=True, labels=labels, nontrivial=False)
    if not res.all_done:
        return Outcome(False, f'run did not complete: {res.describe()}\ncase={case}', labels=labels)
    for pid in range(m):
        got = res.values[pid]
        for k, op in enumerate(case['ops']):
            if op[0] == 'transfer':
                acc = expected_transfer(op, m, pid)
                if not any(_same(got[k], a) for a in acc):
                    return Outcome(False, f'op {k} {op[:2]}: party {pid} obtained {got[k]!r}, expected '
                                   f'{" or ".join(map(repr, acc))}\ncase={case}', labels=labels)
            else:
                want = expected_io(op, m, pid)
                if not _same(got[k], want):
                    return Outcome(False, f'op {k} {op}: party {pid} obtained {got[k]!r}, expected {want!r}'
                                   f'\ncase={case}', labels=labels)
    return Outcome(True, labels=labels, nontrivial=nt)


def _same(a, b):
    """Equality that also distinguishes types (tuple vs list, bool vs int, bytes)."""
    if type(a) is not type(b):
        return False
    if isinstance(a, (list, tuple)):
        return len(a) == len(b) and all(_same(x, y) for x, y in zip(a, b))
    if isinstance(a, dict):
        return a.keys() == b.keys() and all(_same(a[k], b[k]) for k in a)
    return a == b
