"""C16: PRSS keys are shared exactly among each subset's members.

The m parties are connected in the simulator (real MessageExchanger handshakes over in-memory
transports, delivered under generated schedules and chunkings).  Afterwards, for every subset S
of m-t parties: all members hold the same 16-byte key for S, no party outside S holds it (neither
under S nor as a value under any other subset), keys of different subsets differ, and on the wire
a handshake i->j carries exactly the keys of the subsets S with min(S)=i and j in S.  Hence every
coalition of t parties misses the key of its complement (checked by enumeration).  A PRSS-based
random value is opened as an end-to-end consistency check.
"""
import itertools
import math
from hypothesis import strategies as st
from vlib import progs
from vlib import sim as simmod
from vlib.runner import Outcome

ID = 'C16'
LEVEL = 'exploration'
RULE = ('every (m,t) with 2t<m, m<=8, C(m,t)<=56 enumerated with round-robin, serial and byte-at-a-time handshake '
        'delivery, plus generated schedules/chunkings/seeds; oracle = subset-key invariant over all parties\' '
        '_prss_keys and the handshake bytes on the wire; non-trivial = t>=1 and m>=3; distinct by case hash')
ASSUMPTIONS = ['keys of different subsets differ: 16 random bytes, collision probability negligible (< 2^-100)']

CONFIGS = [(m, t) for m in range(1, 9) for t in range(0, m) if (2 * t < m or m == 1) and math.comb(m, t) <= 56]


TIMEOUT_INCONCLUSIVE = True  # hangs are decided by quiescence in the simulator, not by the wall clock


def budget(tier):
    return dict(shards=16, examples=12 if tier == 'quick' else 200)


def enumerate_cases(tier):
    for m, t in CONFIGS:
        for sched in ({'mode': 'rr'}, {'mode': 'serial'}, {'mode': 'rr', 'chunks': [1]},
                      {'mode': 'rand', 'seed': m * 10 + t, 'chunks': [1, 2, 15, 16, 17, 3]}):
            yield dict(m=m, t=t, seed=m * 100 + t, sched=sched)
        for ct in range(0, (m + 1) // 2):
            if ct != t and 2 * ct < m:
                yield dict(m=m, t=t, seed=m * 100 + t, sched={'mode': 'rr'}, cli_t=ct)


@st.composite
def _case(draw, tier):
    m, t = draw(st.sampled_from([c for c in CONFIGS if c[0] >= 2]))
    sched = draw(progs.schedule(m))
    if sched.get('mode') != 'fast':
        sched['chunks'] = draw(st.lists(st.sampled_from([0, 1, 2, 3, 15, 16, 17, 18, 31, 32, 33, 34]), max_size=6))
    return dict(m=m, t=t, seed=draw(st.integers(0, 2**30)), sched=sched, cli_t=draw(progs.cli_threshold(m, t)))


def strategy(tier):
    return _case(tier)


async def _prog(mpc, pid):
    secint = mpc.SecInt(16)
    r = mpc._random(secint, 1000)            # PRSS randomness: consistent only if keys agree
    b = mpc.random_bit(secint)
    return [await mpc.output(r), await mpc.output(b)]


def run_case(case):
    m, t = case['m'], case['t']
    labels = [f'm={m}', f't={t}', 'sched=' + case['sched'].get('mode', 'rr')]
    sim = simmod.Sim(m, t, prss=True, seed=case['seed'], schedule=case['sched'], cli_threshold=case.get('cli_t'))
    try:
        res = sim.run_programs(_prog)
        keys = [dict(rt._prss_keys) for rt in sim.runtimes]
    finally:
        sim.close()
    if res.inconclusive:
        return Outcome(True, inconclusive=True, labels=labels, nontrivial=False)
    if not res.all_done:
        return Outcome(False, f'run did not complete: {res.describe()}\ncase={case}', labels=labels)
    if any(v != res.values[0] for v in res.values):
        return Outcome(False, f'parties opened different PRSS values: {res.values}\ncase={case}', labels=labels)
    if not (0 <= res.values[0][0] < 1000 and res.values[0][1] in (0, 1)):
        return Outcome(False, f'PRSS values out of range: {res.values[0]}', labels=labels)
    subsets = list(itertools.combinations(range(m), m - t))
    keyof = {}
    for S in subsets:
        held = {i: bytes(keys[i][S]) for i in range(m) if S in keys[i]}
        for i in S:
            if i not in held:
                return Outcome(False, f'member {i} of subset {S} holds no key for it\ncase={case}', labels=labels)
        for i in held:
            if i not in S:
                return Outcome(False, f'party {i} holds a key for subset {S} it is not a member of\ncase={case}',
                               labels=labels)
        vals = set(held.values())
        if len(vals) != 1:
            return Outcome(False, f'members of subset {S} hold different keys: '
                           f'{ {i: k.hex() for i, k in held.items()} }\ncase={case}', labels=labels)
        k = vals.pop()
        if len(k) != 16:
            return Outcome(False, f'key for subset {S} has {len(k)} bytes', labels=labels)
        keyof[S] = k
    if len(set(keyof.values())) != len(subsets):
        return Outcome(False, f'two subsets share the same key\ncase={case}', labels=labels)
    for i in range(m):
        extra = set(keys[i]) - set(subsets)
        if extra:
            return Outcome(False, f'party {i} holds keys under unexpected subsets {sorted(extra)[:3]}', labels=labels)
        for S, k in keyof.items():
            if i not in S and any(bytes(v) == k for v in keys[i].values()):
                return Outcome(False, f'party {i} (not in {S}) holds the key of {S} under another subset', labels=labels)
    # every coalition of t parties lacks the key of its complement
    for C in itertools.combinations(range(m), t):
        S = tuple(i for i in range(m) if i not in C)
        for i in C:
            if any(bytes(v) == keyof[S] for v in keys[i].values()):
                return Outcome(False, f'coalition {C} knows the key of its complement {S}', labels=labels)
    # wire: a handshake i->j (i<j) = 2-byte pid + exactly the keys of subsets S with min(S)=i and j in S
    for i in range(m):
        for j in range(i + 1, m):
            hs, frames, tail = sim.frames(i, j)
            if int.from_bytes(hs[:2], 'little') != i:
                return Outcome(False, f'handshake {i}->{j} announces pid {int.from_bytes(hs[:2], "little")}', labels=labels)
            want = sorted(keyof[S] for S in subsets if S[0] == i and j in S)
            body = bytes(hs[2:])
            got = sorted(body[o:o + 16] for o in range(0, len(body), 16))   # any order of the keys is fine
            if got != want:
                return Outcome(False, f'handshake {i}->{j} carries {len(hs) - 2} key bytes that are not exactly the '
                               f'keys of the subsets led by {i} and containing {j}\ncase={case}', labels=labels)
    return Outcome(True, labels=labels, nontrivial=t >= 1 and m >= 3)
