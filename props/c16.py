"""C16: PRSS keys are shared exactly among each subset's members.

The m parties are connected in the simulator (real MessageExchanger handshakes over in-memory
transports, delivered under generated schedules and chunkings).  Afterwards, for every subset S
of m-t parties: all members hold the same 16-byte key for S, no party outside S holds it (neither
under S nor as a value under any other subset), keys of different subsets differ, and on the wire
a handshake i->j carries exactly the keys of the subsets S with min(S)=i and j in S.  Hence every
coalition of t parties misses the key of its complement (checked by enumeration).  A PRSS-based
random value is opened as an end-to-end consistency check.

Two-session histories (start .. shutdown, mpc.threshold = t2, start .. shutdown in ONE process, as
a program with several mpc.run/start calls does): after the second set-up the same invariants must
hold for t2, each party's `prfs(bound)` must map exactly the (m-t2)-subsets it belongs to, built on
the keys in force (members of a subset compute equal PRF outputs), and the PRSS values of the
second session must lie on a polynomial of degree <= t2.
"""
import itertools
import math
from hypothesis import strategies as st
from vlib import progs
from vlib import sim as simmod
from vlib.runner import Outcome

ID = 'C16'
LEVEL = 'exploration'
RULE = ('every (m,t) with 2t<m, m<=8, C(m,t)<=56 enumerated with round-robin, serial and byte-at-a-time handshake '
        'delivery, plus generated schedules/chunkings/seeds; oracle = subset-key invariant over all parties\' '
        '_prss_keys and the handshake bytes on the wire; plus two-session histories (threshold t1, shutdown, threshold '
        't2, set-up again; all pairs t1 != t2 enumerated for m<=6 and generated): same invariant at t2, prfs(bound) '
        'keyed by exactly the (m-t2)-subsets with equal PRF outputs among members, PRSS shares of degree <= t2; '
        'non-trivial = t>=1 and m>=3 (two-session: max(t1,t2)>=1); distinct by case hash')
ASSUMPTIONS = ['keys of different subsets differ: 16 random bytes, collision probability negligible (< 2^-100)']

CONFIGS = [(m, t) for m in range(1, 9) for t in range(0, m) if (2 * t < m or m == 1) and math.comb(m, t) <= 56]


TIMEOUT_INCONCLUSIVE = True  # hangs are decided by quiescence in the simulator, not by the wall clock


def budget(tier):
    return dict(shards=16, examples=12 if tier == 'quick' else 200)


def enumerate_cases(tier):
    for m, t in CONFIGS:
        for sched in ({'mode': 'rr'}, {'mode': 'serial'}, {'mode': 'rr', 'chunks': [1]},
                      {'mode': 'rand', 'seed': m * 10 + t, 'chunks': [1, 2, 15, 16, 17, 3]}):
            yield dict(m=m, t=t, seed=m * 100 + t, sched=sched)
        for ct in range(0, (m + 1) // 2):
            if ct != t and 2 * ct < m:
                yield dict(m=m, t=t, seed=m * 100 + t, sched={'mode': 'rr'}, cli_t=ct)
    # two sessions in one process: every ordered pair of different thresholds
    for m in range(2, 7):
        ts = [t for t in range(m) if 2 * t < m and math.comb(m, t) <= 56]
        for t1 in ts:
            for t2 in ts:
                if t1 != t2:
                    yield dict(m=m, t=t1, t2=t2, seed=m * 1000 + t1 * 10 + t2, sched={'mode': 'rr'})


@st.composite
def _case(draw, tier):
    m, t = draw(st.sampled_from([c for c in CONFIGS if c[0] >= 2]))
    sched = draw(progs.schedule(m))
    if sched.get('mode') != 'fast':
        sched['chunks'] = draw(st.lists(st.sampled_from([0, 1, 2, 3, 15, 16, 17, 18, 31, 32, 33, 34]), max_size=6))
    case = dict(m=m, t=t, seed=draw(st.integers(0, 2**30)), sched=sched, cli_t=draw(progs.cli_threshold(m, t)))
    if draw(st.integers(0, 3)) == 0:
        t2s = [x for x in range(m) if 2 * x < m and x != t and math.comb(m, x) <= 56]
        if t2s:
            case['t2'] = draw(st.sampled_from(t2s))
    return case


def strategy(tier):
    return _case(tier)


async def _prog(mpc, pid):
    secint = mpc.SecInt(16)
    r = mpc._random(secint, 1000)            # PRSS randomness: consistent only if keys agree
    b = mpc.random_bit(secint)
    sh = await mpc.gather([r, b])
    return [await mpc.output(r), await mpc.output(b), [int(x.value) for x in sh], secint.field.modulus]


def run_case(case):
    m, t = case['m'], case['t']
    labels = [f'm={m}', f't={t}', 'sched=' + case['sched'].get('mode', 'rr')]
    sim = simmod.Sim(m, t, prss=True, seed=case['seed'], schedule=case['sched'], cli_threshold=case.get('cli_t'))
    try:
        res = sim.run_programs(_prog)
        bad = _check_session(sim, res, m, t, case, labels)
        t2 = case.get('t2')
        if bad is None and t2 is not None:
            labels += ['two-sessions', f't2={t2}', 'lower' if t2 < t else 'raise']
            # the program assigns mpc.threshold between two sessions (each party in its own context)
            for i, rt in enumerate(sim.runtimes):
                sim._in_party(i, setattr, rt, 'threshold', t2)
            sim.t = t2
            sim.eof.clear()
            res = sim.run_programs(_prog)
            bad = _check_session(sim, res, m, t2, case, labels, second=True)
            t = max(t, t2)
    finally:
        sim.close()
    if bad is not None:
        return bad
    return Outcome(True, labels=labels, nontrivial=t >= 1 and m >= 3)


def _check_session(sim, res, m, t, case, labels, second=False):
    """None if the subset-key invariant holds after this session's set-up, else the failing Outcome."""
    from vlib import refmath as R
    keys = [dict(rt._prss_keys) for rt in sim.runtimes]
    if res.inconclusive:
        return Outcome(True, inconclusive=True, labels=labels, nontrivial=False)
    if not res.all_done:
        return Outcome(False, f'run did not complete: {res.describe()}\ncase={case}', labels=labels)
    if any(v[:2] != res.values[0][:2] for v in res.values):
        return Outcome(False, f'parties opened different PRSS values: {res.values}\ncase={case}', labels=labels)
    if not (0 <= res.values[0][0] < 1000 and res.values[0][1] in (0, 1)):
        return Outcome(False, f'PRSS values out of range: {res.values[0]}', labels=labels)
    if second:
        # shares of the second session's PRSS values: one polynomial of degree <= t (the threshold in force)
        p = res.values[0][3]
        for k in range(2):
            pts = [(i + 1, res.values[i][2][k] % p) for i in range(m)]
            poly = R.interpolate_prime(pts, p)
            if len(poly) - 1 > t:
                return Outcome(False, f'second session (threshold {t}): PRSS value {k} has shares '
                               f'{[y for _, y in pts]} on a polynomial of degree {len(poly) - 1} > {t}\ncase={case}',
                               labels=labels)
            if (poly[0] if poly else 0) != res.values[0][k] % p:
                return Outcome(False, f'second session: PRSS value {k} opened as {res.values[0][k]} but its sharing '
                               f'has constant term {poly[0] if poly else 0}\ncase={case}', labels=labels)
        # the PRFs each party uses: exactly its (m-t)-subsets, equal outputs among the members of a subset
        for bound in (1000, p):
            maps = [sim._in_party(i, rt.prfs, bound) for i, rt in enumerate(sim.runtimes)]
            for i in range(m):
                want = {S for S in itertools.combinations(range(m), m - t) if i in S}
                if set(maps[i]) != want:
                    return Outcome(False, f'second session (threshold {t}): party {i} uses PRFs for subsets '
                                   f'{sorted(maps[i])[:4]}..., expected exactly its {len(want)} subsets of size {m - t}'
                                   f'\ncase={case}', labels=labels)
            for S in itertools.combinations(range(m), m - t):
                outs = {tuple(maps[i][S](b'c16', 2)) for i in S}
                if len(outs) != 1:
                    return Outcome(False, f'second session: members of {S} compute different PRF outputs (bound '
                                   f'{bound})\ncase={case}', labels=labels)
    subsets = list(itertools.combinations(range(m), m - t))
    keyof = {}
    for S in subsets:
        held = {i: bytes(keys[i][S]) for i in range(m) if S in keys[i]}
        for i in S:
            if i not in held:
                return Outcome(False, f'member {i} of subset {S} holds no key for it\ncase={case}', labels=labels)
        for i in held:
            if i not in S:
                return Outcome(False, f'party {i} holds a key for subset {S} it is not a member of\ncase={case}',
                               labels=labels)
        vals = set(held.values())
        if len(vals) != 1:
            return Outcome(False, f'members of subset {S} hold different keys: '
                           f'{ {i: k.hex() for i, k in held.items()} }\ncase={case}', labels=labels)
        k = vals.pop()
        if len(k) != 16:
            return Outcome(False, f'key for subset {S} has {len(k)} bytes', labels=labels)
        keyof[S] = k
    if len(set(keyof.values())) != len(subsets):
        return Outcome(False, f'two subsets share the same key\ncase={case}', labels=labels)
    for i in range(m):
        extra = set(keys[i]) - set(subsets)
        if extra:
            return Outcome(False, f'party {i} holds keys under unexpected subsets {sorted(extra)[:3]}', labels=labels)
        for S, k in keyof.items():
            if i not in S and any(bytes(v) == k for v in keys[i].values()):
                return Outcome(False, f'party {i} (not in {S}) holds the key of {S} under another subset', labels=labels)
    # every coalition of t parties lacks the key of its complement
    for C in itertools.combinations(range(m), t):
        S = tuple(i for i in range(m) if i not in C)
        for i in C:
            if any(bytes(v) == keyof[S] for v in keys[i].values()):
                return Outcome(False, f'coalition {C} knows the key of its complement {S}', labels=labels)
    # wire: a handshake i->j (i<j) = 2-byte pid + exactly the keys of subsets S with min(S)=i and j in S
    for i in range(m):
        for j in range(i + 1, m):
            hs, frames, tail = sim.frames(i, j)
            if int.from_bytes(hs[:2], 'little') != i:
                return Outcome(False, f'handshake {i}->{j} announces pid {int.from_bytes(hs[:2], "little")}', labels=labels)
            want = sorted(keyof[S] for S in subsets if S[0] == i and j in S)
            body = bytes(hs[2:])
            got = sorted(body[o:o + 16] for o in range(0, len(body), 16))   # any order of the keys is fine
            if got != want:
                return Outcome(False, f'handshake {i}->{j} carries {len(hs) - 2} key bytes that are not exactly the '
                               f'keys of the subsets led by {i} and containing {j}\ncase={case}', labels=labels)
    return None
