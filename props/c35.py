"""C35: barriers and shutdown wait for all started MPyC coroutines.

The set of MPyC coroutine tasks is recorded by a harness-side wrapper on asyncoro.Task.
  (a) when a top-level `await mpc.barrier()` returns (barriers enabled), every MPyC coroutine
      task that party started earlier is done;
  (b) when a party closes its first connection during shutdown, every MPyC coroutine task it
      ever started is done;
  (c) shutdown completes at every party (quiescence decides a hang), every connection is
      closed on both sides and deregistered, and outputs that the program started but never
      awaited are complete and correct after shutdown.
"""
from hypothesis import strategies as st
from vlib import progs
from vlib.observe import Observer
from vlib.runner import Outcome

ID = 'C35'
LEVEL = 'exploration'
RULE = ('generated (m>=2,t,PRSS,l) x integer programs with top-level barriers, mid-program awaits, user '
        'coroutines and outputs that are started but never awaited before shutdown x generated schedules '
        '(PCT starvation, random walks, chunkings); oracle = every recorded MPyC coroutine task of a party is '
        'done at each barrier return and at its first connection close, all parties finish shutdown, all '
        'connections closed and deregistered, outputs correct; non-trivial = a barrier or a connection close '
        'was reached while >= 3 coroutine tasks had been started and the program left outputs un-awaited or '
        'contains a barrier; distinct by case hash')
ASSUMPTIONS = ['MPyC coroutine tasks = tasks created through asyncoro.Task (the only place mpc_coro creates tasks)']


TIMEOUT_INCONCLUSIVE = True  # hangs are decided by quiescence in the simulator, not by the wall clock


def budget(tier):
    return dict(shards=16, examples=90 if tier == 'quick' else 400)


@st.composite
def _case(draw, tier):
    m, t, prss = draw(progs.config(min_m=1, max_m=5 if tier == 'quick' else 7))   # m=1 runs asynchronously too
    l = draw(st.sampled_from([4, 6, 8, 12]))
    nodes = draw(progs.int_program(m, l, max_nodes=6 if tier == 'quick' else 12, heavy=False, awaits=True,
                                   boom=draw(st.integers(0, 3)) == 0))
    if draw(st.booleans()):
        nodes = nodes + [['barrier']]  # a barrier while everything started so far may still be pending
    sched = draw(progs.schedule(m))
    if sched['mode'] in ('fast', 'rr') and draw(st.booleans()):
        sched = draw(progs.schedule(m))   # weight the adversarial schedules (starved parties, random walks)
    return dict(m=m, t=t, prss=prss, l=l, seed=draw(st.integers(0, 2**20)), nodes=nodes, sched=sched,
                out_mode=draw(st.sampled_from(['after_shutdown', 'after_shutdown', 'end'])),
                no_barrier=False,
                # one-sided pending work at shutdown: outputs that only one party receives
                receivers=draw(st.sampled_from([None, None, [0], [m - 1]])))


def strategy(tier):
    return _case(tier)


def run_case(case):
    if not progs.is_valid(case['nodes'], case['l']):
        return Outcome(True, skipped=True, nontrivial=False, labels=['invalid-program'])
    m = case['m']
    feats = progs.program_features(case['nodes'], m, case['t'])
    labels = [f'm={m}', f"t={case['t']}", 'sched=' + case['sched']['mode'], 'out=' + case['out_mode']] + feats['ops']
    holder = {'viol': [], 'events': 0, 'maxtasks': 0}

    def pending(pid):
        obs = holder['obs']
        holder['maxtasks'] = max(holder['maxtasks'], len(obs.tasks[pid]))
        return [(k, step, depth) for k, (tk, step, depth) in enumerate(obs.tasks[pid]) if not tk.done()]

    def on_value(pid, idx, v):
        if case['nodes'][idx][0] == 'barrier' and not case.get('no_barrier'):
            holder['events'] += 1
            p = pending(pid)
            if p:
                holder['viol'].append(f'party {pid}: barrier (node {idx}) returned while {len(p)} MPyC coroutine '
                                      f'task(s) started earlier are not done: (index, step started, depth) {p[:4]}')

    closed_once = set()

    def on_close(i, j):
        if i in closed_once:
            return
        closed_once.add(i)
        holder['events'] += 1
        p = pending(i)
        if p:
            holder['viol'].append(f'party {i}: closes its connection to {j} while {len(p)} MPyC coroutine task(s) '
                                  f'it started are not done: (index, step started, depth) {p[:4]}')

    def hook(sim):
        holder['obs'] = Observer(sim, deals=False, receives=False)
        sim.on_close = on_close

    try:
        sim, res, ref = progs.run_int_case(case, on_value=on_value, sim_hook=hook, out_mode=case['out_mode'],
                                           receivers=case.get('receivers'))
    finally:
        if 'obs' in holder:
            holder['obs'].close()
    if res.inconclusive:
        return Outcome(True, inconclusive=True, labels=labels, nontrivial=False)
    if holder['viol']:
        return Outcome(False, holder['viol'][0] + f'\ncase={case}', labels=labels)
    if not res.all_done:
        return Outcome(False, f'shutdown did not complete at every party: {res.describe()}\ncase={case}', labels=labels)
    for i, v in enumerate(res.values):
        if case.get('receivers') is not None and i not in case['receivers']:
            continue  # non-receivers obtain None
        msg = progs.compare(case['nodes'], ref, v['outs'])
        if msg:
            return Outcome(False, f'party {i}: {msg}\ncase={case}', labels=labels)
    for (i, j), tr in sim.transports.items():
        if not tr.closed or not tr.lost:
            return Outcome(False, f'connection {i}->{j} not closed after shutdown (closed={tr.closed}, '
                           f'connection_lost delivered={tr.lost})\ncase={case}', labels=labels)
    for i, rt in enumerate(sim.runtimes):
        for peer in rt.parties:
            if peer.pid != i and peer.protocol is not None:
                return Outcome(False, f'party {i}: connection to {peer.pid} still registered after shutdown',
                               labels=labels)
    has_barrier = any(nd[0] == 'barrier' for nd in case['nodes'])
    nt = holder['maxtasks'] >= 3 and (has_barrier or case['out_mode'] == 'after_shutdown')
    labels.append('barrier' if has_barrier else 'no-barrier')
    return Outcome(True, labels=labels, nontrivial=nt, n=max(1, holder['events']))
