"""C29: secure sorting and selection are correct for every input order.

Gen A (logic, no network): the REAL `Runtime._sort`, `Runtime.sorted`, `Runtime.if_swap`, `Runtime.if_else`,
`Runtime.min/max/min_max/argmin/argmax` are executed through a stub `self` on plain Python ints (the code is
data-oblivious and touches its elements only with `<`, `>=`, `*`, `+`, `-`):

* net01   every 0-1 vector of length n (cells of 2^12 vectors) through the real merge-exchange code on plain ints;
* lanes   the same code executed once on "lane" values (a partition of the 2^w vectors of a cell by current value,
          one big-int mask per value; every arithmetic/comparison operator is applied exactly per lane), which
          decides all 2^n 0-1 vectors for larger n; cross-checked against the plain-int run on the small n;
          the comparator sequence (index pairs read/written) is recorded and must not depend on the data
          (0-1 principle: a network of compare-exchange steps at data-independent positions sorts every input iff
          it sorts every 0-1 input);
* sel3    every vector over {0,1,2} of length n through min/max/min_max/argmin/argmax/sorted with keys
          (identity, negation, a % 2: ties between different elements) -- "first extreme" semantics;
* stub    generated integer vectors (n <= 64: permutations, duplicates, extremes) through the same functions.

Gen B (end-to-end): generated (m, t, PRSS) x SecInt/SecFxp x lists of length 0..17 (duplicates, extremes, sorted,
reversed), elements numbers or rows (lists) with key functions, `reverse`, `mpc.sorted` and `seclist.sort`,
`mpc.min/max/min_max/argmin/argmax` in list / varargs / iterator call forms, run in the in-process simulator
with inputs dealt by a generated sender.

Oracle: the output is a permutation of the input (multiset of elements) whose keys are ascending (descending
with reverse) -- the sort is documented as not stable, so ties may come in any order; min/max/min_max return
an input element whose key is extreme; argmin/argmax return the index of the FIRST element with extreme key and
that element; empty input raises ValueError like Python's min/max.

Known finding F29a: `min_max(x, key=...)` orders its pairs with `a >= b` on the elements, ignoring `key`.
"""
from hypothesis import strategies as st
from vlib.boot import boot
from vlib.runner import Outcome

boot(numpy=False)
from mpyc.runtime import Runtime  # noqa: E402
from vlib import sim as simmod, progs  # noqa: E402

ID = 'C29'
LEVEL = 'exploration'
RULE = ('(A) real _sort/if_swap code on plain ints through a stub self: ALL 2^n 0-1 vectors for n <= 16 (quick) / '
        '20 (thorough) in cells of 4096, and, executed on exact per-lane values, all 2^n 0-1 vectors for n <= 22 / 26 '
        '(0-1 principle; comparator positions recorded and checked to be data-independent), all vectors over '
        '{0,1,2} of length <= 7 / 9 through min/max/min_max/argmin/argmax/sorted with 3 keys, generated integer '
        'vectors up to length 64, all 0-1 vectors of weight <= 2 / 3 and >= n-2 / n-3 plus 160 / 1000 pseudo-random '
        'vectors of every other weight for every n up to 64; (B) every vector over {-1,0,1} of length <= 4 / 5 at '
        'm=1 and <= 3 / 4 at m=3,t=1 through both sort APIs, rows and all selection functions in the simulator; '
        'generated (m,t,PRSS), SecInt(l<=32)/SecFxp, lists of length 0..17 with '
        'duplicates/extremes/sorted/reversed, rows with key functions, reverse, mpc.sorted and seclist.sort, '
        'min/max/min_max/argmin/argmax (list, varargs, iterator forms) in the m-party simulator; oracle = '
        'permutation + monotone keys, extreme element, first extreme index; non-trivial = (A) vector not already '
        'sorted, (B) m>=3, t>=1 and an input of length >= 3 that is not already in output order; distinct by '
        'case hash / enumerated vector')
ASSUMPTIONS = ['sec_param k=30', 'keys are generated so that all pairwise key differences fit the bit length of the '
               'secure type (precondition of secure <)', 'fixed-point elements are non-integral-flagged inputs '
               '(integrality flags of list operations are C03)',
               'Gen A: the stub executes the unmodified function objects of mpyc.runtime.Runtime on Python ints; '
               'soundness of the 0-1 argument rests on the recorded comparator positions being data-independent']
CASE_TIMEOUT = 300
EXHAUSTIVE_ONLY = False


def budget(tier):
    return dict(shards=16, examples=75 if tier == 'quick' else 1200)


# ------------------------------------------------------------------------------------------ stub runtime
class HarnessError(Exception):
    pass


class _Stub:
    """`self` for the real Runtime methods when the elements are plain numbers (or lane values)."""
    SecureFixedPoint = ()   # isinstance(c, ()) is False: conditions are never fixed-point objects here
    SecureObject = ()
    _sort = Runtime._sort
    sorted = Runtime.sorted
    if_swap = Runtime.if_swap
    if_else = Runtime.if_else
    min = Runtime.min
    max = Runtime.max
    min_max = Runtime.min_max
    argmin = Runtime.argmin
    _argmin = Runtime._argmin
    argmax = Runtime.argmax
    _argmax = Runtime._argmax

    def __getattr__(self, name):  # the code under test started to use more of the runtime: extend the stub
        raise HarnessError(f'stub runtime lacks Runtime.{name}: Gen A of C29 must be extended')


class _RecList(list):
    """List that records the index of every element read and written (comparator positions)."""

    def __init__(self, it):
        super().__init__(it)
        self.trace = []

    def __getitem__(self, i):
        self.trace.append(i if not isinstance(i, slice) else ('s', i.start, i.stop, i.step))
        return super().__getitem__(i)

    def __setitem__(self, i, v):
        self.trace.append(-1 - i if not isinstance(i, slice) else ('S', i.start, i.stop, i.step))
        super().__setitem__(i, v)


KEYS = {'id': None, 'neg': lambda a: -a, 'mod2': lambda a: a % 2, 'sq': lambda a: a * a,
        'row0': lambda r: r[0], 'row1neg': lambda r: -r[1], 'rowsum': lambda r: r[0] + r[1]}


def _keyval(key, e):
    """Reference key (independent of the lambdas above)."""
    if key == 'id':
        return e
    if key == 'neg':
        return -e
    if key == 'mod2':
        return e % 2
    if key == 'sq':
        return e * e
    if key == 'row0':
        return e[0]
    if key == 'row1neg':
        return -e[1]
    if key == 'rowsum':
        return e[0] + e[1]
    raise KeyError(key)


def _freeze(e):
    return tuple(e) if isinstance(e, list) else e


def _check_sorted(xs, key, reverse, got):
    if not isinstance(got, list) or sorted(map(_freeze, got)) != sorted(map(_freeze, xs)):
        return f'output {got} is not a permutation of the input {xs}'
    ks = [_keyval(key, e) for e in got]
    if any((a < b) if reverse else (a > b) for a, b in zip(ks, ks[1:])):
        return f'output {got} is not in {"descending" if reverse else "ascending"} key order (keys {ks})'
    return None


def _check_sel(op, xs, key, got):
    """min/max/min_max/argmin/argmax oracle; got is the opened result (ValueError -> ['EXC','ValueError',..])."""
    if not xs:
        if isinstance(got, list) and got[:2] == ['EXC', 'ValueError']:
            return None
        return f'{op}([]) should raise ValueError like the built-in, got {got}'
    ks = [_keyval(key, e) for e in xs]
    lo, hi = min(ks), max(ks)

    def is_ext(e, k):
        return any(_freeze(e) == _freeze(x) and kx == k for x, kx in zip(xs, ks))
    if op == 'min':
        return None if is_ext(got, lo) else f'min {got} is not an input element with minimal key {lo} ({xs})'
    if op == 'max':
        return None if is_ext(got, hi) else f'max {got} is not an input element with maximal key {hi} ({xs})'
    if op == 'min_max':
        if not isinstance(got, list) or len(got) != 2:
            return f'min_max returned {got}'
        if not is_ext(got[0], lo) or not is_ext(got[1], hi):
            return f'min_max {got}: expected elements with keys {lo} and {hi} of {xs}'
        return None
    ext = lo if op == 'argmin' else hi
    exp = [ks.index(ext), xs[ks.index(ext)]]
    return None if got == exp else f'{op} returned {got}, expected first extreme {exp} for {xs} (keys {ks})'


def _stub_call(op, xs, key, reverse=False, form='list'):
    """Run the real code on plain numbers through the stub; result normalised like an opened result."""
    s = _Stub()
    kf = KEYS[key]
    try:
        if op == 'sorted':
            return s.sorted(list(xs), key=kf, reverse=reverse)
        f = getattr(s, op)
        if form == 'args' and len(xs) >= 2:
            r = f(*xs, key=kf)
        elif form == 'iter':
            r = f(iter(list(xs)), key=kf)
        else:
            r = f(list(xs), key=kf)
        return list(r) if isinstance(r, tuple) else r
    except ValueError as exc:
        return ['EXC', 'ValueError', str(exc)]


# ------------------------------------------------------------------------------------------ lane values
class Oblivious(Exception):
    """The code branched on a value that depends on the data (not an oblivious network)."""


class Lanes:
    """A vector of integers, one per lane, stored as {value: bitmask of the lanes holding it}."""
    __slots__ = ('d',)

    def __init__(self, d):
        self.d = {v: m for v, m in d.items() if m}

    def _bin(self, other, op):
        out = {}
        if isinstance(other, Lanes):
            for va, ma in self.d.items():
                for vb, mb in other.d.items():
                    mk = ma & mb
                    if mk:
                        v = op(va, vb)
                        out[v] = out.get(v, 0) | mk
        elif isinstance(other, (int, bool)):
            for va, ma in self.d.items():
                v = op(va, int(other))
                out[v] = out.get(v, 0) | ma
        else:
            return NotImplemented
        return Lanes(out)

    def __add__(self, o): return self._bin(o, lambda a, b: a + b)
    def __radd__(self, o): return self._bin(o, lambda a, b: b + a)
    def __sub__(self, o): return self._bin(o, lambda a, b: a - b)
    def __rsub__(self, o): return self._bin(o, lambda a, b: b - a)
    def __mul__(self, o): return self._bin(o, lambda a, b: a * b)
    def __rmul__(self, o): return self._bin(o, lambda a, b: b * a)
    def __neg__(self): return Lanes({-v: m for v, m in self.d.items()})
    def __lt__(self, o): return self._bin(o, lambda a, b: int(a < b))
    def __le__(self, o): return self._bin(o, lambda a, b: int(a <= b))
    def __gt__(self, o): return self._bin(o, lambda a, b: int(a > b))
    def __ge__(self, o): return self._bin(o, lambda a, b: int(a >= b))
    def __eq__(self, o): return self._bin(o, lambda a, b: int(a == b))
    def __ne__(self, o): return self._bin(o, lambda a, b: int(a != b))
    __hash__ = None

    def __bool__(self):
        raise Oblivious('truth value of a data-dependent value requested')


def _plane(j, w):
    """Mask over 2^w lanes: lane v has bit j of v."""
    full = (1 << (1 << w)) - 1
    blk = 1 << j
    return full // ((1 << (2 * blk)) - 1) * (((1 << blk) - 1) << blk)


def _lanes_inputs(n, w, prefix):
    """Lane v (0 <= v < 2^w) holds the 0-1 vector whose positions 0..w-1 are the bits of v and whose positions
    w..n-1 are the bits of `prefix`."""
    full = (1 << (1 << w)) - 1
    xs, masks = [], []
    for j in range(n):
        m1 = _plane(j, w) if j < w else (full if (prefix >> (j - w)) & 1 else 0)
        masks.append(m1)
        xs.append(Lanes({1: m1, 0: full ^ m1}))
    return full, xs, masks


def _popcount_classes(masks, full):
    """P[k] = lanes whose vector has exactly k ones (independent DP over the input planes)."""
    P = [full]
    for m1 in masks:
        m0 = full ^ m1
        Q = [0] * (len(P) + 1)
        for k, pk in enumerate(P):
            Q[k] |= pk & m0
            Q[k + 1] |= pk & m1
        P = Q
    return P


def _trace_of(n):
    """Comparator positions touched by the real _sort on an input of length n (plain ints 0..n-1 reversed)."""
    out = {}
    for name, vec in (('rev', list(range(n, 0, -1))), ('zero', [0] * n), ('asc', list(range(n)))):
        x = _RecList(vec)
        _Stub()._sort(x, lambda a: a)
        out[name] = x.trace
    return out


def _run_lanes(n, w, prefix):
    """-> (message or None, number of vectors, number of unsorted vectors)."""
    full, xs, masks = _lanes_inputs(n, w, prefix)
    x = _RecList(xs)
    try:
        _Stub()._sort(x, lambda a: a)
    except Oblivious as exc:
        return f'n={n}: the sort code branches on data ({exc}): not an oblivious network', 1 << w, 0
    tr = _trace_of(n)
    if not (x.trace == tr['rev'] == tr['zero'] == tr['asc']):
        return f'n={n}: positions compared/exchanged depend on the data', 1 << w, 0
    P = _popcount_classes(masks, full)
    acc = 0
    unsorted_in = 0
    for i in range(n):  # expected: position i holds 1 iff popcount >= n - i
        acc |= P[n - i]
        exp = {v: m for v, m in ((1, acc), (0, full ^ acc)) if m}
        got = list(x)[i]
        if not isinstance(got, Lanes) or got.d != exp:
            bad = _first_bad_lane(got, exp, full)
            vec = [(bad >> j) & 1 if j < w else (prefix >> (j - w)) & 1 for j in range(n)]
            plain = _plain_sort(vec)
            if plain == sorted(vec):
                raise HarnessError(f'lane execution rejects {vec} at position {i} but the plain run sorts it')
            return (f'n={n}: 0-1 vector {vec} is not sorted by the network: output position {i} is wrong '
                    f'(plain run gives {plain})'), 1 << w, 0
    # vectors that were not sorted already: some 1 before a 0
    seen1 = 0
    for j in range(n):
        unsorted_in |= seen1 & (full ^ masks[j])
        seen1 |= masks[j]
    return None, 1 << w, bin(unsorted_in).count('1')


def _first_bad_lane(got, exp, full):
    if not isinstance(got, Lanes):
        return 0
    diff = 0
    for v in set(got.d) | set(exp):
        diff |= got.d.get(v, 0) ^ exp.get(v, 0)
    diff &= full
    return (diff & -diff).bit_length() - 1 if diff else 0


def _plain_sort(vec):
    x = list(vec)
    _Stub()._sort(x, lambda a: a)
    return x


def _run_net01(n, lo, hi):
    stub = _Stub()
    key = lambda a: a  # noqa: E731
    nt = 0
    for v in range(lo, hi):
        vec = [(v >> j) & 1 for j in range(n)]
        x = list(vec)
        stub._sort(x, key)
        k = sum(vec)
        if x != [0] * (n - k) + [1] * k:
            return f'n={n}: 0-1 vector {vec} -> {x} (real _sort/if_swap code on plain ints)', hi - lo, nt
        nt += vec != x
    return None, hi - lo, nt


# ------------------------------------------------------------------------------------------ exhaustive cells
def enumerate_cases(tier):
    quick = tier == 'quick'
    for n in range(2, (16 if quick else 20) + 1):
        size = 1 << min(n, 12)
        for lo in range(0, 1 << n, size):
            yield {'mode': 'net01', 'n': n, 'lo': lo, 'hi': lo + size}
    for n in range(2, (22 if quick else 26) + 1):
        w = min(n, 16)
        for prefix in range(1 << (n - w)):
            yield {'mode': 'lanes', 'n': n, 'w': w, 'prefix': prefix}
    for n in range(27 if not quick else 23, 65):  # beyond the exhaustive range: structured + pseudo-random lanes
        yield {'mode': 'lanes_sample', 'n': n, 'kmax': 2 if quick else 3, 'per': 160 if quick else 1000}
    for n in range(0, (7 if quick else 9) + 1):
        for key in ('id', 'neg', 'mod2'):
            chunk = 3 ** min(n, 6)
            for lo in range(0, 3 ** n, chunk):
                yield {'mode': 'sel3', 'n': n, 'key': key, 'lo': lo, 'hi': lo + chunk}
    yield {'mode': 'sel3_f29a'}
    # end-to-end, enumerated: every vector over {0,1,2} of length <= 4 (3 with m=3) through both sort APIs and all
    # selection functions in the simulator
    for m, t, nmax in ((1, 0, 4 if quick else 5), (3, 1, 3 if quick else 4)):
        for n in range(0, nmax + 1):
            chunk = 27
            for lo in range(0, 3 ** n, chunk):
                for grp in ('sort', 'sel'):
                    yield {'mode': 'e2e3', 'm': m, 't': t, 'n': n, 'lo': lo, 'hi': min(3 ** n, lo + chunk), 'grp': grp}


SEL_OPS = ['min', 'max', 'min_max', 'argmin', 'argmax']


def _run_sel3(n, key, lo, hi):
    cnt = nt = 0
    for v in range(lo, hi):
        xs, r = [], v
        for _ in range(n):
            xs.append(r % 3)
            r //= 3
        for op in SEL_OPS:
            if op == 'min_max' and key != 'id':
                continue  # F29a class: own cell
            for form in ('list', 'args', 'iter'):
                got = _stub_call(op, xs, key, form=form)
                msg = _check_sel(op, xs, key, got)
                cnt += 1
                if msg:
                    return f'{op}({xs}, key={key}, form={form}): {msg}', cnt, nt
        for reverse in (False, True):
            got = _stub_call('sorted', xs, key, reverse)
            msg = _check_sorted(xs, key, reverse, got)
            cnt += 1
            if msg:
                return f'sorted({xs}, key={key}, reverse={reverse}): {msg}', cnt, nt
        nt += len(set(xs)) > 1
    return None, cnt, nt


def _sample_vectors(n, kmax, per):
    """Structured 0-1 vectors for n beyond the exhaustive range, as (set of positions, flag): the positions hold 1
    (flag False) or 0 (flag True, all other positions hold 1).  Every vector of weight <= kmax and >= n - kmax
    (a comparator of the last rounds only matters for inputs whose number of ones puts the 0/1 boundary next to
    it, so every weight must occur) and `per` pseudo-random vectors of every other weight (xorshift + partial
    Fisher-Yates: deterministic, independent of anything under test)."""
    import itertools
    vecs = []
    for k in range(kmax + 1):
        for c in itertools.combinations(range(n), k):
            vecs.append((c, False))
            vecs.append((c, True))
    state = 0x9E3779B97F4A7C15 ^ (n * 0x100000001B3)
    for k in range(kmax + 1, n - kmax):
        kk = min(k, n - k)
        for _ in range(per):
            pos = list(range(n))
            for i in range(kk):
                state ^= (state << 13) & 0xFFFFFFFFFFFFFFFF
                state ^= state >> 7
                state ^= (state << 17) & 0xFFFFFFFFFFFFFFFF
                r = i + state % (n - i)
                pos[i], pos[r] = pos[r], pos[i]
            vecs.append((tuple(pos[:kk]), kk != k))
    return vecs


def _run_lanes_sample(n, kmax=2, per=160):
    """n beyond the exhaustive range: one lane per structured / pseudo-random 0-1 vector."""
    vecs = _sample_vectors(n, kmax, per)
    nl = len(vecs)
    full = (1 << nl) - 1
    ones = [0] * n    # lanes listing their 1-positions
    zeros = [0] * n   # lanes listing their 0-positions
    compl = 0
    for lane, (pos, flag) in enumerate(vecs):
        bit = 1 << lane
        tgt = zeros if flag else ones
        if flag:
            compl |= bit
        for j in pos:
            tgt[j] |= bit
    masks = [ones[j] | (compl & ~zeros[j]) for j in range(n)]

    def vec_of(lane):
        pos, flag = vecs[lane]
        return [int((j in pos) != flag) for j in range(n)]
    for lane in (0, 1, nl // 3, nl // 2, nl - 2, nl - 1):  # harness self-check of the transposition
        if vec_of(lane) != [(masks[j] >> lane) & 1 for j in range(n)]:
            raise HarnessError('lane masks do not match the sample vectors')
    x = _RecList([Lanes({1: m1, 0: full ^ m1}) for m1 in masks])
    try:
        _Stub()._sort(x, lambda a: a)
    except Oblivious as exc:
        return f'n={n}: the sort code branches on data ({exc})', nl, 0
    tr = _trace_of(n)
    if not (x.trace == tr['rev'] == tr['zero'] == tr['asc']):
        return f'n={n}: positions compared/exchanged depend on the data', nl, 0
    P = _popcount_classes(masks, full)
    acc = 0
    for i in range(n):
        acc |= P[n - i]
        exp = {v: m for v, m in ((1, acc), (0, full ^ acc)) if m}
        got = list(x)[i]
        if not isinstance(got, Lanes) or got.d != exp:
            vec = vec_of(_first_bad_lane(got, exp, full))
            plain = _plain_sort(vec)
            if plain == sorted(vec):
                raise HarnessError(f'lane execution rejects {vec} at position {i} but the plain run sorts it')
            return f'n={n}: 0-1 vector {vec} is not sorted: plain run gives {plain}', nl, 0
    unsorted_in = seen1 = 0
    for j in range(n):
        unsorted_in |= seen1 & (full ^ masks[j])
        seen1 |= masks[j]
    return None, nl, bin(unsorted_in).count('1')


# ------------------------------------------------------------------------------------------ generated cases
@st.composite
def _int_vec(draw, n, lo, hi):
    """n integers in [lo, hi]: duplicates, extremes, sorted, reversed, permutations weighted."""
    cat = draw(st.sampled_from(['rand', 'rand', 'dups', 'dups', 'perm', 'sorted', 'reversed', 'ext', 'const', 'two',
                                'fewoff']))
    if cat == 'perm':
        base = draw(st.integers(lo, max(lo, hi - n + 1)))
        vals = [min(hi, base + i) for i in range(n)]
        return draw(st.permutations(vals)) if n else []
    if cat == 'const':
        return [draw(st.integers(lo, hi))] * n
    if cat == 'two':
        a, b = draw(st.integers(lo, hi)), draw(st.integers(lo, hi))
        return [draw(st.sampled_from([a, b])) for _ in range(n)]
    if cat == 'fewoff':  # constant except at 1-2 positions (0-1 like inputs of extreme weight)
        a, b = draw(st.integers(lo, hi)), draw(st.integers(lo, hi))
        v = [a] * n
        for _ in range(draw(st.integers(1, 2)) if n else 0):
            v[draw(st.integers(0, n - 1))] = b
        return v
    if cat == 'dups':
        pool = draw(st.lists(st.integers(lo, hi), min_size=1, max_size=4))
        return [draw(st.sampled_from(pool)) for _ in range(n)]
    if cat == 'ext':
        pool = [lo, hi, lo + 1 if lo < hi else lo, hi - 1 if lo < hi else hi, (lo + hi) // 2]
        return [draw(st.sampled_from(pool)) for _ in range(n)]
    v = [draw(st.integers(lo, hi)) for _ in range(n)]
    if cat == 'sorted':
        v.sort()
    if cat == 'reversed':
        v.sort(reverse=True)
    return v


@st.composite
def _stub_case(draw, tier):
    n = draw(st.sampled_from([0, 1, 2, 3, 5, 7, 8, 9, 15, 16, 17, 24, 31, 32, 33, 48, 63, 64] +
                             [draw(st.integers(0, 64))]))
    big = draw(st.booleans())
    lo, hi = (-(1 << 62), (1 << 62)) if big else (-5, 5)
    xs = draw(_int_vec(n, lo, hi))
    return {'mode': 'stub', 'xs': xs, 'key': draw(st.sampled_from(['id', 'id', 'neg', 'mod2', 'sq'])),
            'reverse': draw(st.booleans()), 'form': draw(st.sampled_from(['list', 'args', 'iter'])),
            'mmkey': draw(st.integers(0, 7)) == 0}  # min_max WITH the key (F29a class) only rarely


L_CHOICES = [4, 6, 8, 8, 16, 32]
FXP_CHOICES = [[12, 4], [16, 8], [32, 16]]


@st.composite
def _e2e_case(draw, tier):
    m, t, prss = draw(progs.config())
    if draw(st.integers(0, 4)) == 0:
        l, f = draw(st.sampled_from(FXP_CHOICES))
        ts = {'kind': 'fxp', 'l': l, 'f': f}
    else:
        l = draw(st.sampled_from(L_CHOICES))
        ts = {'kind': 'int', 'l': l}
    nmax = 17 if m <= 3 else 12 if m <= 5 else 8
    if ts['l'] >= 32:
        nmax = min(nmax, 9)
    nops = draw(st.integers(1, 2))
    ops = []
    for _ in range(nops):
        opn = draw(st.sampled_from(['sorted', 'sorted', 'sorted', 'min', 'max', 'min_max', 'argmin', 'argmax']))
        n = draw(st.sampled_from([0, 1, 2, 2, 3, 3, 4, 5, 6, 7, 8, 9, 11, 12, 13, 15, 16, 17]))
        n = min(n, nmax if opn == 'sorted' else 17)
        rows = draw(st.integers(0, 3)) == 0
        if rows:
            key = draw(st.sampled_from(['row0', 'row1neg', 'rowsum']))
        else:
            key = draw(st.sampled_from(['id', 'id', 'neg'] + (['sq'] if ts['kind'] == 'int' else [])))
        if opn == 'min_max' and key != 'id' and draw(st.integers(0, 5)) > 0:
            key, rows = 'id', False  # F29a class (min_max with a key) is kept rare
        # value window: all pairwise key differences must fit in l bits (signed)
        half = 1 << (ts['l'] - 2)
        if key == 'sq':
            b = 1
            while (b + 1) * (b + 1) < half:
                b += 1
            lo, hi = -b, b
        elif key == 'rowsum':
            lo, hi = -(half // 2), half // 2 - 1
        else:
            shift = draw(st.sampled_from([0, 0, -half, half]))
            lo, hi = -half + shift, half - 1 + shift
        if rows:
            c0 = draw(_int_vec(n, lo, hi))
            c1 = draw(_int_vec(n, lo, hi))
            xs = [[a, b] for a, b in zip(c0, c1)]
            if draw(st.booleans()):  # rows of width 3: a payload column (original position)
                xs = [r + [i] for i, r in enumerate(xs)]
        else:
            xs = draw(_int_vec(n, lo, hi))
        if opn == 'sorted':
            api = 'mpc' if rows else draw(st.sampled_from(['mpc', 'seclist']))
            ops.append(['sorted', xs, key, draw(st.booleans()), api])
        else:
            ops.append([opn, xs, key, draw(st.sampled_from(['list', 'list', 'args', 'iter']))])
    return {'mode': 'e2e', 'm': m, 't': t, 'prss': prss, 'seed': draw(st.integers(0, 2**20)),
            'sender': draw(st.integers(0, m - 1)), 'type': ts, 'ops': ops}


def strategy(tier):
    return st.one_of(_stub_case(tier), _stub_case(tier), _e2e_case(tier))


# ------------------------------------------------------------------------------------------ end-to-end
def _is_f29a(op):
    return op[0] == 'min_max' and op[2] != 'id'


def _mk_type(mpc, ts):
    return mpc.SecInt(ts['l']) if ts['kind'] == 'int' else mpc.SecFxp(ts['l'], ts['f'])


def _run_e2e(case):
    ts, ops, m = case['type'], case['ops'], case['m']
    f = ts.get('f', 0)

    async def prog(mpc, pid):
        from mpyc.seclists import seclist
        st_ = _mk_type(mpc, ts)

        def sec(v, mine):
            if ts['kind'] == 'fxp':
                return st_(v / (1 << f) if mine else None, integral=False)
            return st_(v if mine else None)

        async def opened(r):
            if isinstance(r, (list, tuple)):
                return [await opened(e) for e in r]
            if isinstance(r, (int, float)):
                return ['PLAIN', r]
            if ts['kind'] == 'fxp':
                return int(await mpc.output(r, raw=True))
            return int(await mpc.output(r))

        outs = []
        for j, op in enumerate(ops):
            sender = (case['sender'] + j) % m
            mine = pid == sender
            xs = op[1]
            rows = bool(xs) and isinstance(xs[0], list)
            flat = [v for e in xs for v in (e if rows else [e])]
            shared = mpc.input([sec(v, mine) for v in flat], senders=sender) if flat else []
            w = len(xs[0]) if rows else 1
            x = [shared[w * i:w * i + w] for i in range(len(xs))] if rows else shared
            kf = KEYS[op[2]]
            try:
                if op[0] == 'sorted':
                    _, _, _, reverse, api = op
                    if api == 'seclist':
                        s = seclist(x, st_)
                        s.sort(key=kf, reverse=reverse)
                        r = list(s)
                    else:
                        r = mpc.sorted(x, key=kf, reverse=reverse)
                else:
                    fn = getattr(mpc, op[0])
                    form = op[3]
                    if form == 'args' and len(x) >= 2:
                        r = fn(*x, key=kf)
                    elif form == 'iter':
                        r = fn(iter(list(x)), key=kf)
                    else:
                        r = fn(x, key=kf)
            except Exception as exc:
                import traceback
                outs.append(['EXC', type(exc).__name__, traceback.format_exc()[-700:]])
                continue
            outs.append(await opened(r))
        return outs

    sim = simmod.Sim(m, case['t'], prss=case['prss'], seed=case['seed'],
                     schedule=case.get('sched') or {'mode': 'fast'}, sec_param=30)
    try:
        return sim.run_programs(prog)
    finally:
        sim.close()


def _e2e3_case(case):
    """Expand an enumerated end-to-end cell into an ordinary e2e case (deterministic)."""
    n, ops = case['n'], []
    for v in range(case['lo'], case['hi']):
        xs, r = [], v
        for _ in range(n):
            xs.append(r % 3 - 1)
            r //= 3
        if case['grp'] == 'sort':
            for api in ('mpc', 'seclist'):
                for key in ('id', 'neg'):
                    for reverse in (False, True):
                        ops.append(['sorted', xs, key, reverse, api])
            rows = [[a, i] for i, a in enumerate(xs)]
            ops.append(['sorted', rows, 'row0', False, 'mpc'])
            ops.append(['sorted', rows, 'row1neg', True, 'mpc'])
        else:
            for i, op in enumerate(SEL_OPS):
                for key in ('id', 'neg'):
                    if op == 'min_max' and key != 'id':
                        continue  # F29a class
                    ops.append([op, xs, key, ('list', 'args', 'iter')[(v + i) % 3]])
            rows = [[a, i, 1 - a] for i, a in enumerate(xs)]
            ops.append(['argmin', rows, 'row0', 'list'])
            ops.append(['argmax', rows, 'row0', 'list'])
            ops.append(['min', rows, 'row0', 'list'])
    return {'mode': 'e2e', 'm': case['m'], 't': case['t'], 'prss': (case['lo'] // 27 + n) % 2 == 0, 'seed': n,
            'sender': n % case['m'], 'type': {'kind': 'int', 'l': 8}, 'ops': ops}


def _descale_index(ts, got, op):
    """argmin/argmax on fixed point return the index as a fixed-point number: raw value = index << f."""
    if ts['kind'] == 'fxp' and op in ('argmin', 'argmax') and isinstance(got, list) and len(got) == 2 \
            and isinstance(got[0], int):
        f = ts['f']
        if got[0] % (1 << f) == 0:
            return [got[0] >> f, got[1]]
    return got


# ------------------------------------------------------------------------------------------ run_case
def run_case(case):
    mode = case['mode']
    try:
        if mode == 'net01':
            msg, n, nt = _run_net01(case['n'], case['lo'], case['hi'])
            return _cell(msg, n, nt, ['net01'], case)
        if mode == 'lanes':
            msg, n, nt = _run_lanes(case['n'], case['w'], case['prefix'])
            if msg is None and case['n'] <= 10:  # harness self-check: lanes agree with the plain-int run
                m2, _, _ = _run_net01(case['n'], 0, 1 << case['n'])
                if m2 is not None:
                    raise HarnessError(f'lane execution accepted n={case["n"]} but the plain run fails: {m2}')
            return _cell(msg, n, nt, ['lanes'], case)
        if mode == 'lanes_sample':
            msg, n, nt = _run_lanes_sample(case['n'], case.get('kmax', 2), case.get('per', 160))
            out = _cell(msg, n, nt, ['lanes_sample'], case)
            out.exhaustive = False
            return out
        if mode == 'sel3':
            msg, n, nt = _run_sel3(case['n'], case['key'], case['lo'], min(case['hi'], 3 ** case['n']))
            return _cell(msg, n, nt, ['sel3:' + case['key']], case)
        if mode == 'sel3_f29a':
            return _run_f29a_cell(case)
        if mode == 'e2e3':
            out = _run_e2e_case(_e2e3_case(case), cell=True)
            return out
        if mode == 'stub':
            return _run_stub(case)
        return _run_e2e_case(case)
    except HarnessError:
        raise
    except Exception:
        import traceback
        return Outcome(False, f'exception on valid input: {traceback.format_exc()[-2500:]}\ncase={_short(case)}',
                       labels=[mode])


def _cell(msg, n, nt, labels, case):
    if msg:
        return Outcome(False, f'{msg}\ncase={case}', labels=labels)
    return Outcome(True, labels=labels, n=n, n_nt=nt, exhaustive=True)


def _run_f29a_cell(case):
    """min_max with a key on plain ints (stub): the F29a class, all vectors over {0,1,2} up to length 5."""
    cnt = 0
    for n in range(0, 6):
        for v in range(3 ** n):
            xs, r = [], v
            for _ in range(n):
                xs.append(r % 3)
                r //= 3
            for key in ('neg', 'mod2'):
                got = _stub_call('min_max', xs, key)
                msg = _check_sel('min_max', xs, key, got)
                cnt += 1
                if msg:
                    return Outcome(False, f'min_max({xs}, key={key}) [real code on plain ints]: {msg}',
                                   labels=['sel3_f29a', 'known:F29a'], known='F29a')
    return Outcome(True, labels=['sel3_f29a', 'known-class-now-passing'], n=cnt, n_nt=cnt, exhaustive=True)


def _run_stub(case):
    xs, key = case['xs'], case['key']
    labels = ['stub', f'key={key}', 'n=' + ('0' if not xs else '1' if len(xs) == 1 else '2-8' if len(xs) <= 8
                                            else '9-17' if len(xs) <= 17 else '18-64')]
    got = _stub_call('sorted', xs, key, case['reverse'])
    msg = _check_sorted(xs, key, case['reverse'], got)
    if msg:
        return Outcome(False, f'sorted via real code on plain ints: {msg}\ncase={_short(case)}', labels=labels)
    if len(xs) >= 2:  # comparator positions do not depend on the data
        x = _RecList(xs)
        _Stub()._sort(x, lambda a: a)
        if x.trace != _trace_of(len(xs))['zero']:
            return Outcome(False, f'positions compared/exchanged depend on the data\ncase={_short(case)}', labels=labels)
    known = None
    for op in SEL_OPS:
        k_op = key if (op != 'min_max' or case.get('mmkey', True)) else 'id'
        got = _stub_call(op, xs, k_op, form=case['form'])
        msg = _check_sel(op, xs, k_op, got)
        if msg:
            if op == 'min_max' and k_op != 'id':
                known = ('F29a', f'{op} via real code on plain ints: {msg}')
                continue
            return Outcome(False, f'{op} via real code on plain ints: {msg}\ncase={_short(case)}', labels=labels)
    if known:
        return Outcome(False, f'{known[1]}\ncase={_short(case)}', labels=labels + ['known:F29a'], known='F29a')
    ks = [_keyval(key, e) for e in xs]
    return Outcome(True, labels=labels, nontrivial=len(xs) >= 3 and ks != sorted(ks, reverse=case['reverse']))


def _run_e2e_case(case, cell=False):
    ts, ops = case['type'], case['ops']
    labels = ['e2e3' if cell else 'e2e', f"m={case['m']}", f"t={case['t']}", f"prss={case['prss']}",
              f"type={ts['kind']}{ts['l']}"]
    res = _run_e2e(case)
    if res.inconclusive:
        return Outcome(True, inconclusive=True, nontrivial=False, labels=labels)
    in_class = [op for op in ops if _is_f29a(op)]
    if not res.all_done:
        return Outcome(False, f'run did not complete: {res.describe()}\n{res.errors[:1]}\ncase={_short(case)}',
                       labels=labels, known='F29a' if in_class else None)
    nt = False
    fails = []
    n_nt = 0
    for j, op in enumerate(ops):
        xs, key = op[1], op[2]
        rows = bool(xs) and isinstance(xs[0], list)
        if not cell:
            labels += [f'op={op[0]}', f'key={key}', f'n={len(xs)}'] + (['rows'] if rows else []) + \
                      ([f'api={op[4]}', f'reverse={op[3]}'] if op[0] == 'sorted' else [f'form={op[3]}'])
        msg = None
        for pid, v in enumerate(res.values):
            got = v[j]
            if op[0] == 'sorted':
                if isinstance(got, list) and got[:1] == ['EXC']:
                    msg = f'exception on valid input: {got[1]}: {got[2]}'
                else:
                    msg = _check_sorted(xs, key, op[3], got)
            else:
                if isinstance(got, list) and got[:1] == ['EXC'] and (xs or got[1] != 'ValueError'):
                    msg = f'exception on valid input: {got[1]}: {got[2]}'
                else:
                    msg = _check_sel(op[0], xs, key, _descale_index(ts, got, op[0]))
            if msg:
                msg = f'party {pid}: op {j} {op[0]}(key={key}) on {ts}: {msg}'
                break
        if msg:
            fails.append(('F29a' if _is_f29a(op) else None, msg))
        ks = [_keyval(key, e) for e in xs]
        if len(xs) >= 3 and ks != sorted(ks, reverse=bool(op[0] == 'sorted' and op[3])):
            nt = True
            n_nt += 1
    for cls, msg in fails:
        if cls is None:
            return Outcome(False, f'{msg}\ncase={_short(case)}', labels=labels)
    if fails:
        return Outcome(False, f'{fails[0][1]}\ncase={_short(case)}', labels=labels + ['known:F29a'], known='F29a')
    if in_class:
        labels.append('F29a-class-passing')
    if cell:
        return Outcome(True, labels=labels, n=len(ops), n_nt=n_nt, exhaustive=True)
    return Outcome(True, labels=labels, nontrivial=nt and case['m'] >= 3 and case['t'] >= 1)


def _short(case):
    s = str(case)
    return s if len(s) < 3000 else s[:3000] + '...'
