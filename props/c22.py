"""C22: field elements survive serialisation.

Three clauses of the statement, each with its own oracle:

* bytes: `F.from_bytes(F.to_bytes(values))` returns the integers representing the original values (the
  values themselves for prime fields; the base-p digit integer of the polynomial for extension/binary
  fields), for the list form and the flattened-ndarray form callers use, for every list length incl. 0;
  `F(decoded)` gives back the elements.
* pickle: `loads(dumps(e, protocol))` is an equal element whose type *is* the field type (also for fields
  created from a `(p, n, w)` triple and for sibling fields that share a name), same for lists of elements
  and for arrays of every shape.
* integer views: `signed_() = unsigned_() = value (mod p)`, `0 <= unsigned_() < p`, `|signed_()| <= p//2`,
  `int()` follows `is_signed`, array views equal element views; extension fields: `0 <= int(e) < q`,
  `int(e)` is the base-p digit value of the coefficients and `F(int(e)) == e`.
"""
import pickle
from hypothesis import strategies as st
from vlib.boot import boot
from vlib.runner import Outcome
from vlib import fields as FS, refmath as R

ID = 'C22'
LEVEL = 'exploration'
RULE = ('fields: GF(p) for small/medium/large primes incl. primes just below/above 2^(8k) (k=1..8,16,32,65), '
        'GF(p) created from (p,n,w) root triples, GF(2^n) (n<=17 and 32/64/128, n around 8 and 16 weighted), odd '
        'extension fields incl. orders just above 256; element lists of length 0..200 weighted towards '
        '0, 1, q-1, q//2, q//2+1 and 2^(8k)-1, 2^(8k); every element of every field of order <= 300 '
        'exhaustively; oracle = round-trip equality, type identity, congruence/range of the views; '
        'non-trivial = list contains an element > 1; distinct by case hash / enumerated element')
ASSUMPTIONS = ['numpy 2.5.3 from the offline wheelhouse (array pickling, ndarray form of to_bytes)',
               'elements are built with the field constructor from integers in range(order) (constructor is C20\'s subject)',
               'pickle round trip inside one process (type identity is decided against the live field type)']

boot(numpy=True)
from mpyc import finfields  # noqa: E402
from mpyc.numpy import np  # noqa: E402

CASE_TIMEOUT = 120


def budget(tier):
    return dict(shards=16, examples=300 if tier == 'quick' else 6000)


# ------------------------------------------------------------------ fields
def _boundary_primes():
    out = []
    for k in (1, 2, 3, 4, 5, 6, 7, 8, 16, 32, 65):
        out.append(R.prev_prime(1 << 8 * k))
        out.append(R.next_prime(1 << 8 * k))
    return out


BOUNDARY_PRIMES = _boundary_primes()
ROOT_PRIMES = [3, 5, 7, 11, 13, 31, 101, 251, 257, 65521, 65537, 2**31 - 1, 4294967311]
BIN_DEGREES = [7, 8, 9, 15, 16, 17]
ODD_BOUNDARY_EXT = [(17, 2), (19, 2), (3, 5), (3, 6), (7, 3), (257, 2), (251, 2), (65537, 2)]


def _root_triples(p):
    """(n, w) with w of order n in GF(p)^*, n = 1, 2 or a prime divisor of p-1 (independent arithmetic)."""
    out = [(1, 1)]
    for r in sorted(R.factor(p - 1)):
        a = 2
        while pow(a, (p - 1) // r, p) == 1:
            a += 1
        out.append((r, pow(a, (p - 1) // r, p)))
    return out


def _x2_plus_c(p):
    """Irreducible X^2 + c over GF(p), p odd: -c a non-residue."""
    for c in range(1, p):
        if pow(-c % p, (p - 1) // 2, p) == p - 1:
            return [c, 0, 1]
    raise AssertionError


@st.composite
def _field(draw):
    kind = draw(st.sampled_from(['prime', 'bprime', 'root', 'bin', 'bbin', 'ext', 'bext']))
    if kind == 'prime':
        return draw(FS.field_spec(kinds=('prime',)))
    if kind == 'bprime':
        return {'p': draw(st.sampled_from(BOUNDARY_PRIMES))}
    if kind == 'root':
        p = draw(st.sampled_from(ROOT_PRIMES))
        n, w = draw(st.sampled_from(_root_triples(p)))
        return {'p': p, 'n': n, 'w': w}
    if kind == 'bin':
        return draw(FS.field_spec(kinds=('binary',)))
    if kind == 'bbin':
        n = draw(st.sampled_from(BIN_DEGREES))
        if n <= 9:
            f = draw(st.sampled_from(FS.some_irreducibles(2, n)))
        else:
            f = FS.smallest_irreducible(2, n)
        return {'p': 2, 'f': list(f)}
    if kind == 'ext':
        return draw(FS.field_spec(kinds=('ext',)))
    p, n = draw(st.sampled_from(ODD_BOUNDARY_EXT))
    if p > 100:
        return {'p': p, 'f': _x2_plus_c(p)}
    return {'p': p, 'f': list(draw(st.sampled_from(FS.some_irreducibles(p, n))))}


def _elem(q):
    special = {0, 1, q - 1, q // 2, min(q - 1, q // 2 + 1), max(0, q // 2 - 1), min(2, q - 1)}
    k = 8
    while (1 << k) - 1 < q:
        for v in ((1 << k) - 1, 1 << k, (1 << k) + 1):
            if v < q:
                special.add(v)
        k += 8
    top = 1 << (q.bit_length() - 1)  # elements with the top bit set need the last byte
    return st.one_of(st.integers(0, q - 1), st.sampled_from(sorted(special)), st.integers(min(top, q - 1), q - 1))


def _divisors(n):
    return [d for d in range(1, n + 1) if n % d == 0]


@st.composite
def _case(draw):
    spec = draw(_field())
    q = FS.order(spec)
    big = q.bit_length() > 130
    size = draw(st.sampled_from(['0', '1', 'few', 'few', 'many']))
    lo, hi = {'0': (0, 0), '1': (1, 1), 'few': (2, 8), 'many': (9, 60 if big else 200)}[size]
    xs = draw(st.lists(_elem(q), min_size=lo, max_size=hi))
    n = len(xs)
    if n == 0:
        shape = draw(st.sampled_from([[0], [0, 3], [2, 0], [1, 0, 2]]))
    else:
        d = draw(st.sampled_from(_divisors(n)))
        form = draw(st.integers(0, 3))
        shape = [[n], [d, n // d], [n // d, d], [1, d, n // d]][form]
        if n == 1 and draw(st.booleans()):
            shape = []
    return {'mode': 'gen', 'field': spec, 'xs': xs, 'shape': shape,
            'proto': draw(st.sampled_from([None, 0, 1, 2, 3, 4, 5]))}


def strategy(tier):
    return _case()


def enumerate_cases(tier):
    for p in FS.SMALL_PRIMES + [263, 269, 271, 277, 281, 283, 293]:
        yield {'mode': 'exh', 'field': {'p': p}}
    for p, n in FS.SMALL_EXT:
        if n >= 2 and p ** n <= 300:
            for f in FS.some_irreducibles(p, n, 2):
                yield {'mode': 'exh', 'field': {'p': p, 'f': list(f)}}
    for p, n in ((17, 2), (19, 2)):
        yield {'mode': 'exh', 'field': {'p': p, 'f': list(FS.some_irreducibles(p, n, 2)[0])}}


# ------------------------------------------------------------------ the check
class Fail(Exception):
    pass


def _siblings(p, n):
    """All moduli of degree n over GF(p) this check ever uses, in a fixed order (the first field created
    for a name gets the plain array-type name, later ones an extended name)."""
    out = []
    if p ** n <= 3 ** 6:
        out += [list(f) for f in FS.some_irreducibles(p, n)]
    if p == 2 and n in FS.BIN_MODULI:
        x = FS.BIN_MODULI[n]
        out.append([(x >> i) & 1 for i in range(n + 1)])
    if p == 2 and n in BIN_DEGREES:
        out.append(list(FS.smallest_irreducible(2, n)))
    return out


def _make(spec):
    """Field for a spec; siblings sharing a name are created in a fixed order (deterministic naming)."""
    p = spec['p']
    if 'f' in spec:
        for f in _siblings(p, len(spec['f']) - 1):
            FS.make({'p': p, 'f': f})
        return FS.make(spec)
    F0 = finfields.GF(p)
    if 'n' in spec:
        return finfields.GF((p, spec['n'], spec['w']))
    return F0


def _coeffs(e):
    """Coefficient list (low first) of the polynomial value of an extension field element."""
    return [int(c) for c in e.value]


def _same_elem(F, e2, e, what):
    if type(e2) is not F:
        raise Fail(f'{what}: type {type(e2)!r} (id {id(type(e2))}) is not the field type {F!r} (id {id(F)})')
    if not (e2 == e) or (e2 != e):
        raise Fail(f'{what}: {e2!r} != original {e!r}')
    if type(e2.value) is not type(e.value) or e2.value != e.value:
        raise Fail(f'{what}: value {e2.value!r} ({type(e2.value).__name__}) differs from '
                   f'{e.value!r} ({type(e.value).__name__})')
    if hash(e2) != hash(e):
        raise Fail(f'{what}: hash changed')


def _bytes_clause(spec, F, xs, els):
    vals = [e.value for e in els]
    data = F.to_bytes(vals)
    if not isinstance(data, (bytes, bytearray)):
        raise Fail(f'to_bytes returned {type(data).__name__}')
    dec = F.from_bytes(data)
    if not isinstance(dec, list) or len(dec) != len(xs):
        raise Fail(f'from_bytes(to_bytes(.)) has length {len(dec) if hasattr(dec, "__len__") else dec!r}, '
                   f'expected {len(xs)}')
    for k, (d, x) in enumerate(zip(dec, xs)):
        if type(d) is not int or d != x:
            raise Fail(f'from_bytes(to_bytes(.))[{k}] = {d!r}, original value {x} (field order {F.order})')
        if F(d) != els[k]:
            raise Fail(f'F(decoded[{k}]) = {F(d)!r} differs from original element {els[k]!r}')
    if F.from_bytes(bytearray(data)) != dec:
        raise Fail('from_bytes(bytearray) differs from from_bytes(bytes)')
    # the ndarray form used by the runtime: flattened .value of a field array
    flat = F.array(np.array(xs, dtype=object)).value.reshape(-1) if xs else F.array([]).value.reshape(-1)
    data2 = F.to_bytes(flat)
    if F.from_bytes(data2) != xs:
        raise Fail(f'ndarray form: from_bytes(to_bytes(array.value)) = {F.from_bytes(data2)[:5]}.., expected {xs[:5]}..')
    if bytes(data2) != bytes(data):
        raise Fail('to_bytes of list and of ndarray differ')


def _dumps(obj, proto):
    return pickle.dumps(obj) if proto is None else pickle.dumps(obj, proto)


def _pickle_elems(F, els, protos):
    for proto in protos:
        for e in els:
            _same_elem(F, pickle.loads(_dumps(e, proto)), e, f'pickle(protocol={proto}) of element {e!r}')


def _pickle_clause(spec, F, xs, els, shape, proto):
    sel = els if len(els) <= 6 else els[:3] + els[-3:]
    _pickle_elems(F, sel, [proto])
    lst = pickle.loads(_dumps(els, proto))
    if not isinstance(lst, list) or len(lst) != len(els):
        raise Fail('pickled list of elements changed length')
    for k, (e2, e) in enumerate(zip(lst, els)):
        _same_elem(F, e2, e, f'pickle(protocol={proto}) of element list, entry {k}')
    a = F.array(np.array(xs, dtype=object).reshape(shape))
    a2 = pickle.loads(_dumps(a, proto))
    if type(a2) is not F.array:
        raise Fail(f'pickle(protocol={proto}) of array: type {type(a2)!r} is not {F.array!r}')
    if a2.value.shape != tuple(shape):
        raise Fail(f'pickle of array: shape {a2.value.shape}, expected {tuple(shape)}')
    flat2, flat = a2.value.reshape(-1), a.value.reshape(-1)
    for k in range(len(xs)):
        if type(flat2[k]) is not type(flat[k]) or flat2[k] != flat[k] or flat2[k] != els[k].value:
            raise Fail(f'pickle of array: entry {k} is {flat2[k]!r}, expected {els[k].value!r}')
    eq = a2 == a
    if not bool(np.all(eq)):
        raise Fail('pickle of array: a2 == a is not all true')


def _views_clause(spec, F, xs, els):
    p = spec['p']
    q = F.order
    if 'f' in spec:
        for x, e in zip(xs, els):
            v = int(e)
            if type(v) is not int or not 0 <= v < q:
                raise Fail(f'int({e!r}) = {v!r} not in range({q})')
            if v != R.pto_int(_coeffs(e), p):
                raise Fail(f'int(e) = {v} is not the base-{p} value of coefficients {_coeffs(e)}')
            if v != x or F(v) != e:
                raise Fail(f'F(int(e)) != e for e = F({x})')
        return
    a = F.array(np.array(xs, dtype=object)) if xs else None
    if a is not None:
        sa, ua = a.signed_(), a.unsigned_()
    saved = F.is_signed
    try:
        for k, (x, e) in enumerate(zip(xs, els)):
            s, u = e.signed_(), e.unsigned_()
            if type(s) is not int or type(u) is not int:
                raise Fail(f'views of F({x}) are not ints: {s!r}, {u!r}')
            if u != x or not 0 <= u < p:
                raise Fail(f'unsigned_() of F({x}) = {u}')
            if (s - x) % p != 0:
                raise Fail(f'signed_() of F({x}) = {s} is not congruent to the value modulo {p}')
            if abs(s) > p // 2:
                raise Fail(f'signed_() of F({x}) = {s}: |.| exceeds p//2 = {p // 2}')
            if F(s) != e or F(u) != e:
                raise Fail(f'F(signed_()) or F(unsigned_()) != e for F({x})')
            F.is_signed = True
            if int(e) != s:
                raise Fail(f'is_signed=True: int(F({x})) = {int(e)}, signed_() = {s}')
            F.is_signed = False
            if int(e) != u:
                raise Fail(f'is_signed=False: int(F({x})) = {int(e)}, unsigned_() = {u}')
            if a is not None and (int(sa[k]) != s or int(ua[k]) != u):
                raise Fail(f'array views of F({x}): signed {sa[k]}, unsigned {ua[k]}; element views {s}, {u}')
        if a is not None:
            F.is_signed = True
            ia = F.array.intarray(a)
            if [int(v) for v in ia] != [int(v) for v in sa]:
                raise Fail('intarray with is_signed=True differs from signed_()')
            F.is_signed = False
            ia = F.array.intarray(a)
            if [int(v) for v in ia] != [int(v) for v in ua]:
                raise Fail('intarray with is_signed=False differs from unsigned_()')
    finally:
        F.is_signed = saved


def _label(spec):
    if 'f' in spec:
        return 'binary' if spec['p'] == 2 else 'ext'
    return 'prime-root' if 'n' in spec else 'prime'


def run_case(case):
    spec = case['field']
    labels = [_label(spec)]
    try:
        F = _make(spec)
        q = FS.order(spec)
        if F.order != q:
            return Outcome(False, f'field order {F.order} != {q} for {spec}')
        labels.append(f'bits%8={q.bit_length() % 8}')
        if case['mode'] == 'exh':
            xs = list(range(q))
            els = [F(x) for x in xs]
            _bytes_clause(spec, F, xs, els)
            _pickle_elems(F, els, [None])
            _pickle_clause(spec, F, xs, els, [q], None)
            _views_clause(spec, F, xs, els)
            for x in (0, 1, q - 1, q // 2):  # single-element and short lists at the extremes
                _bytes_clause(spec, F, [x], [F(x)])
            _bytes_clause(spec, F, [], [])
            return Outcome(True, labels=labels + ['exh'], n=q, n_nt=max(0, q - 2), exhaustive=True)
        xs, shape = case['xs'], case['shape']
        size = 1
        for d in shape:
            size *= d
        if size != len(xs) or any(not 0 <= x < q for x in xs):
            return Outcome(True, 'malformed case', labels=['malformed'], nontrivial=False, skipped=True)
        els = [F(x) for x in xs]
        _bytes_clause(spec, F, xs, els)
        _pickle_clause(spec, F, xs, els, shape, case['proto'])
        _views_clause(spec, F, xs, els)
        n = len(xs)
        labels.append('len=' + ('0' if n == 0 else '1' if n == 1 else '2-8' if n <= 8 else '9+'))
        labels.append(f'proto={case["proto"]}')
        if any(x in (q - 1, q // 2, q // 2 + 1) for x in xs):
            labels.append('extreme-elt')
        if any(x >= 256 and (x + 1).bit_length() % 8 <= 1 for x in xs):
            labels.append('byte-boundary-elt')
        return Outcome(True, labels=labels, nontrivial=any(x > 1 for x in xs))
    except Fail as e:
        return Outcome(False, f'{e}\ncase={case}', labels=labels)
    except Exception:
        import traceback
        return Outcome(False, f'exception on valid input: {traceback.format_exc()[-1800:]}\ncase={case}',
                       labels=labels)
