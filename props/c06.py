"""C06: secure conversion between secure types (mpc.convert) preserves values.

A case fixes a party configuration, an ordered pair (source type, target type) out of
SecInt(l), SecFxp(l,f), prime SecFld(p) signed/unsigned, a dealer, and a list of source values
(raw integers of the source representation) that fit BOTH types.  One simulator run deals the
values with a genuine degree-t sharing, converts them (as one list or one by one), opens the
results at all parties and compares them with the exact expectation:

  int/fld -> int/fld/fxp   the same integer (canonical signed/unsigned representative for fields)
  fxp -> fxp (f_t >= f_s)  the same rational
  fxp -> int/fld, fxp -> fxp (f_t < f_s)   floor or ceil of the exact scaled value
                           (exact when the value is representable in the target)

Known findings (oracle unchanged, generator mostly avoids the classes, failures inside the class
are reported as KNOWN-FINDING):
  F9    prime-field source of bit length >= l+f+3 for a SecInt(l)/SecFxp(l,f) target
  F06a  source or target is a small prime field that mpyc lifts to an extension field (m >= p, t >= 1)
  F06b  signed SecFld(2) source: 1 is converted to -1
"""
from hypothesis import strategies as st
from vlib.boot import boot
from vlib.runner import Outcome

boot(numpy=False)

ID = 'C06'
LEVEL = 'exploration'
RULE = ('generated (m<=7,t,PRSS on/off) x ordered pairs (source,target) over SecInt(l), SecFxp(l,f), prime '
        'SecFld(p) signed/unsigned (all 9 kind pairs, l up to 128, p from 2 to 2^127-1) x 1-6 source values '
        'that fit both types (range ends, 0, +-1, near-integers and halves for fixed point, powers of two, '
        'random) dealt by a generated party, converted with mpc.convert as a list or one by one and opened '
        'at all parties; oracle: exact integer/rational equality, {floor,ceil} where fractional bits are '
        'dropped; plus exhaustive cells: every common value of every ordered pair of 12 tiny types (16 at t=0) at m=1, m=2 and '
        'm=3,t=1 (PRSS on/off); non-trivial = t>=1 (mask is a sum of several parties\' randomness), m>=3 and '
        'source type != target type; distinct by case hash')
ASSUMPTIONS = ['sec_param k=30 (statistical masking; default-size fields of l+f+k+2 bits)',
               'values are generated so that the exact value (and, where fractional bits are dropped, both '
               'neighbouring values) fit source and target type; negative values are not sent to unsigned fields',
               'fixed-point to a type with fewer fractional bits: floor/ceil grounded in the docstring of '
               'runtime.trunc ("probabilistic rounding"), exactness required for representable values']
CASE_TIMEOUT = 150
K = 30

INT_L = [2, 3, 4, 5, 8, 8, 12, 16, 16, 24, 32, 32, 48, 64]
INT_L_T = INT_L + [100, 128]
FXP_LF = [[4, 2], [6, 3], [8, 4], [12, 4], [16, 8], [16, 2], [16, 14], [24, 12], [32, 16], [32, 16], [32, 4],
          [40, 30], [64, 32]]
FXP_LF_T = FXP_LF + [[100, 50], [128, 64]]
PRIMES = [2, 3, 5, 7, 11, 13, 31, 61, 101, 251, 257, 4093, 65521, 65537, 2**31 - 1, 4294967311,
          2**61 - 1, 18446744073709551557]
PRIMES_T = PRIMES + [2**89 - 1, 2**127 - 1]


def budget(tier):
    return dict(shards=16, examples=400 if tier == 'quick' else 6000)


# ------------------------------------------------------------------ type helpers (pure, no mpyc)
def frac(T):
    return T[2] if T[0] == 'fxp' else 0


def raw_range(T):
    """Canonical range of the integer representation of type descriptor T."""
    if T[0] in ('int', 'fxp'):
        return -(1 << (T[1] - 1)), (1 << (T[1] - 1)) - 1
    p, signed = T[1], T[2]
    if signed:
        return -((p - 1) // 2), p // 2
    return 0, p - 1


def common_range(S, T):
    """Source raw values r such that r/2^fs (and both roundings when bits are dropped) fit T."""
    slo, shi = raw_range(S)
    tlo, thi = raw_range(T)
    d = frac(T) - frac(S)
    if d >= 0:
        lo = -((-tlo) >> d) if tlo < 0 else (tlo + (1 << d) - 1) >> d  # ceil(tlo / 2^d)
        hi = thi >> d                                                   # floor(thi / 2^d)
    else:
        lo, hi = tlo << -d, thi << -d
    return max(slo, lo), min(shi, hi)


def expected(S, T, r):
    """Set of admissible target raw values for source raw value r."""
    d = frac(T) - frac(S)
    if d >= 0:
        return {r << d}
    fl = r >> -d
    return {fl} if fl << -d == r else {fl, fl + 1}


def f9_class(S, T):
    return S[0] == 'fld' and T[0] in ('int', 'fxp') and S[1].bit_length() >= T[1] + frac(T) + 3


def lifted(X, m, t):
    return X[0] == 'fld' and t >= 1 and m >= X[1]


def tname(X):
    if X[0] == 'fld':
        return f"fld{X[1].bit_length()}b{'s' if X[2] else 'u'}"
    return X[0]


# ------------------------------------------------------------------ exhaustive cells
TINY = [['int', 2], ['int', 3], ['int', 4], ['fxp', 4, 2], ['fxp', 5, 1], ['fxp', 6, 3],
        ['fld', 5, False], ['fld', 5, True], ['fld', 7, False], ['fld', 7, True], ['fld', 11, True],
        ['fld', 13, False]]
TINY_M1 = [['fld', 2, False], ['fld', 2, True], ['fld', 3, False], ['fld', 3, True]]


def enumerate_cases(tier):
    idx = 0
    for cfg in ([1, 0, True], [3, 1, True], [3, 1, False], [2, 0, False]):
        m, t, prss = cfg
        types = TINY + (TINY_M1 if t == 0 else [])
        for S in types:
            for T in types:
                if S[0] == 'fld' and T[0] == 'fld' and S[1] == T[1] and S[2] != T[2]:
                    continue  # one field object per prime: both signednesses cannot coexist in a run
                idx += 1
                if tier == 'quick' and m == 3 and (idx + (1 if prss else 0)) % 2:
                    continue  # quick: every pair at m=3 with PRSS on or off (alternating), both in thorough
                yield dict(mode='cell', m=m, t=t, prss=prss, seed=idx, src=S, tgt=T, sender=idx % m,
                           scalar=False)


    # many parties with PRSS: the conversion mask is a sum of comb(m, t) pseudorandom values (35 at m=7, t=3;
    # 21 at m=7, t=2), so its bound must be divided accordingly -- a few widening pairs in every tier
    for (m, t), S, T in (((7, 3), ['int', 8], ['int', 32]), ((7, 2), ['int', 8], ['int', 32]),
                         ((7, 3), ['int', 16], ['fxp', 32, 16]), ((7, 2), ['fxp', 16, 8], ['fxp', 32, 16]),
                         ((6, 2), ['int', 8], ['fld', 65521, True])):
        lo, hi = common_range(S, T)
        vals = sorted({lo, lo + 1, -20, -3, -1, 0, 1, 2, 7, 19, hi - 1, hi} & set(range(lo, hi + 1)))
        yield dict(mode='gen', m=m, t=t, prss=True, seed=m * 10 + t, src=S, tgt=T, sender=1, scalar=False, vals=vals)


# ------------------------------------------------------------------ generated cases
def _pool(kind, tier):
    if kind == 'int':
        return [['int', l] for l in (INT_L if tier == 'quick' else INT_L_T)]
    if kind == 'fxp':
        return [['fxp', l, f] for l, f in (FXP_LF if tier == 'quick' else FXP_LF_T)]
    return [['fld', p, s] for p in (PRIMES if tier == 'quick' else PRIMES_T) for s in (False, True)]


def _values(rng, S, T, n):
    lo, hi = common_range(S, T)
    fs = frac(S)
    d = frac(S) - frac(T)  # bits dropped (if > 0)
    out = []
    for _ in range(n):
        how = rng.randrange(8)
        if how == 0:
            v = rng.choice([lo, hi, lo + 1, hi - 1, lo + 2, hi - 2])
        elif how == 1:
            v = rng.choice([0, 1, -1, 2, -2, 3, -3])
        elif how == 2:
            j = rng.randrange(0, max(1, max(abs(lo), abs(hi)).bit_length()) + 1)
            v = rng.choice([1, -1]) * (1 << j) + rng.choice([-1, 0, 0, 1])
        elif how == 3 and (fs or d > 0):
            sh = d if d > 0 else fs  # near multiples of the dropped unit: integers, halves, +-1 ulp
            k = rng.randint(-8, 8) if rng.randrange(2) else rng.randint(lo >> sh, hi >> sh)
            v = (k << sh) + rng.choice([0, 0, 1, -1, 1 << (sh - 1), (1 << (sh - 1)) - 1,
                                        (1 << (sh - 1)) + 1, (1 << sh) - 1])
        elif how == 4:
            v = rng.randint(-20, 20)
        else:
            v = rng.randint(lo, hi)
        out.append(max(lo, min(hi, v)))
    return out


def build_case(seed, tier):
    """Deterministic expansion of one Hypothesis-drawn integer into a case (own PRNG: Hypothesis'
    example mutation correlates equal sub-strategies, which skews type pairs towards S == T)."""
    import random
    rng = random.Random(seed)
    ms = [1, 1, 2, 3, 3, 3, 3, 4, 4, 5, 5] + ([6, 7] if tier == 'thorough' else [])
    m = rng.choice(ms)
    tmax = (m - 1) // 2
    t = rng.choice([tmax, tmax, tmax, 0, max(0, tmax - 1)])
    prss = rng.randrange(2) == 1
    want = rng.choice(['f9', 'f9', 'lift', 'gf2s'] + ['none'] * 14)
    sk, tk = rng.choice([[a, b] for a in ('int', 'fxp', 'fld') for b in ('int', 'fxp', 'fld')])
    if want == 'f9':
        sk, tk = 'fld', rng.choice(['int', 'fxp'])
    spool = _pool(sk, tier)
    if want == 'lift' and sk == 'fld' and any(lifted(X, m, t) for X in spool) and rng.randrange(2):
        spool = [X for X in spool if lifted(X, m, t)]
    else:
        spool = [X for X in spool if not lifted(X, m, t)]
    if want != 'gf2s':
        spool = [X for X in spool if X != ['fld', 2, True]]  # F06b class, produced only on request
    elif sk == 'fld' and ['fld', 2, True] in spool:
        spool = [['fld', 2, True]]
    S = rng.choice(spool)
    tpool = [X for X in _pool(tk, tier)
             if not (X[0] == 'fld' and S[0] == 'fld' and X[1] == S[1] and X[2] != S[2])]
    if want == 'lift' and tk == 'fld' and any(lifted(X, m, t) for X in tpool) and not lifted(S, m, t):
        tpool = [X for X in tpool if lifted(X, m, t)]
    else:
        tpool = [X for X in tpool if not lifted(X, m, t)]
    if S[0] == 'fld' and tk in ('int', 'fxp'):
        inside = [X for X in tpool if f9_class(S, X)]
        outside = [X for X in tpool if not f9_class(S, X)]
        tpool = inside if (want == 'f9' and inside) else (outside or inside)
        if tpool is outside and rng.randrange(3) == 0:  # smallest targets still outside the F9 class
            tpool = sorted(outside, key=lambda X: X[1] + frac(X))[:2]
    T = rng.choice(tpool)
    if rng.randrange(12) == 0 and want == 'none':
        T = S  # identity conversion
    n = rng.choice([1, 1, 2, 3, 4, 6])
    vals = _values(rng, S, T, n)
    integral = S[0] == 'fxp' and all(v % (1 << S[2]) == 0 for v in vals) and rng.randrange(2) == 1
    return dict(mode='gen', m=m, t=t, prss=prss, seed=rng.randrange(2**20), src=S, tgt=T,
                sender=rng.randrange(m), scalar=rng.randrange(4) == 0, integral=integral, vals=vals)


def strategy(tier):
    return st.integers(0, 2**48).map(lambda z: build_case(z, tier))


# ------------------------------------------------------------------ running
def _mk(mpc, X):
    if X[0] == 'int':
        return mpc.SecInt(X[1])
    if X[0] == 'fxp':
        return mpc.SecFxp(X[1], X[2])
    return mpc.SecFld(X[1], signed=bool(X[2]))


def _run(case, vals):
    from vlib import sim as simmod
    S, T = case['src'], case['tgt']
    snd = case['sender']
    scalar = case.get('scalar', False)
    integral = bool(case.get('integral', False))

    async def prog(mpc, pid):
        St = _mk(mpc, S)
        Tt = St if T == S else _mk(mpc, T)

        def enc(r):
            if S[0] == 'fxp':
                return St(St.field(r) if pid == snd else None, integral=integral)
            return St(r if pid == snd else None)
        xs = [enc(r) for r in vals]
        if scalar:
            x = [mpc.input(a, senders=snd) for a in xs]
            y = [mpc.convert(a, Tt) for a in x]
        else:
            x = mpc.input(xs, senders=snd)
            y = mpc.convert(x, Tt)
        bad = [type(a).__name__ for a in y if not isinstance(a, Tt)]
        if T[0] == 'fxp':
            out = await mpc.output(y, raw=True)
        else:
            out = await mpc.output(y)
        flags = [a.integral for a in y] if T[0] == 'fxp' else []
        return dict(out=[int(a) for a in out], badtype=bad, flags=flags)

    sim = simmod.Sim(case['m'], case['t'], prss=case['prss'], seed=case.get('seed', 0),
                     schedule={'mode': 'fast'}, sec_param=K)
    try:
        res = sim.run_programs(prog)
    finally:
        sim.close()
        # SecFld(p, signed=...) sets is_signed on the process-wide cached field class GF(p), which a SecInt/SecFxp
        # type of a later run shares if its default prime happens to be p: restore the default (purity of cases)
        from mpyc import finfields
        for X in (S, T):
            if X[0] == 'fld':
                finfields.GF(X[1]).is_signed = True
    return res


def run_case(case):
    S, T = case['src'], case['tgt']
    m, t = case['m'], case['t']
    lo, hi = common_range(S, T)
    if case['mode'] == 'cell':
        vals = list(range(lo, hi + 1))
        if len(vals) > 70:
            return Outcome(False, f'harness: cell too large {case}')
    else:
        vals = list(case['vals'])
    if any(not lo <= v <= hi for v in vals):
        return Outcome(True, skipped=True, nontrivial=False, labels=['invalid-values'])
    in_f9 = f9_class(S, T)
    in_lift = lifted(S, m, t) or lifted(T, m, t)
    labels = [f'm={m}', f't={t}', f"prss={case['prss']}", f'{tname(S)}->{tname(T)}',
              f'pair={S[0]}->{T[0]}', 'scalar' if case.get('scalar') else 'list']
    if in_f9:
        labels.append('F9-class')
    elif S[0] == 'fld' and T[0] != 'fld' and S[1].bit_length() >= T[1] + frac(T) + 1:
        labels.append('F9-boundary(outside class, p has l+f+1 or l+f+2 bits)')
    if in_lift:
        labels.append('F06a-class(lifted)')
    if S == T:
        labels.append('identity')
    if S == ['fld', 2, True]:
        labels.append('F06b-class(signed GF(2) source)')
    if frac(S) > frac(T):
        labels.append('drops-frac-bits')
    try:
        res = _run(case, vals)
    except Exception:
        import traceback
        tb = traceback.format_exc()[-2500:]
        return Outcome(False, f'exception on valid input:\n{tb}\ncase={case}', labels=labels,
                       known='F06a' if in_lift else None)
    if res.inconclusive:
        return Outcome(True, inconclusive=True, labels=labels, nontrivial=False)
    if not res.all_done:
        txt = res.describe()
        known = None
        if in_lift and ('TypeError' in txt or 'AssertionError' in txt):
            known = 'F06a'
        return Outcome(False, f'run did not complete: {txt[:2500]}\ncase={case}', labels=labels, known=known)
    outs = [v['out'] for v in res.values]
    nt = t >= 1 and m >= 3 and S != T
    n = len(vals)
    msg = None
    if any(v['badtype'] for v in res.values):
        msg = f"converted objects are not of the target type: {res.values[0]['badtype']}"
    elif any(o != outs[0] for o in outs):
        msg = f'parties disagree on the opened converted values: {outs}'
    elif any(v['flags'] != res.values[0]['flags'] for v in res.values):
        msg = f"parties disagree on the public integral flags: {[v['flags'] for v in res.values]}"
    elif T[0] == 'fxp' and any(fl is True and g % (1 << T[2]) for fl, g in zip(res.values[0]['flags'], outs[0])):
        msg = (f"converted fixed-point number is flagged integral=True but its value is not whole: raw {outs[0]} "
               f"/2^{T[2]}, flags {res.values[0]['flags']} (SecureFixedPoint: integral means a whole number)")
    else:
        for r, got in zip(vals, outs[0]):
            exp = expected(S, T, r)
            if got not in exp:
                src_v = f'{r}/2^{frac(S)}' if frac(S) else f'{r}'
                msg = (f'convert({tname(S)} value {src_v}) -> {T}: got raw {got}'
                       f'{"/2^%d" % frac(T) if frac(T) else ""}, expected {sorted(exp)}')
                break
    if msg is None:
        if in_f9:
            labels.append('F9-class-pass')
        lab2 = [x for x in ('min' if lo in vals else None, 'max' if hi in vals else None) if x]
        return Outcome(True, labels=labels + lab2, nontrivial=nt, n=n if case['mode'] == 'cell' else 1,
                       n_nt=(n if nt else 0) if case['mode'] == 'cell' else None,
                       exhaustive=case['mode'] == 'cell')
    known = None
    if in_lift and all(o == outs[0] for o in outs):
        # lifted target: masks are drawn as arbitrary extension-field elements; when they happen to be constants
        # the output conversion does not assert and a wrong subfield element comes out
        known = 'F06a'
    elif S == ['fld', 2, True] and not in_lift and all(o == outs[0] for o in outs):
        # F06b: signed GF(2) source: 1 comes out as -1 (offset p//2 = 1 instead of (p-1)//2 = 0)
        tlo, thi = raw_range(T)
        minus1 = (-1 << frac(T)) if T[0] != 'fld' else (-1 if T[2] else T[1] - 1)
        if all(g in expected(S, T, r) or (r == 1 and g == minus1) for r, g in zip(vals, outs[0])):
            known = 'F06b'
    elif in_f9 and not in_lift:
        # behaviour inside the class: p*2^k (and for p >= the target's field order even the random mask)
        # wraps around in the target field before the reduction modulo p, so the opened results are arbitrary
        # elements of the target field, but still the same at all parties
        if all(o == outs[0] for o in outs):
            known = 'F9'
    return Outcome(False, msg + f'\ncase={case}', labels=labels, known=known)
