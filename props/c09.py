"""C09: every message is labelled uniquely and consumed exactly once.

History invariant over (a) the complete byte log of every directed connection, parsed by an
independent frame parser, and (b) the log of every MessageExchanger.receive call:
  * no label occurs twice among the frames of one directed connection;
  * no unparsed tail bytes, no bytes dropped at a closed connection;
  * the multiset of labels received by j from i equals the multiset of labels i sent to j
    (every message consumed by exactly one matching receive; no receive without a message);
  * after all parties have shut down every protocol's `buffers` is empty (no payload left
    unconsumed, no Future left waiting) and no partial frame bytes remain.
"""
import collections
from hypothesis import strategies as st
from vlib import progs
from vlib.observe import Observer
from vlib.runner import Outcome

ID = 'C09'
LEVEL = 'exploration'
RULE = ('generated (m>=2,t,PRSS,l) x integer programs with mid-program awaits, barriers, public zero tests and '
        'user coroutines x generated schedules (round-robin, serial, PCT with change points, random walk, '
        'chunkings) x output receiver subsets; oracle = history invariant over the independently parsed wire '
        'log and the receive-call log (labels unique per directed connection, sent multiset == received '
        'multiset, empty buffers and no stray bytes after shutdown); non-trivial = some connection carried '
        '>= 20 frames and the program has >= 1 mid-program await; distinct by case hash')
ASSUMPTIONS = ['frames parsed independently from the raw byte log (<q I payload> after a handshake whose length '
               'the harness computes by its own subset enumeration)']


TIMEOUT_INCONCLUSIVE = True  # hangs are decided by quiescence in the simulator, not by the wall clock


def budget(tier):
    return dict(shards=16, examples=60 if tier == 'quick' else 500)


@st.composite
def _case(draw, tier):
    m, t, prss = draw(progs.config(min_m=2, max_m=5 if tier == 'quick' else 7))
    l = draw(st.sampled_from([4, 6, 8, 12]))
    nodes = draw(progs.int_program(m, l, max_nodes=7 if tier == 'quick' else 14, heavy=False, awaits=True))
    sched = draw(progs.schedule(m))
    recv = draw(st.one_of(st.none(), st.lists(st.integers(0, m - 1), min_size=1, max_size=m, unique=True).map(sorted)))
    case = dict(m=m, t=t, prss=prss, l=l, seed=draw(st.integers(0, 2**20)), nodes=nodes, sched=sched,
                receivers=recv, no_barrier=draw(st.sampled_from([False, False, True])),
                # outputs started but not awaited before shutdown: their messages must still all be consumed
                out_mode=draw(st.sampled_from(['end', 'end', 'after_shutdown'])))
    # parties started with different logging options (--no-log at some of them) and mpc.peek() in the program
    if draw(st.integers(0, 2)) == 0:
        case['no_log'] = draw(st.lists(st.booleans(), min_size=m, max_size=m))
        sc = [i for i, nd in enumerate(nodes) if progs.is_scalar(nd)]
        for nd in nodes:
            if nd[0] == 'await' and nd[1] != 'sleep' and draw(st.booleans()):
                nd[1] = 'peek'
        if sc and not any(nd[0] == 'await' and nd[1] == 'peek' for nd in nodes):
            nodes.append(['await', 'peek', sc[-1]])
    return case


def strategy(tier):
    return _case(tier)


def check_history(sim, obs, m):
    """Returns (message or None, max frames on a connection)."""
    mx = 0
    for i in range(m):
        for j in range(m):
            if i == j:
                continue
            hs, frames, tail = sim.frames(i, j)
            mx = max(mx, len(frames))
            if tail:
                return f'connection {i}->{j}: {len(tail)} stray bytes after the last complete frame', mx
            sent = collections.Counter(f.pc for f in frames)
            dup = [pc for pc, c in sent.items() if c > 1]
            if dup:
                return f'connection {i}->{j}: label {dup[0]} used by {sent[dup[0]]} messages', mx
            got = collections.Counter(obs.recv_log.get((j, i), []))
            if sent != got:
                only_sent = list((sent - got).items())[:3]
                only_got = list((got - sent).items())[:3]
                return (f'connection {i}->{j}: sent/received label multisets differ: sent-not-received '
                        f'{only_sent}, received-not-sent {only_got} ({len(frames)} frames)'), mx
            if sim.dropped[i, j]:
                return f'connection {i}->{j}: {sim.dropped[i, j]} bytes were written but never delivered', mx
            px = sim.protocols[j, i]
            if px.buffers:
                kinds = {k: type(v).__name__ for k, v in list(px.buffers.items())[:3]}
                return f'party {j}: buffers for peer {i} not empty after shutdown: {kinds}', mx
            if px.bytes:
                return f'party {j}: {len(px.bytes)} undelivered bytes from peer {i} after shutdown', mx
    return None, mx


def run_case(case):
    if not progs.is_valid(case['nodes'], case['l']):
        return Outcome(True, skipped=True, nontrivial=False, labels=['invalid-program'])
    feats = progs.program_features(case['nodes'], case['m'], case['t'])
    labels = [f"m={case['m']}", f"t={case['t']}", 'sched=' + case['sched']['mode'],
              'recv=' + ('all' if case.get('receivers') is None else 'subset')] + feats['ops']
    if case.get('no_log') is not None:
        labels.append('mixed-logging' if len(set(case['no_log'])) > 1 else 'uniform-logging')
    holder = {}

    def hook(sim):
        holder['obs'] = Observer(sim, deals=False, tasks=False)
        sim.livelock_steps = 100_000   # busy-waiting for ever (desynchronised parties) is a hang, see vlib/sim.py

    try:
        sim, res, ref = progs.run_int_case(case, receivers=case.get('receivers'), sim_hook=hook,
                                           out_mode=case.get('out_mode', 'end'))
    finally:
        if 'obs' in holder:
            holder['obs'].close()
    if res.inconclusive:
        return Outcome(True, inconclusive=True, labels=labels, nontrivial=False)
    if not res.all_done:
        return Outcome(False, f'run did not complete: {res.describe()}\ncase={case}', labels=labels)
    msg, mx = check_history(sim, holder['obs'], case['m'])
    if msg:
        return Outcome(False, msg + f'\ncase={case}', labels=labels)
    labels.append('frames>=20' if mx >= 20 else 'frames<20')
    return Outcome(True, labels=labels, nontrivial=mx >= 20 and feats['has_await'])
