"""C32: mpctools.reduce / mpctools.accumulate agree with functools.reduce / itertools.accumulate.

Oracle: functools.reduce and itertools.accumulate applied to the same raw data with the same
associative function.  The values handed to mpctools are wrapped in a small object carrying the
depth of the application tree that produced them, so the maximal depth of function applications
(over *all* applications, not only those feeding an output) and the number of applications are
observed as well.

Operations (all associative, all but one non-commutative):
  seg    intervals (lo, hi) with (a,b)(b,c) = (a,c) and every other product = 0 (absorbing).  With the
         items (s,s+1),(s+1,s+2),.. this is the free semigroup on distinct generators with a zero
         adjoined: a result is right for it iff the implementation combined exactly the adjacent
         blocks in order, hence iff it is right for *every* associative function (the code is
         parametric in f).  The exhaustive-length cells therefore decide the functional part of the
         property for every length in range.
  str    string concatenation
  mat    2x2 matrices modulo p
  aff    composition of affine maps x -> ax+b modulo p
  perm   composition of permutations of k points
  left / right / rect   left-zero, right-zero and rectangular bands (idempotent, non-commutative)
  mmc    (min, max, count) triples (commutative control)
For 'str' accumulate is also called without f (default operator.add, as in itertools).
Initial value: absent, a value of the operation, or the object None (documented: "possibly equal to
None"); for None the operation gets None adjoined as an identity element (still associative).
"""
import functools
import itertools
import traceback
import types
from hypothesis import strategies as st
from vlib.boot import boot
from vlib.runner import Outcome

ID = 'C32'
LEVEL = 'exploration'
RULE = ('exhaustive cells: every total length 0..160 (thorough 0..1100) x 9 associative operations (8 non-commutative, '
        'incl. the free-semigroup-with-zero "seg" which is universal for associative functions) x initial '
        'absent/value/None x {reduce, accumulate Brent-Kung, Sklansky, default heuristic with no_prss on/off}; '
        'generated: random items (also non-adjacent segments, generators/tuples/iterators as input, lengths up to 2100 '
        'weighted to 0,1,2,2^k,2^k+-1). Oracle functools.reduce / itertools.accumulate on the raw data; depth of all '
        'f applications <= ceil(log2 n) for reduce and Sklansky, <= max(2k-2,k), k=ceil(log2 n), for Brent-Kung '
        '(exact at n=2^k, with the documented call counts), reduce makes exactly n-1 calls. '
        'non-trivial = total length >= 3 (tree shape differs from the linear chain)')
ASSUMPTIONS = ['functools.reduce and itertools.accumulate of CPython are the specification',
               'the documented depth max(2k-2,k) of Brent-Kung at n=2^k is read as an upper bound for every '
               'n <= 2^k (k = ceil(log2 n)); "logarithmic depth" of reduce/Sklansky is read as ceil(log2 n)',
               'the default-method heuristic may pick either method: only the Brent-Kung bound is required of it']

boot(numpy=False)
from mpyc import mpctools  # noqa: E402

OPS = ['seg', 'str', 'mat', 'aff', 'perm', 'left', 'right', 'rect', 'mmc']
P = 251  # modulus for mat / aff
K = 5    # points for perm


# ---------------------------------------------------------------- raw operations (on hashable tuples/str)

def _op(name):
    if name == 'seg':
        def f(a, b):
            if a == 0 or b == 0 or a[1] != b[0]:
                return 0
            return (a[0], b[1])
    elif name == 'str':
        def f(a, b):
            return a + b
    elif name == 'mat':
        def f(a, b):
            return ((a[0] * b[0] + a[1] * b[2]) % P, (a[0] * b[1] + a[1] * b[3]) % P,
                    (a[2] * b[0] + a[3] * b[2]) % P, (a[2] * b[1] + a[3] * b[3]) % P)
    elif name == 'aff':
        def f(a, b):  # a after b: x -> a0*(b0*x+b1)+a1
            return ((a[0] * b[0]) % P, (a[0] * b[1] + a[1]) % P)
    elif name == 'perm':
        def f(a, b):
            return tuple(a[b[i]] for i in range(len(b)))
    elif name == 'left':
        def f(a, b):
            return a
    elif name == 'right':
        def f(a, b):
            return b
    elif name == 'rect':
        def f(a, b):
            return (a[0], b[1])
    elif name == 'mmc':
        def f(a, b):
            return (min(a[0], b[0]), max(a[1], b[1]), a[2] + b[2])
    else:
        raise ValueError(name)
    return f


def _with_none_identity(f):
    def g(a, b):
        if a is None:
            return b
        if b is None:
            return a
        return f(a, b)
    return g


def _raw(name, v):
    """JSON value -> raw value of the operation."""
    if name == 'str':
        return v
    if name == 'seg' and v == 0:
        return 0
    return tuple(v)


class _Rng:
    """Tiny deterministic generator (cases must not depend on `random`)."""

    def __init__(self, seed):
        self.s = (seed * 2862933555777941757 + 3037000493) % (1 << 64)

    def below(self, n):
        self.s = (self.s * 6364136223846793005 + 1442695040888963407) % (1 << 64)
        return (self.s >> 33) % n


def _item(name, rng, i):
    """Pseudo-random JSON item number i for the exhaustive cells."""
    if name == 'seg':
        return [i, i + 1]
    if name == 'str':
        return 'abcdefghij'[rng.below(10)] * rng.below(3)
    if name == 'mat':
        return [rng.below(P) for _ in range(4)]
    if name == 'aff':
        return [rng.below(P), rng.below(P)]
    if name == 'perm':
        p = list(range(K))
        for j in range(K - 1, 0, -1):
            k = rng.below(j + 1)
            p[j], p[k] = p[k], p[j]
        return p
    if name in ('left', 'right'):
        return [i]
    if name == 'rect':
        return [i, -i]
    if name == 'mmc':
        v = rng.below(1000)
        return [v, v, 1]
    raise ValueError(name)


# ---------------------------------------------------------------- instrumented values

class _D:
    __slots__ = ('v', 'd')

    def __init__(self, v, d=0):
        self.v = v
        self.d = d


class _Probe:
    def __init__(self, g):
        self.g = g
        self.calls = 0
        self.maxd = 0

    def __call__(self, a, b):
        self.calls += 1
        da = a.d if a is not None else 0
        db = b.d if b is not None else 0
        d = max(da, db) + 1
        if d > self.maxd:
            self.maxd = d
        va = a.v if a is not None else None
        vb = b.v if b is not None else None
        return _D(self.g(va, vb), d)


def _form(items, form):
    if form == 'tuple':
        return tuple(items)
    if form == 'gen':
        return (x for x in items)
    if form == 'iter':
        return iter(items)
    return items


def _clog2(n):
    return (n - 1).bit_length() if n > 1 else 0


def check_one(name, items, initial, fn, method, no_prss, form):
    """One evaluation. items: raw values; initial: ('absent',) | ('none',) | ('val', raw).

    Returns (error string or None, total length n).
    """
    g = _op(name)
    if initial[0] == 'none':
        g = _with_none_identity(g)
    probe = _Probe(g)
    wrapped = [_D(v) for v in items]
    keep = list(wrapped)
    arg = _form(wrapped, form)
    n = len(items) + (initial[0] != 'absent')
    kw = {}
    if initial[0] == 'none':
        kw['initial'] = None
    elif initial[0] == 'val':
        kw['initial'] = _D(initial[1])
    k = _clog2(n)
    tag = f'{fn}/{method} op={name} n={n} initial={initial[0]} form={form} no_prss={no_prss}'

    if fn == 'reduce':
        # reference
        try:
            if initial[0] == 'absent':
                want = functools.reduce(g, items)
            else:
                want = functools.reduce(g, items, None if initial[0] == 'none' else initial[1])
            want_exc = None
        except TypeError:
            want, want_exc = None, TypeError
        try:
            got = mpctools.reduce(probe, arg, **kw)
        except TypeError:
            if want_exc is TypeError:
                return None, n
            return f'{tag}: TypeError raised, functools.reduce returns {want!r}: {traceback.format_exc()[-800:]}', n
        if want_exc is not None:
            return f'{tag}: functools.reduce raises TypeError (empty, no initial), mpctools.reduce returned {got!r}', n
        gv = got.v if isinstance(got, _D) else got
        if gv != want or (got is None) != (want is None):
            return f'{tag}: result {gv!r} != functools.reduce {want!r}', n
        if n >= 1 and probe.calls != n - 1:
            return f'{tag}: {probe.calls} applications of f, a binary tree over {n} items has {n - 1}', n
        if probe.maxd > k:
            return f'{tag}: application depth {probe.maxd} > ceil(log2 n) = {k}', n
    else:
        if initial[0] == 'absent':
            want = list(itertools.accumulate(items, g))
        elif initial[0] == 'none':  # documented difference: None is a value that leads off the output
            want = list(itertools.accumulate([None] + list(items), g))
        else:
            want = list(itertools.accumulate(items, g, initial=initial[1]))
        saved = mpctools.runtime
        mpctools.runtime = types.SimpleNamespace(options=types.SimpleNamespace(no_prss=no_prss))
        try:
            if method is None:
                res = mpctools.accumulate(arg, probe, **kw)
            else:
                res = mpctools.accumulate(arg, probe, method=method, **kw)
            if iter(res) is not res or not hasattr(res, '__next__'):
                return f'{tag}: accumulate did not return an iterator but {type(res).__name__}', n
            got = list(res)
            if name == 'str' and initial[0] != 'none':
                # default function (operator.add, as for itertools.accumulate) on the raw strings
                kw2 = {'initial': initial[1]} if initial[0] == 'val' else {}
                if method is not None:
                    kw2['method'] = method
                got2 = list(mpctools.accumulate(_form(list(items), form), **kw2))
                if got2 != want:
                    return f'{tag}: with the default function the output differs from itertools.accumulate', n
        finally:
            mpctools.runtime = saved
        gv = [x.v if isinstance(x, _D) else x for x in got]
        if gv != want:
            j = next((i for i, (a, b) in enumerate(zip(gv, want)) if a != b), min(len(gv), len(want)))
            return (f'{tag}: output differs from itertools.accumulate at index {j} (lengths {len(gv)}/{len(want)}): '
                    f'{gv[j:j + 1]!r} vs {want[j:j + 1]!r}'), n
        if initial[0] == 'none' and got and got[0] is not None:
            return f'{tag}: first output is not the initial value None', n
        bk = max(2 * k - 2, k)
        if method == 'Sklansky':
            if probe.maxd > k:
                return f'{tag}: application depth {probe.maxd} > ceil(log2 n) = {k}', n
            if n == 1 << k and n >= 1 and probe.calls != (n // 2) * k:
                return f'{tag}: {probe.calls} applications, documented (n/2)k = {(n // 2) * k}', n
        elif method == 'Brent-Kung':
            if probe.maxd > bk:
                return f'{tag}: application depth {probe.maxd} > max(2k-2,k) = {bk}', n
            if n == 1 << k and n >= 1:
                if probe.maxd != bk:
                    return f'{tag}: application depth {probe.maxd}, documented max(2k-2,k) = {bk}', n
                if probe.calls != 2 * n - 2 - k:
                    return f'{tag}: {probe.calls} applications, documented 2n-2-k = {2 * n - 2 - k}', n
        else:
            if probe.maxd > bk:
                return f'{tag}: application depth {probe.maxd} > max(2k-2,k) = {bk}', n
    # drop-in replacement: the caller's sequence is left alone
    if len(wrapped) != len(keep) or any(a is not b for a, b in zip(wrapped, keep)):
        return f'{tag}: the input list was modified', n
    if any(w.d != 0 for w in keep):
        return f'{tag}: an input item was modified', n
    return None, n


VARIANTS = [('reduce', None, False), ('acc', 'Brent-Kung', False), ('acc', 'Sklansky', False),
            ('acc', None, False), ('acc', None, True)]


# ---------------------------------------------------------------- cases

def budget(tier):
    return dict(shards=16, examples=250 if tier == 'quick' else 2500)


def enumerate_cases(tier):
    top, step = (161, 12) if tier == 'quick' else (1101, 25)
    # long cells first within each block so shards are balanced
    for lo in range(0, top, step):
        for op in OPS:
            yield {'mode': 'exh', 'op': op, 'lo': lo, 'hi': min(top, lo + step), 'seed': lo * 31 + len(op)}


_LENS = [0, 1, 2, 3, 4, 5, 7, 8, 9, 15, 16, 17, 31, 32, 33, 63, 64, 65, 127, 128, 129, 255, 256, 257, 511, 512, 513,
         1023, 1024, 1025, 2047, 2048, 2049]


@st.composite
def _items(draw, op, n):
    if op == 'seg':
        kind = draw(st.sampled_from(['chain', 'chain', 'chain', 'broken', 'random' if n <= 64 else 'broken']))
        s = draw(st.integers(-5, 5))
        xs = [[s + i, s + i + 1] for i in range(n)]
        if kind == 'broken' and n:
            for j in draw(st.lists(st.integers(0, n - 1), max_size=3, unique=True)):
                xs[j] = draw(st.sampled_from([0, [xs[j][0], xs[j][1] + 1], [xs[j][0] + 1, xs[j][1]]]))
        elif kind == 'random':
            xs = draw(st.lists(st.one_of(st.just(0), st.lists(st.integers(0, 3), min_size=2, max_size=2)),
                               min_size=n, max_size=n))
        return xs
    seed = draw(st.integers(0, 2**32))
    rng = _Rng(seed)
    xs = [_item(op, rng, i) for i in range(n)]
    # a few freely drawn items at the front (shrinkable, covers identities / zeros / singular matrices)
    m = min(n, 6)
    if op == 'str':
        head = draw(st.lists(st.text('ab', max_size=2), min_size=m, max_size=m))
    elif op == 'mat':
        head = draw(st.lists(st.lists(st.sampled_from([0, 1, 2, P - 1, 17]), min_size=4, max_size=4),
                             min_size=m, max_size=m))
    elif op == 'aff':
        head = draw(st.lists(st.lists(st.sampled_from([0, 1, 2, P - 1, 17]), min_size=2, max_size=2),
                             min_size=m, max_size=m))
    elif op == 'perm':
        head = draw(st.lists(st.permutations(list(range(K))), min_size=m, max_size=m))
    else:
        head = xs[:m]
    xs[:m] = head
    return xs


@st.composite
def _case(draw, tier):
    op = draw(st.sampled_from(OPS))
    n = draw(st.one_of(st.sampled_from(_LENS), st.integers(0, 40), st.integers(0, 300), st.integers(0, 2100)))
    ini = draw(st.sampled_from(['absent', 'val', 'none']))
    items = draw(_items(op, n))
    if ini == 'val':
        if op == 'seg' and items and items[0] != 0 and draw(st.booleans()):
            initial = ['val', [items[0][0] - 1, items[0][0]]]
        else:
            initial = ['val', draw(_items(op, 1))[0]]
    else:
        initial = [ini]
    fn, method, no_prss = draw(st.sampled_from(VARIANTS))
    form = draw(st.sampled_from(['list', 'tuple', 'gen', 'iter']))
    return {'mode': 'gen', 'op': op, 'items': items, 'initial': initial, 'fn': fn, 'method': method,
            'no_prss': no_prss, 'form': form}


def strategy(tier):
    return _case(tier)


def run_case(case):
    op = case['op']
    try:
        if case['mode'] == 'exh':
            rng = _Rng(case['seed'])
            pool = [_raw(op, _item(op, rng, i)) for i in range(case['hi'] + 1)]
            cnt = nt = 0
            for n in range(case['lo'], case['hi']):
                for ini in ('absent', 'val', 'none'):
                    k = n - (ini != 'absent')  # n is the total length including the initial value
                    if k < 0:
                        continue
                    if ini == 'val':
                        initial, items = ('val', pool[0]), pool[1:k + 1]
                    else:
                        initial, items = (ini,), pool[:k]
                    for fn, method, no_prss in VARIANTS:
                        err, tot = check_one(op, items, initial, fn, method, no_prss, 'list')
                        if err:
                            return Outcome(False, err, labels=[f'op={op}'])
                        cnt += 1
                        nt += tot >= 3
            return Outcome(True, labels=[f'exh:op={op}'], n=cnt, n_nt=nt, exhaustive=True)
        items = [_raw(op, v) for v in case['items']]
        ini = case['initial']
        initial = ('val', _raw(op, ini[1])) if ini[0] == 'val' else (ini[0],)
        err, tot = check_one(op, items, initial, case['fn'], case['method'], case['no_prss'], case['form'])
    except Exception:
        return Outcome(False, f'exception on valid input: {traceback.format_exc()[-1500:]}')
    lb = [f'op={op}', f'fn={case["fn"]}/{case["method"]}', f'initial={ini[0]}', f'form={case["form"]}',
          'n=' + ('0' if tot == 0 else '1' if tot == 1 else '2' if tot == 2 else
                  'pow2' if tot & (tot - 1) == 0 else 'pow2+-1' if (tot & (tot + 1) == 0 or (tot - 1) & (tot - 2) == 0)
                  else '<=40' if tot <= 40 else '>40')]
    if err:
        return Outcome(False, err, labels=lb)
    return Outcome(True, labels=lb, nontrivial=tot >= 3)
