"""C11: the parties' shares of every secure value form a consistent degree-t sharing.

Every party returns its own share (public mpc.gather) of every value the generated program
created; an independent Lagrange interpolation over all m shares must give a polynomial of
degree <= t whose constant term is the reference value (mod the field prime).
"""
from hypothesis import strategies as st
from vlib import progs, refmath as R
from vlib.runner import Outcome

ID = 'C11'
LEVEL = 'exploration'
RULE = ('generated (m,t>=1 weighted,PRSS on/off,l) x integer programs incl. inputs by every party, products, '
        'comparisons, gcd family, list operations, PRSS/dealt randomness (random_bit(s), _random) x schedules; '
        'oracle = independent Lagrange interpolation of all m own-shares (obtained with mpc.gather) of EVERY '
        'program value: degree <= t and constant term == Python-int reference mod p; non-trivial = t>=1 and '
        'some value produced by mul/reshare/randomness/input of another party; distinct by case hash')
ASSUMPTIONS = ['shares are read at the end of the run (values are immutable once computed)',
               'secure integers only in this module; field/fixed-point sharings are interpolated in C04/C02']


TIMEOUT_INCONCLUSIVE = True  # hangs are decided by quiescence in the simulator, not by the wall clock


def budget(tier):
    return dict(shards=16, examples=80 if tier == 'quick' else 600)


@st.composite
def _case(draw, tier):
    m, t, prss = draw(progs.config(max_m=7))
    if draw(st.integers(0, 3)) and t == 0 and m >= 3:
        t = (m - 1) // 2
    ls = [2, 3, 4, 6, 8, 10, 16] + ([24, 32, 64] if tier == 'thorough' else [])
    l = draw(st.sampled_from(ls))
    heavy = draw(st.integers(0, 4)) == 0 and l <= 8 and m <= 5
    nodes = draw(progs.int_program(m, l, max_nodes=8 if tier == 'quick' else 18, heavy=heavy, rnd=True))
    sched = draw(progs.schedule(m, rich=False))
    return dict(m=m, t=t, prss=prss, l=l, seed=draw(st.integers(0, 2**20)), nodes=nodes, sched=sched,
                cli_t=draw(progs.cli_threshold(m, t)))


def strategy(tier):
    return _case(tier)


def _walk(ref, shares_by_party, path, out):
    """Pair reference values with the tuple of all parties' shares, recursively through lists."""
    s0 = shares_by_party[0]
    if isinstance(s0, list):
        for k in range(len(s0)):
            sub = [sp[k] for sp in shares_by_party]
            r = ref[k] if isinstance(ref, list) and len(ref) == len(s0) and not (ref and isinstance(ref[0], str)) else None
            _walk(r, sub, path + [k], out)
        return
    if s0 is None:
        return
    out.append((path, ref, shares_by_party))


def run_case(case):
    if not progs.is_valid(case['nodes'], case['l']):
        return Outcome(True, skipped=True, nontrivial=False, labels=['invalid-program'])
    m, t = case['m'], case['t']
    sim, res, ref = progs.run_int_case(case, collect_shares=True)
    feats = progs.program_features(case['nodes'], m, t)
    labels = [f'm={m}', f't={t}', f"prss={case['prss']}"] + feats['ops']
    if res.inconclusive:
        return Outcome(True, inconclusive=True, labels=labels, nontrivial=False)
    if not res.all_done:
        return Outcome(False, f'run did not complete: {res.describe()}\ncase={case}', labels=labels)
    p = res.values[0]['modulus']
    if any(v['modulus'] != p for v in res.values):
        return Outcome(False, 'parties disagree on the field modulus', labels=labels)
    checked = 0
    for idx, nd in enumerate(case['nodes']):
        items = []
        _walk(ref[idx], [v['shares'][idx] for v in res.values], [idx], items)
        for path, want, shares in items:
            if any(s is None for s in shares):
                return Outcome(False, f'node {path} {nd}: some parties hold a share, others do not: {shares}',
                               labels=labels)
            pts = [(i + 1, s % p) for i, s in enumerate(shares)]
            poly = R.interpolate_prime(pts, p)
            deg = len(poly) - 1
            if deg > t:
                return Outcome(False, f'node {path} {nd}: shares {shares} lie on a polynomial of degree {deg} > t={t}'
                               f'\ncase={case}', labels=labels)
            const = poly[0] if poly else 0
            if isinstance(want, bool):
                want = int(want)
            if isinstance(want, int) and const != want % p:
                sv = const if const <= p // 2 else const - p
                return Outcome(False, f'node {path} {nd}: sharing has constant term {sv}, reference value {want}'
                               f'\ncase={case}', labels=labels)
            checked += 1
    nt = t >= 1 and feats['reshaping'] and bool(feats['senders'])
    labels.append('rnd' if any(nd[0] == 'rnd' for nd in case['nodes']) else 'no-rnd')
    return Outcome(True, labels=labels, nontrivial=nt, n=max(checked, 1))
