"""C27: every finite group family of mpyc.fingroups obeys the group laws in all coordinate systems.

Every operation result is compared with an independent reference model of the group
(vlib/refgroups.py: permutations, integers mod p, textbook affine Edwards / Weierstrass addition over
Fp and Fp[i], textbook Cantor composition on Mumford pairs, Dirichlet composition of quadratic forms)
and, in addition, the laws themselves are evaluated on the mpyc side through `==`:
associativity, identity, inverses, commutativity where declared, operation2 (a @ a with the same
object) vs operation on an equal but distinct representative, repeat(a, n) vs n-fold application for
small n and vs the reference power / the homomorphism law for huge n of either sign, the three
operator notations, normalize(), agreement of the coordinate systems of one curve, the declared order
of the generator, and decode(encode(m)) == m on the documented message range.

Three modes of cases:
  exh    exhaustive cell: rows [lo, hi) of the complete operation table of a small group
  order  declared order / generator / built-in parameter check of one group type
  gen    Hypothesis-generated (group, three element words, exponents n, k, s, message)
"""
import json
import math
import functools
import random
import traceback
from hypothesis import strategies as st
from vlib.boot import boot
from vlib.runner import Outcome
from vlib import refmath as R, refgroups as RG

ID = 'C27'
LEVEL = 'exploration'
RULE = ('groups: Sym(0..6), QR (odd primes 3..2^127-1 / bit lengths 2..1024), Schnorr (small explicit and l<=1024), '
        'the 5 built-in elliptic curves x every coordinate system (15 types), hyperelliptic DGS (genus 0..4, p from 3 '
        'to 96 bits, affine and Costello-Lauter coordinates) and kummer1271, class groups (prime |D| from 3 to 1024 '
        'bits); elements = identity, generator^k, encode() outputs, directly constructed values (permutations, '
        'squares, enumerated Mumford pairs / reduced forms, prime forms) and products/inverses of those; exponents '
        'small, around the order, and up to +-2^(bits+70); every result compared with an independent reference group '
        'model plus the laws via ==. mode exh = rows of the complete operation table of a small group (Sym(0..4), QR '
        'mod primes <= 61, small Schnorr, all class groups with prime |D| < 1000, DGS Jacobians with p <= 31; '
        'thorough: more), mode order = declared order/generator/parameters of one listed type, mode gen = generated; '
        'non-trivial = group order > 1 and both operands (a, b) not the identity; distinct by case hash / '
        'enumerated pair')
ASSUMPTIONS = ['reference models in vlib/refgroups.py (textbook formulas over Python ints) are the trusted base; '
               'curve parameters of the built-in curves are hard-coded from the standards (p, a, d / a, b, order, '
               'base point y resp. (x, y)) except the BN256_twist base point, which is validated on the reference '
               'curve and for its order',
               'documented preconditions: encode only for (m+1)*gap <= modulus (class groups: encode\'s own '
               'bound), Schnorr decode range 0..1023, encode on non-prime fields (BN256_twist) unsupported; '
               'Costello-Lauter coordinates only represent divisors with deg u = 2 and the identity (small p: '
               'operations whose reference result has deg u = 1 are excluded and counted; large p: not hit)',
               'DGS parameter pairs (p, genus) for which the constructor itself does not return (e.g. p=11, '
               'genus=2; p=3, genus=3; any p=2) and p=5 with extended coordinates are not generated']
CASE_TIMEOUT = 150

boot(numpy=False)
from mpyc import fingroups as fg  # noqa: E402
from mpyc import gfpx  # noqa: E402


class Fail(Exception):
    pass


class Skip(Exception):
    pass


# ------------------------------------------------------------------------------------------------
# built-in curve parameters, hard-coded from the standards (independent of the code under test)
_U = 1868033**3
_BNP = 36 * _U**4 + 36 * _U**3 + 24 * _U**2 + 6 * _U + 1
CURVES = {
    'Ed25519': dict(kind='ed', p=2**255 - 19, a=-1, d=(-121665, 121666), gy=(4, 5),
                    order=2**252 + 27742317777372353535851937790883648493,
                    coords=['affine', 'projective', 'extended']),
    'Ed448': dict(kind='ed', p=2**448 - 2**224 - 1, a=1, d=(-39081, 1), gy=(19, 1),
                  order=2**446 - 0x8335dc163bb124b65129c96fde933d8d723a70aadc873d6d54a7bb0d,
                  coords=['affine', 'projective', 'extended']),
    'secp256k1': dict(kind='w', p=2**256 - 2**32 - 977, a=0, b=7,
                      g=(0x79BE667EF9DCBBAC55A06295CE870B07029BFCDB2DCE28D959F2815B16F81798,
                         0x483ADA7726A3C4655DA4FBFC0E1108A8FD17B448A68554199C47D08FFB10D4B8),
                      order=0xFFFFFFFFFFFFFFFFFFFFFFFFFFFFFFFEBAAEDCE6AF48A03BBFD25E8CD0364141,
                      coords=['affine', 'projective', 'jacobian']),
    'BN256': dict(kind='w', p=_BNP, a=0, b=3, g=(1, -2), order=_BNP - 6 * _U**2,
                  coords=['affine', 'projective', 'jacobian']),
    'BN256_twist': dict(kind='w2', p=_BNP, a=0, b='3/(i+3)', g=None, order=_BNP - 6 * _U**2,
                        coords=['affine', 'projective', 'jacobian']),
}
EC_TYPES = [(c, k) for c in CURVES for k in CURVES[c]['coords']]

# DGS parameter pairs whose construction returns (checked once; construction is deterministic in p)
HC_SMALL_AFFINE = [(3, 0), (7, 0), (3, 1), (5, 1), (7, 1), (11, 1), (13, 1), (19, 1), (23, 1), (31, 1), (251, 1),
                   (257, 1), (3, 2), (5, 2), (7, 2), (13, 2), (19, 2), (23, 2), (31, 2), (251, 2), (257, 2),
                   (5, 3), (7, 3), (11, 3), (13, 3), (19, 3), (31, 3), (257, 3), (3, 4), (5, 4), (7, 4), (13, 4)]
HC_SMALL_CL = [(3, 2), (7, 2), (13, 2), (19, 2), (23, 2), (31, 2)]
HC_L = [(16, 1), (16, 2), (16, 3), (32, 2), (32, 3), (64, 1), (64, 2), (64, 3), (96, 2)]   # (l, genus)
HC_L_CL = [64, 96]                                                                   # genus 2, extended

QR_L = [2, 3, 4, 5, 6, 7, 8, 9, 10, 11, 12, 16, 24, 32, 64, 128, 768, 1024]
QR_P = [3, 5, 7, 11, 13, 17, 19, 23, 29, 31, 37, 41, 43, 47, 53, 59, 61, 127, 131, 251, 257, 263,
        2**31 - 1, 2**61 - 1, 2**127 - 1]
SG_PQG = [[7, 3, 2], [11, 5, 4], [11, 5, None], [23, 11, 2], [29, 7, None], [31, 5, None], [43, 7, None],
          [67, 11, None], [331, 11, None], [2**31 - 1, 331, None], [2**61 - 1, 1321, None]]
SG_LN = [[16, 8], [32, 16], [64, 32], [256, 64], [1024, 160]]
CL_L = [2, 3, 4, 5, 6, 7, 8, 9, 10, 12, 16, 20, 24, 25, 32, 40, 64, 128, 256, 512, 1024]


def _cl_discs(lo, hi):
    return [-q for q in range(lo, hi) if q % 4 == 3 and R.is_prime(q)]


# ------------------------------------------------------------------------------------------------
# adapters: one per group spec, cached per process
def _key(spec):
    return json.dumps(spec, sort_keys=True)


def adapter(spec):
    return _adapter(_key(spec))


@functools.lru_cache(maxsize=256)
def _adapter(key):
    spec = json.loads(key)
    state = random.getstate()       # the gmpy2 stubs draw Miller-Rabin bases from `random`
    random.seed(271828)
    try:
        return {'sym': SymA, 'qr': QRA, 'sg': SGA, 'ec': ECA, 'hc': HCA, 'cl': CLA}[spec['fam']](spec)
    finally:
        random.setstate(state)


class Adapter:
    """Binds an mpyc group type G to a reference model ref."""
    enc = False          # encode/decode offered
    additive = False
    multiplicative = False
    has_gen = True
    whole = True         # declared order is the order of the whole group (else: of <generator>)
    cheap = True         # scalar multiplications are cheap enough for the n*k law
    elements_ = None

    def __init__(self, spec):
        self.spec = spec

    # -- to be provided: G, ref, order, to_ref(x), from_ref(r)
    def gen(self):
        return self.G.generator, self.gen_ref

    def ident(self):
        return self.G.identity, self.ref.ident()

    def copy(self, x, salt):
        """An equal element as a distinct object (and, for projective systems, another representative)."""
        return type(x)(x.value, check=False)

    def mmax(self):
        return -1

    def elements(self):
        return None

    def label(self):
        return self.spec['fam']


class SymA(Adapter):
    has_gen = False

    def __init__(self, spec):
        super().__init__(spec)
        n = spec['n']
        self.G = fg.SymmetricGroup(n)
        self.ref = RG.RefSym(n)
        self.order = math.factorial(n)
        self.size = self.order

    def to_ref(self, x):
        if not isinstance(x, self.G):
            raise Fail(f'result {x!r} is not an element of {self.G.__name__}')
        v = x.value
        if not isinstance(v, tuple) or not self.ref.valid(v):
            raise Fail(f'value {v!r} is not a permutation tuple')
        return v

    def from_ref(self, r):
        return self.G(list(r))

    def elements(self):
        if self.spec['n'] > 5:
            return None
        import itertools
        return [tuple(p) for p in itertools.permutations(range(self.spec['n']))]

    def label(self):
        return f"sym{self.spec['n']}"


class _ModA(Adapter):
    multiplicative = True
    enc = True

    def to_ref(self, x):
        if not isinstance(x, self.G):
            raise Fail(f'result {x!r} is not an element of {self.G.__name__}')
        v = x.value
        if not isinstance(v, self.G.field):
            raise Fail(f'value {v!r} is not a field element')
        r = v.value      # canonical representative (int(v) is the signed one)
        if not (isinstance(r, int) and 0 < r < self.p):
            raise Fail(f'value {v!r} not a reduced unit')
        if not self.member(r):
            raise Fail(f'value {r} is not in the group')
        return r

    def from_ref(self, r):
        return self.G(r)


class QRA(_ModA):
    def __init__(self, spec):
        super().__init__(spec)
        if 'l' in spec:
            self.G = fg.QuadraticResidues(l=spec['l'])
            self.safe = True
        else:
            self.G = fg.QuadraticResidues(p=spec['p'])
            self.safe = None
        self.p = p = int(self.G.field.modulus)
        if not R.is_prime(p) or p % 2 == 0:
            raise Fail(f'QR modulus {p} is not an odd prime')
        if 'l' in spec and p.bit_length() != spec['l']:
            raise Fail(f'QuadraticResidues(l={spec["l"]}) has a {p.bit_length()}-bit modulus')
        if 'p' in spec and p != spec['p']:
            raise Fail('modulus differs from the requested one')
        if self.safe is None:
            self.safe = R.is_prime(p >> 1) or p == 3
        self.ref = RG.RefMod(p)
        self.order = p >> 1
        self.size = self.order
        self.gen_ref = self.G.generator.value.value
        self.gap = 128

    def member(self, r):
        return pow(r, (self.p - 1) // 2, self.p) == 1

    def mmax(self):
        return self.p // self.gap - 1      # (m+1)*gap <= p

    def elements(self):
        if self.p > 600:
            return None
        return sorted({x * x % self.p for x in range(1, self.p)})

    def label(self):
        return f'qr{self.p.bit_length()}'


class SGA(_ModA):
    def __init__(self, spec):
        super().__init__(spec)
        if 'p' in spec:
            self.G = fg.SchnorrGroup(p=spec['p'], q=spec['q'], g=spec['g'])
        elif 'q' in spec:
            self.G = fg.SchnorrGroup(q=spec['q'])
        elif spec.get('default'):
            self.G = fg.SchnorrGroup()
        else:
            self.G = fg.SchnorrGroup(l=spec['l'], n=spec['n'])
        self.p = p = int(self.G.field.modulus)
        self.q = q = int(self.G.order)
        if not (R.is_prime(p) and R.is_prime(q) and q % 2 and (p - 1) % q == 0):
            raise Fail(f'Schnorr parameters p={p}, q={q} invalid')
        if 'l' in spec and (p.bit_length(), q.bit_length()) != (spec['l'], spec['n']):
            raise Fail('bit lengths differ from the requested ones')
        if 'p' in spec and (p, q) != (spec['p'], spec['q']):
            raise Fail('parameters differ from the requested ones')
        self.ref = RG.RefMod(p)
        self.order = q
        self.size = q
        self.safe = True
        self.gen_ref = self.G.generator.value.value

    def member(self, r):
        return pow(r, self.q, self.p) == 1

    def mmax(self):
        return min(1023, self.q - 1)

    def elements(self):
        if self.q > 600:
            return None
        g = self.gen_ref
        return sorted({pow(g, i, self.p) for i in range(self.q)})

    def label(self):
        return f'sg{self.p.bit_length()}:{self.q.bit_length()}'


class ECA(Adapter):
    additive = True
    whole = False
    cheap = False

    def __init__(self, spec):
        super().__init__(spec)
        self.curve, self.coord = spec['curve'], spec['coord']
        P = CURVES[self.curve]
        self.kind = P['kind']
        self.G = G = fg.EllipticCurve(self.curve, self.coord)
        self.p = p = P['p']
        self.order = P['order']
        self.size = self.order
        self.f14 = (self.curve, self.coord) == ('Ed448', 'extended')
        self.enc = self.kind != 'w2'
        self.gap = 256
        if self.kind == 'ed':
            F = RG.Fp(p)
            d = P['d'][0] * pow(P['d'][1], -1, p) % p
            self.ref = RG.RefEdwards(F, P['a'], d)
            self.ncoord = {'affine': 2, 'projective': 3, 'extended': 4}[self.coord]
        elif self.kind == 'w':
            F = RG.Fp(p)
            self.ref = RG.RefWeierstrass(F, P['a'], P['b'])
            self.ncoord = {'affine': 2, 'projective': 3, 'jacobian': 3}[self.coord]
        else:
            F = RG.Fp2(p)
            b = F.mul(F.c(3), F.inv((3, 1)))
            self.ref = RG.RefWeierstrass(F, (0, 0), b)
            self.ncoord = {'affine': 2, 'projective': 3, 'jacobian': 3}[self.coord]
        self.F = F
        # built-in parameters against the hard-coded ones
        if G.field.order != (p if self.kind != 'w2' else p * p):
            raise Fail(f'{G.__name__}: field order differs from the standard')
        if G.order != self.order:
            raise Fail(f'{G.__name__}: declared order differs from the standard')
        gx, gy = self.conv(G.generator.normalize()[0]), self.conv(G.generator.normalize()[1])
        if self.kind == 'ed':
            if gy != P['gy'][0] * pow(P['gy'][1], -1, p) % p:
                raise Fail(f'{G.__name__}: base point y differs from the standard')
        elif self.kind == 'w':
            if (gx, gy) != (P['g'][0] % p, P['g'][1] % p):
                raise Fail(f'{G.__name__}: base point differs from the standard')
        self.gen_ref = (gx, gy)
        if not self.ref.valid(self.gen_ref):
            raise Fail(f'{G.__name__}: base point not on the standard curve')

    def conv(self, x):
        if not isinstance(x, self.G.field):
            raise Fail(f'coordinate {x!r} is not a field element')
        if self.kind != 'w2':
            r = x.value
            if not (isinstance(r, int) and 0 <= r < self.p):
                raise Fail(f'coordinate {x!r} not reduced')
            return r
        c = [int(t) for t in x.value.value]
        if len(c) > 2 or any(not 0 <= t < self.p for t in c):
            raise Fail(f'coordinate {x!r} not reduced')
        c += [0] * (2 - len(c))
        return (c[0], c[1])

    def to_ref(self, x):
        G = self.G
        if not isinstance(x, G):
            raise Fail(f'result {x!r} is not an element of {G.__name__}')
        v = x.value
        if not isinstance(v, tuple):
            raise Fail(f'value {v!r} is not a tuple')
        if self.kind != 'ed' and self.coord == 'affine' and len(v) == 0:
            return None
        if len(v) != self.ncoord:
            raise Fail(f'value has {len(v)} coordinates, expected {self.ncoord}')
        c = [self.conv(t) for t in v]
        F = self.F
        if self.coord == 'extended' and F.mul(c[3], c[2]) != F.mul(c[0], c[1]):
            raise Fail(f'extended coordinate invariant t*z == x*y violated by {v!r}')
        n = x.normalize()
        if not isinstance(n, G):
            raise Fail('normalize() does not return a group element')
        if self.kind != 'ed' and self.ncoord == 3 and c[2] == F.zero:
            if c[0] == F.zero and c[1] == F.zero:
                raise Fail(f'invalid representation (0, 0, 0)')
            if not (n == G.identity) or not (x == G.identity):
                raise Fail('point with z = 0 does not normalize to / equal the identity')
            return None
        nv = n.value
        if len(nv) != self.ncoord:
            raise Fail('normalize() changes the number of coordinates')
        nc = [self.conv(t) for t in nv]
        if self.ncoord >= 3:
            if nc[2] != F.one:
                raise Fail(f'normalize() leaves z = {nv[2]!r}')
            zi = F.inv(c[2])
            if self.coord == 'jacobian':
                zi2 = F.mul(zi, zi)
                want = (F.mul(c[0], zi2), F.mul(c[1], F.mul(zi2, zi)))
            else:
                want = (F.mul(c[0], zi), F.mul(c[1], zi))
            if (nc[0], nc[1]) != want:
                raise Fail('normalize() does not divide out z')
            if not (n == x) or not (x == n):
                raise Fail('x != x.normalize()')
            if self.ncoord == 4 and nc[3] != F.mul(nc[0], nc[1]):
                raise Fail('normalize() leaves t != x*y')
        return (nc[0], nc[1])

    def copy(self, x, salt):
        v = x.value
        if len(v) < 3:
            return type(x)(v, check=False)
        lam = self.G.field(2 + salt % 1000)
        if self.coord == 'jacobian':
            w = (v[0] * lam**2, v[1] * lam**3, v[2] * lam)
        else:
            w = tuple(t * lam for t in v)
        return type(x)(w, check=False)

    def mmax(self):
        return self.p // self.gap - 1

    def label(self):
        return f'ec-{self.curve}-{self.coord}'


class HCA(Adapter):
    additive = True
    whole = True
    cheap = False

    def __init__(self, spec):
        super().__init__(spec)
        self.curve = spec['curve']
        self.coord = spec.get('coord') or 'affine'
        if self.curve == 'kummer1271':
            self.G = G = fg.HyperellipticCurve('kummer1271')
            self.coord = 'extended'
            genus = 2
        else:
            genus = spec['genus']
            if 'l' in spec:
                self.G = G = fg.HyperellipticCurve(l=spec['l'], genus=genus, coordinates=self.coord)
            else:
                self.G = G = fg.HyperellipticCurve(p=spec['p'], genus=genus, coordinates=self.coord)
        self.cl = issubclass(G, fg.HCDivisorCL)
        if self.cl != (self.coord == 'extended' and genus == 2):
            raise Fail(f'{G.__name__}: coordinates {self.coord} not honoured')
        self.genus = genus
        self.p = p = int(G.field.modulus)
        if not R.is_prime(p) or p == 2:
            raise Fail('modulus not an odd prime')
        if 'l' in spec and (p.bit_length() != spec['l'] or p % 4 != 3):
            raise Fail(f'HyperellipticCurve(l={spec["l"]}): modulus {p} is not an l-bit Blum prime')
        if 'p' in spec and p != spec['p']:
            raise Fail('modulus differs from the requested one')
        self.poly = gfpx.GFpX(p)
        f = self.poly_coeffs(G.f)
        if len(f) != 2 * genus + 2 or f[-1] != 1:
            raise Fail(f'curve polynomial {G.f} is not monic of degree 2g+1')
        if RG.pgcdext(f, _pderiv(f, p), p)[0] != (1,):
            raise Fail(f'curve polynomial {G.f} is not squarefree')
        if self.curve == 'kummer1271':
            std = (81689052950067229064357938692912969725, 9855732443590990513334918966847277222,
                   154735094972565041023366918099598639851, 76637216448498510246042731975843417626,
                   64408548613810695909971240431892164827, 1)
            if p != 2**127 - 1 or f != RG.pshift(std, -(std[4] * pow(5, -1, p)), p):
                raise Fail('kummer1271: curve differs from the Gaudry-Schost curve (shifted to f4 = 0)')
        self.ref = RG.RefJacobian(p, f, genus)
        self.order = G.order
        self.size = None
        self.gen_ref = self.to_ref(G.generator)
        if not self.ref.valid(self.gen_ref):
            raise Fail(f'generator {G.generator!r} is not a reduced divisor of the curve')
        self.enc = genus >= 1
        self.gap = 256
        self.big = p.bit_length() >= 62
        self.elements_ = False

    def poly_coeffs(self, a):
        if not isinstance(a, self.poly):
            raise Fail(f'{a!r} is not a polynomial over GF({self.p})')
        c = tuple(int(t) for t in a.value)
        if c != R.ptrim(c) or any(not 0 <= t < self.p for t in c):
            raise Fail(f'polynomial {a!r} not in canonical form')
        return c

    def to_ref(self, x):
        G = self.G
        if not isinstance(x, G):
            raise Fail(f'result {x!r} is not an element of {G.__name__}')
        v = x.value
        if not isinstance(v, tuple):
            raise Fail(f'value {v!r} is not a tuple')
        if not self.cl:
            if len(v) != 2:
                raise Fail(f'value {v!r} is not a pair (u, v)')
            return (self.poly_coeffs(v[0]), self.poly_coeffs(v[1]))
        if len(v) != 6:
            raise Fail(f'value {v!r} is not a 6-tuple')
        c = []
        for t in v:
            if not isinstance(t, G.field) or not (isinstance(t.value, int) and 0 <= t.value < self.p):
                raise Fail(f'coordinate {t!r} is not a reduced field element')
            c.append(t.value)
        if not any(c):
            return ((1,), ())
        u1, u0, v1, v0, u1u1, u1u0 = c
        if u1u1 != u1 * u1 % self.p or u1u0 != u1 * u0 % self.p:
            raise Fail(f'extended coordinates inconsistent in {v!r}')
        return ((u0, u1, 1), R.ptrim((v0, v1)))

    def representable(self, r):
        return not self.cl or len(r[0]) in (1, 3)

    def from_ref(self, r):
        u, v = r
        if not self.cl:
            return self.G((list(u), list(v)))
        if r == self.ref.ident():
            return self.G.identity
        if len(u) != 3:
            raise Skip('divisor not representable in Costello-Lauter coordinates')
        F = self.G.field
        vv = list(v) + [0] * (2 - len(v))
        # NB: HCDivisorCL(value, check=True) is unusable (reads self.value before it is set);
        # validity is guaranteed here by the reference enumeration
        return self.G((F(u[1]), F(u[0]), F(vv[1]), F(vv[0])), check=False)

    def mmax(self):
        # (m+1)*gap <= p; Costello-Lauter encode stores 2*(m*gap+i) in u1, which must not wrap either
        return self.p // ((2 if self.cl else 1) * self.gap) - 1

    def elements(self):
        if self.elements_ is False:
            self.elements_ = self.ref.elements(limit=40000)
            if self.elements_ is not None:
                self.size = len(self.elements_)
        return self.elements_

    def label(self):
        c = 'cl' if self.cl else 'aff'
        return f'hc-{self.curve}-g{self.genus}-{c}-{self.p.bit_length()}b'


def _pderiv(f, p):
    return R.ptrim([i * f[i] % p for i in range(1, len(f))])


class CLA(Adapter):
    multiplicative = True
    enc = True
    whole = True

    def __init__(self, spec):
        super().__init__(spec)
        if 'l' in spec:
            self.G = G = fg.ClassGroup(l=spec['l'])
        else:
            self.G = G = fg.ClassGroup(Delta=spec['D'])
        self.D = D = G.discriminant
        if not (D < 0 and D % 4 == 1 and R.is_prime(-D)):
            raise Fail(f'discriminant {D} is not a negative prime discriminant = 1 mod 4')
        if 'l' in spec and D.bit_length() != spec['l']:
            raise Fail(f'ClassGroup(l={spec["l"]}) has a {D.bit_length()}-bit discriminant')
        if 'D' in spec and D != spec['D']:
            raise Fail('discriminant differs from the requested one')
        self.ref = RG.RefClassGroup(D)
        self.order = G.order
        self.size = None
        self.gen_ref = self.to_ref(G.generator)
        if not self.ref.valid(self.gen_ref):
            raise Fail(f'generator {G.generator!r} is not a reduced primitive form')
        self.gap = G.gap
        if not (isinstance(self.gap, int) and self.gap > 0 and self.gap % 4 == 0):
            raise Fail(f'gap {self.gap!r} is not a positive multiple of 4')
        self.cheap = D.bit_length() <= 130
        self.elements_ = False
        self._pf = {}

    def to_ref(self, x):
        G = self.G
        if not isinstance(x, G):
            raise Fail(f'result {x!r} is not an element of {G.__name__}')
        v = x.value
        if not (isinstance(v, tuple) and len(v) == 3 and all(isinstance(t, int) for t in v)):
            raise Fail(f'value {v!r} is not a triple of ints')
        return tuple(int(t) for t in v)

    def from_ref(self, r):
        return self.G(tuple(r))

    def mmax(self):
        # encode asserts (m+1)*gap <= isqrt(-D)/2 (a float); stay a hair inside
        b = math.isqrt(-self.D) // 2
        b -= b >> 48
        return b // self.gap - 1

    def elements(self):
        if self.elements_ is False:
            self.elements_ = self.ref.elements() if -self.D <= 300000 else None
            if self.elements_ is not None:
                self.size = len(self.elements_)
        return self.elements_

    def prime_form(self, i):
        """Form (q, b, .) for the i-th odd prime q with (D/q) = 1, b a square root of D mod 4q."""
        i %= 40
        if i not in self._pf:
            q, j = 2, -1
            while j < i:
                q = R.next_prime(q)
                if (-self.D) % q and R.legendre_def(self.D % q, q) == 1:
                    j += 1
                    b = next(t for t in range(q) if (t * t - self.D) % q == 0)
                    if b % 2 == 0:
                        b += q
                    self._pf.setdefault(j, (q, b))
        return self._pf[i]

    def label(self):
        return f'cl{self.D.bit_length()}'


# ------------------------------------------------------------------------------------------------
# the laws
class Ctx:
    def __init__(self, A):
        self.A = A
        self.n = 0

    def chk(self, x, want, what):
        got = self.A.to_ref(x)
        self.n += 1
        if got != want:
            raise Fail(f'{what}: got {_short(got)}, reference {_short(want)}')
        return x

    def eq(self, x, y, what):
        r = (x == y)
        if r is not True:
            raise Fail(f'{what}: == returned {r!r} for {_short(x)} and {_short(y)}')
        if (x != y) is not False:
            raise Fail(f'{what}: != inconsistent with ==')


def _short(x):
    s = repr(x)
    return s if len(s) < 400 else s[:400] + '...'


def _atom(A, atom, labels):
    """Evaluate an atom [kind, int]; returns (element, reference value, in <generator>)."""
    kind, val = atom
    G, ref = A.G, A.ref
    if kind == 'id':
        return G.identity, ref.ident(), True
    if kind == 'gen' and A.has_gen:
        x = G.generator ^ val
        want = ref.pow(A.gen_ref, val)
        if A.to_ref(x) != want:
            raise Fail(f'generator^{val}: got {_short(A.to_ref(x))}, reference {_short(want)}')
        return x, want, True
    if kind == 'enc' and A.enc and A.mmax() >= 0 and not (A.spec['fam'] == 'hc' and A.cl):
        m = _msg(A, val)
        try:
            MZ = G.encode(m)
        except ValueError as e:
            if 'try larger gap' in str(e):
                labels.append('encode-no-slot')
                return G.identity, ref.ident(), True
            raise
        x = MZ[(val >> 70) & 1]
        if A.spec['fam'] == 'hc':
            x = G(x.value)       # F27a: encode leaves raw lists in the value; rebuild through the constructor
        r = A.to_ref(x)
        if not ref.valid(r):
            raise Fail(f'encode({m}) returns {_short(x)}, which is not a group element')
        labels.append('atom-enc')
        return x, r, A.spec['fam'] == 'sg'
    if kind == 'perm' and A.spec['fam'] == 'sym':
        n = A.spec['n']
        items, perm, v = list(range(n)), [], val
        for i in range(n, 0, -1):
            v, j = divmod(v, i)
            perm.append(items.pop(j))
        return G(perm), tuple(perm), True
    if kind == 'val' and A.spec['fam'] in ('qr', 'sg'):
        t = 1 + val % (A.p - 1)
        r = t * t % A.p if A.spec['fam'] == 'qr' else pow(t, (A.p - 1) // A.q, A.p)
        return G(r), r, True
    if kind == 'idx' and A.elements() is not None:
        E = A.elements()
        r = E[val % len(E)]
        if A.spec['fam'] == 'hc' and not A.representable(r):
            r = ref.ident()
        return A.from_ref(r), r, True
    if kind == 'pf' and A.spec['fam'] == 'cl':
        q, b = A.prime_form(val)
        x = G((q, b))
        r = RG.form_reduce((q, b, (b * b - A.D) // (4 * q)))
        if A.to_ref(x) != r:
            raise Fail(f'constructor {G.__name__}(({q}, {b})): got {x!r}, reduced form is {r}')
        return x, r, True
    labels.append('atom-fallback-id')
    return G.identity, ref.ident(), True


def _msg(A, val, mm=None):
    if mm is None:
        mm = A.mmax()
    sel = val & 7
    f = (val >> 3) & ((1 << 64) - 1)
    if sel == 0:
        return 0
    if sel == 1:
        return mm
    if sel == 2:
        return min(mm, f % 1000)
    return (f * (mm + 1)) >> 64


def _word(A, word, labels):
    x, r = A.ident()
    first = True
    sub = True
    for atom, inv in word:
        y, s, insub = _atom(A, atom, labels)
        sub = sub and insub
        if inv:
            y, s = ~y, A.ref.inv(s)
        if first:
            x, r, first = y, s, False
        else:
            x, r = x @ y, A.ref.op(r, s)
    got = A.to_ref(x)
    if got != r:
        raise Fail(f'word {word}: got {_short(got)}, reference {_short(r)}')
    return x, r, sub


def _laws(A, case, labels):
    G, ref = A.G, A.ref
    C = Ctx(A)
    e, re_ = A.ident()
    C.chk(e, re_, 'identity')
    a, ra, suba = _word(A, case['a'], labels)
    b, rb, _ = _word(A, case['b'], labels)
    c, rc, _ = _word(A, case['c'], labels)
    n, k, s = case['n'], case['k'], case['s']
    # operation, associativity, commutativity
    ab = C.chk(a @ b, ref.op(ra, rb), 'a@b')
    bc = C.chk(b @ c, ref.op(rb, rc), 'b@c')
    l = C.chk(ab @ c, ref.op(ref.op(ra, rb), rc), '(a@b)@c')
    r = C.chk(a @ bc, ref.op(ra, ref.op(rb, rc)), 'a@(b@c)')
    C.eq(l, r, 'associativity (a@b)@c == a@(b@c)')
    ba = C.chk(b @ a, ref.op(rb, ra), 'b@a')
    if G.is_abelian:
        C.eq(ab, ba, 'commutativity (is_abelian)')
    elif ref.op(ra, rb) != ref.op(rb, ra):
        if ab == ba:
            raise Fail('a@b == b@a although the permutations do not commute')
    if (ab == a) != (rb == re_):
        raise Fail(f'a@b == a is {ab == a} but b is{"" if rb == re_ else " not"} the identity')
    # identity and inverse
    C.eq(C.chk(a @ e, ra, 'a@e'), a, 'a@e == a')
    C.eq(C.chk(e @ a, ra, 'e@a'), a, 'e@a == a')
    C.chk(e @ e, re_, 'e@e')
    ia = C.chk(~a, ref.inv(ra), '~a')
    C.chk(a.inverse(), ref.inv(ra), 'a.inverse()')
    C.eq(C.chk(a @ ia, re_, 'a@~a'), e, 'a@~a == e')
    C.eq(C.chk(ia @ a, re_, '~a@a'), e, '~a@a == e')
    C.eq(C.chk(~ia, ra, '~~a'), a, '~~a == a')
    C.chk(~e, re_, '~e')
    C.eq(C.chk(~ab, ref.op(ref.inv(rb), ref.inv(ra)), '~(a@b)'), ~b @ ~a, '~(a@b) == ~b@~a')
    # doubling: same object (operation2) vs equal distinct representative (operation)
    a2 = C.chk(a @ a, ref.op(ra, ra), 'a@a (operation2)')
    a_ = A.copy(a, case['k'])
    C.eq(a_, a, 'equal representatives compare equal')
    C.chk(a_, ra, 'copy of a')
    C.eq(C.chk(a @ a_, ref.op(ra, ra), 'a@a\' (operation on equal points)'), a2, 'operation2 == operation')
    C.chk(a_ @ ia, re_, 'a\'@~a')
    C.chk(G.operation2(ab), ref.op(ref.op(ra, rb), ref.op(ra, rb)), 'operation2(a@b)')
    C.chk(G.operation(a, b), ref.op(ra, rb), 'operation(a, b)')
    C.chk(G.inversion(b), ref.inv(rb), 'inversion(b)')
    if (a == b) != (ra == rb) or (a == ia) != (ra == ref.inv(ra)):
        raise Fail('== disagrees with the reference on (a, b) or (a, ~a)')
    # repeat: small n by n-fold application
    for t in sorted({0, 1, -1, 2, -2, 3, s, -s}):
        C.chk(a ^ t, ref.naive(ra, t), f'a^{t} vs {t}-fold application')
    x = e
    for t in range(1, min(abs(s), 6) + 1):     # n-fold application on the mpyc side as well
        x = x @ a
        C.eq(a ^ t, x, f'a^{t} == a@...@a')
    C.chk(G.repeat(a, s), ref.naive(ra, s), 'G.repeat(a, s)')
    # repeat: huge n of either sign
    an = C.chk(a ^ n, ref.pow(ra, n), f'a^n, n={n}')
    ak = C.chk(a ^ k, ref.pow(ra, k), f'a^k, k={k}')
    C.eq(C.chk(a ^ (n + k), ref.pow(ra, n + k), 'a^(n+k)'), an @ ak, 'a^(n+k) == a^n @ a^k')
    C.eq(C.chk(a ^ -n, ref.inv(ref.pow(ra, n)), 'a^-n'), ~an, 'a^-n == ~(a^n)')
    C.chk(e ^ n, re_, 'e^n')
    if A.cheap or abs(n).bit_length() + abs(k).bit_length() < 40:
        C.eq(C.chk(an ^ k, ref.pow(ra, n * k), '(a^n)^k'), a ^ (n * k), '(a^n)^k == a^(n*k)')
        if G.is_abelian:
            C.eq(ab ^ s, (a ^ s) @ (b ^ s), '(a@b)^s == a^s @ b^s')
    if A.order is not None and (A.whole or suba):
        C.eq(C.chk(a ^ A.order, re_, 'a^order'), e, 'a^order == e')
        C.eq(a ^ (n % A.order), an, 'a^(n mod order) == a^n')
    # notations
    if A.additive:
        C.chk(a + b, ref.op(ra, rb), 'a+b')
        C.chk(-a, ref.inv(ra), '-a')
        C.chk(a - b, ref.op(ra, ref.inv(rb)), 'a-b')
        C.chk(s * a, ref.naive(ra, s), 's*a')
        C.chk(n * a, ref.pow(ra, n), 'n*a')
    elif A.multiplicative:
        C.chk(a * b, ref.op(ra, rb), 'a*b')
        C.chk(1 / a, ref.inv(ra), '1/a')
        C.chk(a / b, ref.op(ra, ref.inv(rb)), 'a/b')
        C.chk(a ** s, ref.naive(ra, s), 'a**s')
        C.chk(a ** n, ref.pow(ra, n), 'a**n')
    nt = (A.size is None or A.size > 1) and ra != re_ and rb != re_
    return C.n, nt




def _encdec(A, case, labels):
    """decode(encode(m)) == m on the documented message range; outputs are group elements."""
    G = A.G
    if not A.enc or A.mmax() < 0:
        labels.append('enc-no-room')
        return
    fam = A.spec['fam']
    hcx = fam == 'hc' and bool(case.get('hcx'))
    mm = A.mmax()
    if fam == 'hc' and not hcx:
        mm = min(mm, (1 << 53) // (2 * A.gap) - 1)     # F27c: beyond that decode's float division is inexact
    m = _msg(A, case['m'], mm)
    try:
        out = G.encode(m)
    except ValueError as e:
        if 'try larger gap' in str(e):      # documented: no slot among the gap candidates
            labels.append('encode-no-slot')
            return
        raise
    if not (isinstance(out, tuple) and len(out) == 2):
        raise Fail(f'encode({m}) returns {_short(out)}, not a pair (M, Z)')
    M, Z = out
    got = G.decode(M, Z)
    if type(got) is not int or got != m:
        raise Fail(f'decode(encode({m})) = {got!r}',
                   'F27c' if fam == 'hc' and (2 * (m + 1) * A.gap).bit_length() > 53 else None)
    labels.append('encdec')
    for nm, X in (('M', M), ('Z', Z)):
        if not isinstance(X, G):
            raise Fail(f'encode({m}): {nm} is not an element of {G.__name__}')
    if fam == 'sg' and A.to_ref(M) != pow(A.gen_ref, m, A.p):
        raise Fail(f'encode({m}) is not generator^m')
    if fam != 'hc':
        for nm, X in (('M', M), ('Z', Z)):
            if not A.ref.valid(A.to_ref(X)):
                raise Fail(f'encode({m}): {nm} = {_short(X)} is not a group element')
        if fam in ('qr', 'sg', 'cl'):        # cheap families: the largest message with room as well
            try:
                got = G.decode(*G.encode(mm))
            except ValueError as e:
                if 'try larger gap' not in str(e):
                    raise
                got = mm
            if got != mm:
                raise Fail(f'decode(encode({mm})) = {got!r} (largest message with room)')
        return
    if not hcx:
        return
    # hyperelliptic curves (sub-check 'hcx', drawn for 1/8 of the cases): full message range, and the elements
    # handed out by encode are divisors of the curve and take part in the group operation like any other element
    labels.append('hc-enc-extra')
    for nm, X in (('M', M), ('Z', Z)):
        if A.cl:
            r = A.to_ref(X)
        else:   # F27a leaves raw lists in the value: read them as coefficient lists
            r = tuple(R.ptrim([int(t) % A.p for t in list(q)]) for q in X.value)
        if not A.ref.valid(r):
            raise Fail(f'encode({m}): {nm} = {_short(X)} is not a divisor of the curve (u does not divide '
                       f'f - v^2)', 'F27b' if A.cl else None)
    e = G.identity
    try:
        MZ = M @ Z
        iM = ~M
        ok = (M @ iM == e) and ((MZ @ ~Z) == M) and ((M ^ 2) == (M @ M)) and ((M ^ -1) == iM)
    except (TypeError, AttributeError):
        raise Fail(f'encode({m}): group operations on the returned elements raise:\n'
                   f'{traceback.format_exc()[-700:]}', None if A.cl else 'F27a')
    if not ok:
        raise Fail(f'encode({m}): M@~M == e, (M@Z)@~Z == M, M^2 == M@M or M^-1 == ~M fails')


def _cross(A, case, labels, holder):
    """Coordinate systems of one curve agree after normalize()."""
    spec = A.spec
    shift = None
    if spec['fam'] == 'ec':
        other = [k for k in CURVES[spec['curve']]['coords'] if k != spec['coord']]
        s2 = {'fam': 'ec', 'curve': spec['curve'], 'coord': other[case['k'] % len(other)]}
        holder['B'] = s2
        B = adapter(s2)
    elif spec['fam'] == 'hc' and spec['curve'] == 'DGS' and spec['genus'] == 2 and spec.get('l', 0) >= 62:
        if any(atom[0] not in ('gen', 'id') for w in (case['a'], case['b']) for atom, _ in w):
            return
        s2 = dict(spec)
        s2['coord'] = 'affine' if A.cl else 'extended'
        holder['B'] = s2
        B = adapter(s2)
        ext, aff = (A, B) if A.cl else (B, A)
        f45 = aff.ref.f[4] * pow(5, -1, A.p) % A.p
        if ext.ref.f != RG.pshift(aff.ref.f, -f45, A.p):     # f_ext(x) = f_aff(x - f4/5)
            raise Fail('extended-coordinate curve is not the affine curve shifted by f4/5')
        shift = -f45 if A.cl else f45     # value over B's curve -> value over A's curve
    else:
        return
    labels.append('cross-coord')
    a1, _, _ = _word(A, case['a'], labels)
    b1, _, _ = _word(A, case['b'], labels)
    try:
        a2, _, _ = _word(B, case['a'], labels)
        b2, _, _ = _word(B, case['b'], labels)
    except Fail as e:
        raise Fail(f'[same words in {B.label()}] {e.args[0]}')

    def same(x, y, what):
        rx, ry = A.to_ref(x), B.to_ref(y)
        if shift is not None:
            ry = tuple(RG.pshift(t, shift, A.p) for t in ry)
        if rx != ry:
            raise Fail(f'{what}: {A.label()} gives {_short(rx)}, {B.label()} gives {_short(ry)} after normalize()')
    same(a1, a2, 'a')
    same(a1 @ b1, a2 @ b2, 'a@b')
    same(a1 @ a1, a2 @ a2, 'a@a')
    same(~a1, ~a2, '~a')
    same(a1 ^ case['s'], a2 ^ case['s'], 'a^s')
    same(a1 ^ case['n'], a2 ^ case['n'], 'a^n')


# ------------------------------------------------------------------------------------------------
# exhaustive cells
def _exh(A, part, of):
    G, ref = A.G, A.ref
    E = A.elements()
    if E is None:
        raise Skip('group too large to enumerate')
    iscl = A.spec['fam'] == 'hc' and A.cl
    if iscl:
        E = [r for r in E if A.representable(r)]
    X = [A.from_ref(r) for r in E]
    C = Ctx(A)
    e, re_ = A.ident()
    size = len(E)
    lo, hi = part * size // of, (part + 1) * size // of
    excluded = 0
    nt = 0
    small = size <= 24

    def rep(r):
        return not iscl or A.representable(r)
    for i in range(lo, hi):
        a, ra = X[i], E[i]
        C.chk(a, ra, f'constructor round trip of {ra}')
        ia = C.chk(~a, ref.inv(ra), f'~{ra}')
        C.eq(a @ ia, e, f'{ra} @ inverse == e')
        C.eq(ia @ a, e, f'inverse @ {ra} == e')
        C.chk(a @ e, ra, f'{ra} @ e')
        C.chk(e @ a, ra, f'e @ {ra}')
        r2 = ref.op(ra, ra)
        if rep(r2):
            C.chk(a @ a, r2, f'{ra} @ itself (operation2)')
        else:
            excluded += 1
        for j in range(size):
            b, rb = X[j], E[j]
            want = ref.op(ra, rb)
            if not rep(want):
                excluded += 1
                continue
            ab = C.chk(G.operation(a, b), want, f'{ra} @ {rb}')
            if ra != re_ and rb != re_:
                nt += 1
            if small:
                for kx in range(size):
                    c, rc = X[kx], E[kx]
                    if not (rep(ref.op(rb, rc)) and rep(ref.op(want, rc))):
                        continue
                    C.eq(ab @ c, a @ (b @ c), f'associativity on {ra}, {rb}, {rc}')
        # repeat(a, n) for all |n| <= N by n-fold application
        N = min(size, 40) + 2
        for sign in (1, -1):
            base = ra if sign == 1 else ref.inv(ra)
            acc = re_
            for t in range(0, N + 1):
                if t:
                    acc = ref.op(acc, base)
                if iscl and not _chain_ok(A, ra, sign * t):
                    excluded += 1
                    continue
                C.chk(a ^ (sign * t), acc, f'{ra}^{sign * t} vs n-fold application')
        if A.order is not None and (not iscl or _chain_ok(A, ra, A.order)):
            C.chk(a ^ A.order, re_, f'{ra}^order')
    return C.n, nt, excluded


def _chain_ok(A, ra, n):
    """All intermediate values of left-to-right double-and-add for a^n are representable (CL coordinates)."""
    ref = A.ref
    if n == 0:
        return True
    if n < 0:
        ra, n = ref.inv(ra), -n
    c = ra
    for i in range(n.bit_length() - 2, -1, -1):
        c = ref.op(c, c)
        if not A.representable(c):
            return False
        if (n >> i) & 1:
            c = ref.op(c, ra)
            if not A.representable(c):
                return False
    return True


# ------------------------------------------------------------------------------------------------
# declared order / generator
def _order(A):
    G, ref = A.G, A.ref
    C = Ctx(A)
    e, re_ = A.ident()
    C.chk(e, re_, 'identity')
    fam = A.spec['fam']
    if fam == 'sym':
        n = A.spec['n']
        if G.order != A.order or G.degree != n:
            raise Fail(f'Sym({n}).order = {G.order}')
        if G.is_abelian != (n <= 2):
            raise Fail('is_abelian wrong')
        return A.order > 1
    g, rg = A.gen()
    C.chk(g, rg, 'generator')
    if A.order is None:
        return False
    if G.order != A.order:
        raise Fail(f'declared order {G.order}, expected {A.order}')
    if ref.pow(rg, A.order) != re_:
        raise Fail(f'generator^order != identity for the declared order {A.order} (reference arithmetic)')
    C.eq(C.chk(g ^ A.order, re_, 'generator^order'), e, 'generator^order == e')
    C.chk(g ^ (A.order - 1), ref.inv(rg), 'generator^(order-1)')
    C.chk(g ^ (A.order + 1), rg, 'generator^(order+1)')
    C.chk(g ^ -A.order, re_, 'generator^-order')
    if fam in ('ec', 'sg') or (fam == 'hc' and A.spec['curve'] == 'kummer1271') or (fam == 'qr' and A.safe
                                                                                   and A.order > 1):
        if not R.is_prime(A.order):
            raise Fail(f'declared order {A.order} is not prime')
        if rg == re_ or (g == e):
            raise Fail('generator is the identity although the declared order is a prime')
    if A.whole:
        if fam == 'cl' and -A.D < 1 << 25:
            E = ref.elements()
        else:
            E = A.elements()
        if E is not None and len(E) != A.order:
            raise Fail(f'declared order {A.order} but the group has {len(E)} elements (enumeration)')
    return A.order > 1


# ------------------------------------------------------------------------------------------------
# case generation
def budget(tier):
    return dict(shards=16, examples=260 if tier == 'quick' else 3600)


def _cells(spec, size, rows):
    of = max(1, -(-size // rows))
    for part in range(of):
        yield {'mode': 'exh', 'group': spec, 'part': part, 'of': of}


def _catalogue(tier):
    """All group specs used by the order mode (every listed type once)."""
    th = tier != 'quick'
    out = [{'fam': 'sym', 'n': n} for n in range(7)]
    out += [{'fam': 'qr', 'l': l} for l in QR_L if th or l <= 768]
    out += [{'fam': 'qr', 'p': p} for p in QR_P]
    out += [{'fam': 'sg', 'p': p, 'q': q, 'g': g} for p, q, g in SG_PQG]
    out += [{'fam': 'sg', 'l': l, 'n': n} for l, n in SG_LN]
    out += [{'fam': 'sg', 'q': 2**31 - 1}]
    if th:
        out += [{'fam': 'sg', 'default': True}]
    out += [{'fam': 'ec', 'curve': c, 'coord': k} for c, k in EC_TYPES]
    out += [{'fam': 'hc', 'curve': 'kummer1271'}]
    out += [{'fam': 'hc', 'curve': 'DGS', 'p': p, 'genus': g, 'coord': 'affine'} for p, g in HC_SMALL_AFFINE]
    out += [{'fam': 'hc', 'curve': 'DGS', 'p': p, 'genus': g, 'coord': 'extended'} for p, g in HC_SMALL_CL]
    out += [{'fam': 'hc', 'curve': 'DGS', 'l': l, 'genus': g, 'coord': 'affine'} for l, g in HC_L]
    out += [{'fam': 'hc', 'curve': 'DGS', 'l': l, 'genus': 2, 'coord': 'extended'} for l in HC_L_CL]
    out += [{'fam': 'cl', 'l': l} for l in CL_L if th or l <= 512]
    return out


def enumerate_cases(tier):
    th = tier != 'quick'
    for spec in _catalogue(tier):
        yield {'mode': 'order', 'group': spec}
    for n in range(6 if th else 5):
        yield from _cells({'fam': 'sym', 'n': n}, math.factorial(n), 24 if n < 5 else 12)
    for p in QR_P:
        if p <= (263 if th else 61):
            yield from _cells({'fam': 'qr', 'p': p}, p >> 1, 48)
    for l in (2, 3, 4, 5, 6, 7) + ((8, 9) if th else ()):
        yield from _cells({'fam': 'qr', 'l': l}, 1 << (l - 1), 48)
    for p, q, g in SG_PQG:
        if q <= 600:
            yield from _cells({'fam': 'sg', 'p': p, 'q': q, 'g': g}, q, 48)
    for D in _cl_discs(3, 8000 if th else 1000):
        yield from _cells({'fam': 'cl', 'D': D}, 1, 1)
    hc = [(3, 0), (7, 0), (3, 1), (5, 1), (7, 1), (11, 1), (13, 1), (19, 1), (23, 1), (31, 1), (3, 2), (5, 2), (7, 2)]
    hc += [(5, 3), (13, 2), (3, 4)] if th else []
    for p, g in hc:
        yield from _cells({'fam': 'hc', 'curve': 'DGS', 'p': p, 'genus': g, 'coord': 'affine'},
                          p**g, 16 if p**g < 100 else 8)
    for p, g in HC_SMALL_CL[:(6 if th else 3)]:
        yield from _cells({'fam': 'hc', 'curve': 'DGS', 'p': p, 'genus': g, 'coord': 'extended'}, p**g, 12)


def _scalar(bits):
    # Hypothesis draws from a wide integer range are biased towards small magnitudes: exponents beyond the
    # group order (where reduction modulo a declared order would show) get strategies of their own
    beyond = st.integers(2**bits, 2**(bits + 70))
    return st.one_of(st.integers(-12, 12), st.integers(-2**20, 2**20),
                     st.integers(-2**(bits + 70), 2**(bits + 70)), beyond, beyond.map(lambda v: -v))


_CL_GEN_DISCS = _cl_discs(3, 400) + [-3299, -1123, -4027, -32783, -104743, -1299827, -(2**31 - 1),
                                     -(2**61 - 1), -(2**89 - 1), -(2**107 - 1), -(2**127 - 1), -(2**521 - 1)]
_CL_GEN_DISCS = [D for D in _CL_GEN_DISCS if D % 4 == 1 and R.is_prime(-D)]


@st.composite
def _spec(draw, tier):
    th = tier != 'quick'
    fam = draw(st.sampled_from(['sym', 'qr', 'qr', 'sg', 'ec', 'ec', 'ec', 'ec', 'hc', 'hc', 'hc', 'cl', 'cl', 'cl']))
    if fam == 'sym':
        return {'fam': 'sym', 'n': draw(st.integers(0, 6))}, 10
    if fam == 'qr':
        if draw(st.booleans()):
            l = draw(st.sampled_from([l for l in QR_L if th or l <= 768]))
            return {'fam': 'qr', 'l': l}, l
        p = draw(st.sampled_from(QR_P))
        return {'fam': 'qr', 'p': p}, p.bit_length()
    if fam == 'sg':
        i = draw(st.integers(0, len(SG_PQG) + len(SG_LN) + (1 if th else 0)))
        if i < len(SG_PQG):
            p, q, g = SG_PQG[i]
            return {'fam': 'sg', 'p': p, 'q': q, 'g': g}, q.bit_length()
        i -= len(SG_PQG)
        if i < len(SG_LN):
            return {'fam': 'sg', 'l': SG_LN[i][0], 'n': SG_LN[i][1]}, SG_LN[i][1]
        if i == len(SG_LN):
            return {'fam': 'sg', 'q': 2**31 - 1}, 31
        return {'fam': 'sg', 'default': True}, 224
    if fam == 'ec':
        c, k = draw(st.sampled_from(EC_TYPES))
        return {'fam': 'ec', 'curve': c, 'coord': k}, CURVES[c]['p'].bit_length()
    if fam == 'hc':
        kind = draw(st.sampled_from(['small', 'small', 'l', 'lcl', 'kummer']))
        if kind == 'small':
            p, g = draw(st.sampled_from(HC_SMALL_AFFINE))
            return {'fam': 'hc', 'curve': 'DGS', 'p': p, 'genus': g, 'coord': 'affine'}, p.bit_length() * max(g, 1)
        if kind == 'l':
            l, g = draw(st.sampled_from(HC_L))
            return {'fam': 'hc', 'curve': 'DGS', 'l': l, 'genus': g, 'coord': 'affine'}, l * g
        if kind == 'lcl':
            l = draw(st.sampled_from(HC_L_CL))
            return {'fam': 'hc', 'curve': 'DGS', 'l': l, 'genus': 2, 'coord': 'extended'}, 2 * l
        return {'fam': 'hc', 'curve': 'kummer1271'}, 254
    if draw(st.booleans()):
        l = draw(st.sampled_from([l for l in CL_L if th or l <= 512]))
        return {'fam': 'cl', 'l': l}, l // 2 + 2
    D = draw(st.sampled_from(_CL_GEN_DISCS))
    return {'fam': 'cl', 'D': D}, D.bit_length() // 2 + 2


def _atom_kinds(spec):
    fam = spec['fam']
    if fam == 'sym':
        return ['perm', 'perm', 'perm', 'id']
    if fam in ('qr', 'sg'):
        return ['gen', 'gen', 'val', 'val', 'enc', 'id']
    if fam == 'ec':
        return ['gen', 'gen', 'gen', 'enc', 'id'] if spec['curve'] != 'BN256_twist' else ['gen', 'gen', 'gen', 'id']
    if fam == 'hc':
        if spec['curve'] == 'kummer1271' or spec.get('coord') == 'extended':
            return ['gen', 'gen', 'gen', 'id']
        if 'p' in spec:
            return ['gen', 'idx', 'idx', 'enc', 'id']
        return ['gen', 'gen', 'enc', 'id']
    if 'D' in spec and -spec['D'] <= 300000:
        return ['gen', 'idx', 'idx', 'pf', 'enc', 'id']
    return ['gen', 'gen', 'pf', 'pf', 'enc', 'id']


@st.composite
def _gen_case(draw, tier):
    spec, bits = draw(_spec(tier))
    kinds = _atom_kinds(spec)
    big = st.integers(-2**(bits + 70), 2**(bits + 70))
    atom = st.tuples(st.sampled_from(kinds), st.one_of(st.integers(-20, 20), big)).map(list)
    lit = st.tuples(atom, st.booleans()).map(list)
    word = st.lists(lit, min_size=1, max_size=3 if bits <= 130 else 2)
    case = {'mode': 'gen', 'group': spec, 'a': draw(word), 'b': draw(word), 'c': draw(word),
            'n': draw(_scalar(bits)), 'k': draw(_scalar(bits)), 's': draw(st.integers(-9, 13)),
            'm': draw(st.integers(0, 2**72))}
    if spec['fam'] == 'hc' and draw(st.integers(0, 7)) == 0:
        case['hcx'] = True
    return case


def strategy(tier):
    return _gen_case(tier)


# ------------------------------------------------------------------------------------------------
def _is_f14(spec):
    return bool(spec) and (spec.get('fam'), spec.get('curve'), spec.get('coord')) == ('ec', 'Ed448', 'extended')


def _known_class(spec, other, tag):
    """Known-finding class of a failing case (None: not in any listed class).

    F14: an operation of EllipticCurve('Ed448', 'extended') is involved (the case's own type, or the type
         the coordinate-agreement step compares with, if the failure arises in that step).
    F27a/b/c: raised by the dedicated sub-check ('hcx') on HyperellipticCurve encode()/decode().
    """
    if tag in ('F27a', 'F27b', 'F27c'):
        return tag
    if _is_f14(spec) or _is_f14(other):
        return 'F14'
    return None


def run_case(case):
    spec = case['group']
    mode = case['mode']
    labels = [mode]
    holder = {}
    try:
        A = adapter(spec)
        labels.append(A.label())
        if _is_f14(spec):
            labels.append('F14-class')
        if mode == 'exh':
            n, nt, excl = _exh(A, case['part'], case['of'])
            if excl:
                labels.append('cl-unrepresentable-excluded')
            return Outcome(True, labels=labels, n=max(n, 1), n_nt=nt, exhaustive=True)
        if mode == 'order':
            nt = _order(A)
            return Outcome(True, labels=labels, nontrivial=nt)
        n, nt = _laws(A, case, labels)
        _encdec(A, case, labels)
        _cross(A, case, labels, holder)
        return Outcome(True, labels=sorted(set(labels)), nontrivial=nt)
    except Skip as e:
        return Outcome(True, str(e), labels=labels + ['skipped'], nontrivial=False, skipped=True)
    except Fail as e:
        tag = e.args[1] if len(e.args) > 1 else None
        return Outcome(False, f'{_key(spec)}: {e.args[0]}\ncase={json.dumps(case)[:1500]}', labels=labels,
                       known=_known_class(spec, holder.get('B'), tag))
    except Exception:
        return Outcome(False, f'{_key(spec)}: exception on valid input:\n{traceback.format_exc()[-1800:]}\n'
                       f'case={json.dumps(case)[:1500]}', labels=labels,
                       known=_known_class(spec, holder.get('B'), None))
