"""C14: sharings dealt during protocols have full threshold degree.

Every call of thresha.random_split / np_random_split made by the running protocols (input,
resharing, randomness without PRSS) is observed through a harness-side wrapper:
  * it is called with t == the runtime's threshold and m == the number of parties;
  * it draws exactly t fresh coefficients per secret, each with secrets.randbelow(|F|);
  * the dealt shares interpolate (independent oracle) to the polynomial
    s + c[t-1] X + ... + c[0] X^t built from exactly those drawn coefficients;
  * wire: in fields > 2^40, what a dealer sends in the synchronous step right after dealing is
    never the plain encoding of the secrets just dealt (unless it is that peer's share row).
"""
from hypothesis import strategies as st
from vlib import progs, refmath as R
from vlib.observe import Observer
from vlib.runner import Outcome

ID = 'C14'
LEVEL = 'exploration'
RULE = ('generated (m>=3,t>=1,PRSS off weighted,l) x integer programs with inputs from every party, products, '
        'comparisons, truncations, randomness x schedules; oracle over EVERY observed dealing call: threshold '
        'argument == t, m argument == m, exactly t randbelow(|F|) draws per secret, shares interpolate to the '
        'polynomial with exactly the drawn coefficients, and no frame from the dealer carries the plain secret '
        'encoding (fields > 2^40); non-trivial = a dealing call with a non-constant-zero secret and t>=1')
ASSUMPTIONS = ['uniformity of coefficients is reduced to "each coefficient is one secrets.randbelow(order) draw"; '
               'the quality of the secrets module itself is trusted']


TIMEOUT_INCONCLUSIVE = True  # hangs are decided by quiescence in the simulator, not by the wall clock


def budget(tier):
    return dict(shards=16, examples=45 if tier == 'quick' else 500)


@st.composite
def _case(draw, tier):
    m, t, prss = draw(progs.config(min_m=3, max_m=5 if tier == 'quick' else 7, need_t=True))
    prss = draw(st.sampled_from([False, False, True]))
    l = draw(st.sampled_from([4, 8, 16, 16] + ([32, 64] if tier == 'thorough' else [])))
    nodes = draw(progs.int_program(m, l, max_nodes=7 if tier == 'quick' else 14, heavy=False, rnd=True))
    sched = draw(progs.schedule(m, rich=False))
    return dict(m=m, t=t, prss=prss, l=l, seed=draw(st.integers(0, 2**20)), nodes=nodes, sched=sched,
                cli_t=draw(progs.cli_threshold(m, t)))


def strategy(tier):
    return _case(tier)


def _ival(x):
    v = getattr(x, 'value', x)
    return int(v)


def check_deals(sim, obs, m, t):
    nt = 0
    unobserved = set()
    for k, d in enumerate(obs.deals):
        who = f"dealing call #{k} by party {d['pid']} ({d['variant']}, {d['n']} secrets, field order {d['order']})"
        if d['t'] != t:
            return f'{who}: called with degree {d["t"]}, threshold is {t}', nt
        if d['m'] != m:
            return f'{who}: called with m={d["m"]}, there are {m} parties', nt
        n = d['n']
        draws = d.get('draw_args') or []
        if not draws and t >= 1 and d['variant'] == 'random_split' and unobserved is not None:
            # no secrets.randbelow call seen at all: the dealer may obtain its randomness through another API of
            # the secrets module; then only what the statement itself says is checked (degree <= t, constant term =
            # secret, and -- below -- no coefficient vector used twice in the run)
            p = d['order']
            for h in range(n):
                s = _ival(d['secrets'][h]) % p
                got = R.interpolate_prime([(i + 1, _ival(d['shares'][i][h]) % p) for i in range(m)], p)
                if len(got) - 1 > t or (got[0] if got else 0) != s:
                    return f'{who}: shares of secret #{h} lie on {got}: degree > {t} or constant term != {s}', nt
                coeffs = tuple(got[1:])
                if p > 1 << 40 and coeffs and coeffs in unobserved:
                    return f'{who}: coefficient vector {coeffs} of secret #{h} was already used by an earlier dealing', nt
                unobserved.add(coeffs)
                if s != 0:
                    nt += 1
            continue
        if len(draws) != t * n:
            return f'{who}: {len(draws)} random coefficients drawn, expected t*n = {t * n}', nt
        bad = [a for a, _ in draws if a != d['order']]
        if bad:
            return f'{who}: coefficient drawn with randbelow({bad[0]}), field order is {d["order"]}', nt
        if d['variant'] != 'random_split':
            continue  # array variant: coefficient layout differs; calls/arguments checked above
        p = d['order']  # prime fields only in this module
        shares = d['shares']
        if len(shares) != m:
            return f'{who}: {len(shares)} share rows for {m} parties', nt
        for h in range(n):
            s = _ival(d['secrets'][h]) % p
            c = [r for _, r in draws[h * t:(h + 1) * t]]
            want = R.ptrim([s] + c[::-1])
            pts = [(i + 1, _ival(shares[i][h]) % p) for i in range(m)]
            got = R.interpolate_prime(pts, p)
            if tuple(got) != tuple(want):
                return (f'{who}: shares of secret #{h} lie on polynomial {got} (low degree first), expected '
                        f'{want} from secret {s} and the drawn coefficients'), nt
            if s != 0:
                nt += 1
    return None, nt


def check_wire(sim, obs, m, t):
    """What a dealer sends in the synchronous step right after a dealing call is never the plain
    encoding of the secrets it has just dealt (unless that is also the peer's share row)."""
    if t < 1:
        return None
    from mpyc import finfields
    for d in obs.deals:
        if d['variant'] != 'random_split' or d['order'] < 1 << 40:
            continue
        vals = [_ival(x) % d['order'] for x in d['secrets']]
        if not any(vals):
            continue
        fld = finfields.GF(d['order'])
        plain = bytes(fld.to_bytes(vals))
        for pid, peer, pc, data, step in obs.send_log[d['send_idx']:]:
            if step != d['step']:
                break
            if pid != d['pid'] or pc != d['pc']:
                continue  # only the messages of the dealing protocol instance itself
            row = bytes(fld.to_bytes([_ival(y) % d['order'] for y in d['shares'][peer]]))
            if data == plain and data != row:
                return (f"party {pid} dealt secrets {vals[:3]} and sent their plain encoding to party {peer} "
                        f"(label {pc}) instead of that party's share row")
    return None


def run_case(case):
    if not progs.is_valid(case['nodes'], case['l']):
        return Outcome(True, skipped=True, nontrivial=False, labels=['invalid-program'])
    m, t = case['m'], case['t']
    feats = progs.program_features(case['nodes'], m, t)
    labels = [f'm={m}', f't={t}', f"prss={case['prss']}", f"l={case['l']}"] + feats['ops']
    holder = {}

    def hook(sim):
        sim.randbelow_args = []
        holder['obs'] = Observer(sim, receives=False, tasks=False, keep_shares=True, sends=True)

    try:
        sim, res, ref = progs.run_int_case(case, sim_hook=hook)
    finally:
        if 'obs' in holder:
            holder['obs'].close()
    if res.inconclusive:
        return Outcome(True, inconclusive=True, labels=labels, nontrivial=False)
    if not res.all_done:
        return Outcome(False, f'run did not complete: {res.describe()}\ncase={case}', labels=labels)
    obs = holder['obs']
    msg, nt = check_deals(sim, obs, m, t)
    if msg is None:
        msg = check_wire(sim, obs, m, t)
    if msg:
        return Outcome(False, msg + f'\ncase={case}', labels=labels)
    labels.append(f'deals={min(len(obs.deals), 50) // 10 * 10}+')
    return Outcome(True, labels=labels, nontrivial=nt > 0, n=max(1, len(obs.deals)))
