"""C25: the pure-Python number-theory helpers of mpyc.gmpy compute what their gmpy2 counterparts compute.

Exhaustive cells (every integer / pair in a bounded range) plus generated large structured inputs, each
result compared with a definition-level oracle (vlib/ntref.py, vlib/refmath.py):
  is_prime / next_prime / prev_prime      trial division (small), deterministic Miller-Rabin + scan (large)
  invert                                  result in [0,|m|) with x*y = 1 mod |m|; ZeroDivisionError iff gcd != 1 or m = 0
  gcdext                                  g = gcd, Bezout identity, GMP normalisation predicate of the docstring
  jacobi / legendre / kronecker           from the factorisation (Euler criterion, multiplicativity, (a|2), (a|-1))
  isqrt / iroot / is_square               bracketing y^n <= x < (y+1)^n, exactness
  factor_prime_power                      inverse of p**d; ValueError iff not a prime power
  ratrec                                  unique reduced n/d with n = x*d mod y inside the bounds; raises iff none
  powmod, powmod_base_list, powmod_exp_list, mpz   independent square-and-multiply
"""
import math
import random
import traceback
from hypothesis import strategies as st
from vlib.boot import boot
from vlib.runner import Outcome
from vlib import refmath as R, ntref as T

ID = 'C25'
LEVEL = 'exploration'
RULE = ('exhaustive cells: every x in [-300, 5000] (thorough [-1000, 120000]) through all unary helpers and '
        'iroot(x, n) for ten exponents n, every pair in [-60, 60]^2 (thorough [-160, 160]^2) through gcdext/invert/jacobi/'
        'legendre/kronecker/powmod, ratrec for every y <= 40 (thorough 90), x in [-y-2, 2y+2], N, D in a grid '
        'incl. omitted; generated: structured integers up to 2^512 (primes, semiprimes, Carmichael numbers, '
        'strong pseudoprimes, p(2p-1), perfect powers +-1, prime powers around the 2^10 split, factored symbol '
        'denominators, gcd special classes |a|=|b|, |b|=2g, zeros, rational reconstruction instances with '
        'and without solution); oracle = definitions (brute force / known factorisation / validity '
        'predicates); non-trivial = the helper returned a value (documented raises are counted but trivial); '
        'distinct by case hash / enumerated argument tuple')
ASSUMPTIONS = ['oracle primality for large numbers: vlib/refmath.is_prime (deterministic Miller-Rabin below 3.3e24, '
               '92 fixed bases above)',
               'stub Miller-Rabin (25 random bases from the global random module, reseeded per case) errs with '
               'probability <= 4^-25 per composite; is_prime(x, n) with n < 25 is only required to accept primes',
               'ratrec with N or D omitted: the omitted bound is the largest one with 2ND < y; both omitted: '
               'N = D = floor(sqrt((y-1)/2)) must be searched',
               'legendre(x, y) is only specified for odd primes y (and raises for y even or <= 0)',
               'powmod with negative modulus: only congruence and |r| < |m| are required',
               'is_square(x < 0): False or ValueError both accepted (gmpy2 returns False)']
CASE_TIMEOUT = 600  # generous: the machine may be heavily shared; typical cases take milliseconds

boot(numpy=False)
from mpyc import gmpy  # noqa: E402

RAISES = (ValueError, ZeroDivisionError)


def budget(tier):
    return dict(shards=16, examples=500 if tier == 'quick' else 8000)


class Fail(Exception):
    pass


_CALLS = [0]  # evaluations of helpers (for the evidence counters only)


def call(f, *args):
    """('ok', value) or ('exc', name) for the documented kinds of refusal; anything else is a failure."""
    _CALLS[0] += 1
    try:
        return 'ok', f(*args)
    except RAISES as e:
        return 'exc', type(e).__name__
    except Exception:
        raise Fail(f'{f.__name__}{args} raised an undocumented exception:\n{traceback.format_exc()[-1200:]}')


def expect(f, args, want):
    """want = ('ok', v) exact value, or 'exc'."""
    got = call(f, *args)
    if want == 'exc':
        if got[0] != 'exc':
            raise Fail(f'{f.__name__}{args} returned {got[1]!r}, expected an exception (invalid input / no result)')
        return 0
    if got != want or type(got[1]) is not type(want[1]):
        raise Fail(f'{f.__name__}{args} = {got!r}, expected {want!r}')
    return 1


def _int(v, what):
    if type(v) is not int:
        raise Fail(f'{what}: result {v!r} is {type(v).__name__}, not int')
    return v


# ------------------------------------------------------------------------------ per-function checks
# each returns the number of evaluations that produced a value (non-trivial evaluations)
def chk_primes(x):
    nt = 0
    isp = R.is_prime(x)
    nt += expect(gmpy.is_prime, (x,), ('ok', isp))
    if isp or (x > 1 and any(x % q == 0 and x != q for q in (2, 3, 5, 7, 11, 13))):
        for n in (0, 1, 5):  # fewer rounds: primes still accepted, numbers with a tiny factor still rejected
            nt += expect(gmpy.is_prime, (x, n), ('ok', isp))
    nt += expect(gmpy.next_prime, (x,), ('ok', R.next_prime(x)))
    if x < 3:
        expect(gmpy.prev_prime, (x,), 'exc')
    else:
        nt += expect(gmpy.prev_prime, (x,), ('ok', R.prev_prime(x)))
    return nt


def chk_roots(x, ns):
    nt = 0
    if x < 0:
        expect(gmpy.isqrt, (x,), 'exc')
        got = call(gmpy.is_square, x)
        if got[0] == 'ok' and got[1] is not False:
            raise Fail(f'is_square({x}) = {got[1]!r} for a negative number')
        return 0
    r = math.isqrt(x)
    assert r * r <= x < (r + 1) * (r + 1)
    nt += expect(gmpy.isqrt, (x,), ('ok', r))
    nt += expect(gmpy.is_square, (x,), ('ok', r * r == x))
    for n in ns:
        got = call(gmpy.iroot, x, n)
        if got[0] != 'ok':
            raise Fail(f'iroot({x}, {n}) raised {got[1]} on valid input')
        msg = T.iroot_complaint(x, n, got[1])
        if msg:
            raise Fail(f'iroot({x}, {n}) = {got[1]!r}: {msg}')
        nt += 1
    return nt


def chk_fpp(x, want):
    """want: (p, d) or None."""
    if want is None:
        expect(gmpy.factor_prime_power, (x,), 'exc')
        return 0
    return expect(gmpy.factor_prime_power, (x,), ('ok', tuple(want)))


def chk_gcdext(a, b):
    got = call(gmpy.gcdext, a, b)
    if got[0] != 'ok':
        raise Fail(f'gcdext({a}, {b}) raised {got[1]}')
    msg = T.gcdext_complaint(a, b, got[1])
    if msg:
        raise Fail(f'gcdext({a}, {b}) = {got[1]!r}: {msg}')
    return 1


def chk_invert(x, m):
    got = call(gmpy.invert, x, m)
    exists = m != 0 and math.gcd(x, m) == 1
    if not exists:
        if got != ('exc', 'ZeroDivisionError'):
            raise Fail(f'invert({x}, {m}) -> {got!r}, expected ZeroDivisionError (no inverse)')
        return 0
    if got[0] != 'ok':
        raise Fail(f'invert({x}, {m}) raised {got[1]} although gcd = 1')
    y = _int(got[1], f'invert({x}, {m})')
    if not (0 <= y < abs(m) and (x * y - 1) % abs(m) == 0):
        raise Fail(f'invert({x}, {m}) = {y}: not the inverse in [0, |m|)')
    return 1


def chk_symbols(x, sgn, e2, primes):
    """y = sgn * 2^e2 * prod(primes) with known factorisation."""
    y = sgn
    for q in primes:
        y *= q
    y <<= e2
    nt = expect(gmpy.kronecker, (x, y), ('ok', T.kronecker_factored(x, sgn, e2, primes)))
    if y > 0 and y & 1:
        nt += expect(gmpy.jacobi, (x, y), ('ok', T.jacobi_factored(x, primes)))
        if len(primes) == 1:
            nt += expect(gmpy.legendre, (x, y), ('ok', T.legendre_euler(x, y)))
    else:
        expect(gmpy.jacobi, (x, y), 'exc')
        expect(gmpy.legendre, (x, y), 'exc')
    return nt


def chk_powmod(x, e, m):
    got = call(gmpy.powmod, x, e, m)
    if m == 0:
        if got[0] != 'exc':
            raise Fail(f'powmod({x}, {e}, 0) returned {got[1]!r}')
        return 0
    want = T.modpow(x, e, abs(m))
    if want is None:
        if got[0] != 'exc':
            raise Fail(f'powmod({x}, {e}, {m}) returned {got[1]!r} although the base is not invertible')
        return 0
    if got[0] != 'ok':
        raise Fail(f'powmod({x}, {e}, {m}) raised {got[1]} on valid input')
    r = _int(got[1], 'powmod')
    if m > 0:
        if r != want:
            raise Fail(f'powmod({x}, {e}, {m}) = {r}, expected {want}')
    elif (r - want) % m or abs(r) >= abs(m):
        raise Fail(f'powmod({x}, {e}, {m}) = {r}: not congruent to {want} / not reduced')
    return 1


def chk_ratrec(x, y, N, D, sols=None):
    args = (x, y) if N is None and D is None else (x, y, N, D)
    got = call(gmpy.ratrec, *args)
    msg = T.ratrec_complaint(x, y, N, D, got, sols)
    if msg:
        raise Fail(f'ratrec{args}: {msg}')
    return int(got[0] == 'ok')


# ------------------------------------------------------------------------------ exhaustive cells
IROOT_NS = (1, 2, 3, 4, 5, 6, 7, 8, 13, 64)
POW_ES = (-3, -1, 0, 1, 2, 3, 7)
RR_GRID = (None, -1, 0, 1, 2, 3, 4, 5, 6, 8, 11, 15, 24)


def _cell_unary(case):
    nt = 0
    for x in range(case['lo'], case['hi']):
        nt += chk_primes(x)
        nt += chk_roots(x, IROOT_NS)
        nt += chk_fpp(x, T.prime_power_bf(x))
        nt += expect(gmpy.mpz, (x,), ('ok', x))
    return nt


def _cell_pairs(case):
    a = case['a']
    nt = 0
    for b in range(case['lo'], case['hi'] + 1):
        nt += chk_gcdext(a, b)
        nt += chk_invert(a, b)
        # symbols: factorisation of |b| by trial division
        if b == 0:
            nt += chk_symbols(a, 0, 0, [])
        else:
            e2, odd = 0, abs(b)
            while odd % 2 == 0:
                odd //= 2
                e2 += 1
            primes = [q for q, e in sorted(R.factor(odd).items()) for _ in range(e)] if odd > 1 else []
            nt += chk_symbols(a, T.sign(b), e2, primes)
        for e in POW_ES:
            nt += chk_powmod(a, e, b)
    return nt


def _cell_ratrec(case):
    y = case['y']
    nt = 0
    w = max(y, 1)
    for N in RR_GRID:
        for D in RR_GRID:
            for x in range(-w - 2, 2 * w + 3):
                nt += chk_ratrec(x, y, N, D)
    return nt


def enumerate_cases(tier):
    lo, hi, step = (-300, 5001, 100) if tier == 'quick' else (-1000, 120001, 500)
    for a in range(lo, hi, step):
        yield dict(kind='cell-unary', lo=a, hi=min(a + step, hi), seed=1)
    w = 60 if tier == 'quick' else 160
    for a in range(-w, w + 1):
        yield dict(kind='cell-pairs', a=a, lo=-w, hi=w, seed=1)
    for y in range(-2, (40 if tier == 'quick' else 90) + 1):
        yield dict(kind='cell-ratrec', y=y, seed=1)


# ------------------------------------------------------------------------------ generated cases
def _bigint(maxbits):
    """Non-negative integer with weighted bit length (small, word-size boundaries, large)."""
    return st.one_of(
        st.integers(0, 1 << 16), st.integers(0, 1 << 64), st.integers(0, 1 << maxbits),
        st.builds(lambda k, d: max(0, (1 << k) + d), st.integers(0, maxbits), st.integers(-3, 3)))


def _signed(maxbits):
    return st.builds(lambda s, v: -v if s else v, st.booleans(), _bigint(maxbits))


_SEED = st.integers(0, 2**20)

PRIME_FORMS = ['rand', 'prime', 'prime', 'prime', 'prime-big', 'semi', 'sq', 'p2p1', 'chernick', 'spsp', 'carm', 'pow2',
               'cube', 'spsp-mult']


@st.composite
def _g_prime(draw):
    form = draw(st.sampled_from(PRIME_FORMS))
    return dict(kind='g-prime', form=form, a=draw(_bigint(256)), b=draw(_bigint(128)),
                delta=draw(st.sampled_from([0, 0, 0, 0, 0, 1, -1, 2, -2])), seed=draw(_SEED))


GCD_FORMS = ['gu-gv', 'equal', 'b2g', 'a2g', 'zero-a', 'zero-b', 'multiple', 'rand', 'consecutive']


@st.composite
def _g_gcd(draw):
    return dict(kind='g-gcd', form=draw(st.sampled_from(GCD_FORMS)), g=draw(_bigint(128)) + 1,
                u=draw(_signed(256)), v=draw(_signed(256)), neg=draw(st.integers(0, 3)), seed=draw(_SEED))


@st.composite
def _g_sym(draw):
    # denominator: sign * 2^e2 * product of primes next_prime(s) for the listed seeds s (with repetition)
    ps = draw(st.lists(st.one_of(st.integers(2, 60), st.integers(2, 1 << 20), st.integers(2, 1 << 64),
                                 st.integers(2, 1 << 128)), min_size=0, max_size=5))
    rep = draw(st.lists(st.integers(1, 3), min_size=len(ps), max_size=len(ps)))
    return dict(kind='g-sym', ps=ps, rep=rep, sgn=draw(st.sampled_from([1, 1, 1, -1, -1, 0])),
                e2=draw(st.sampled_from([0, 0, 0, 1, 2, 3, 4, 7])),
                xform=draw(st.sampled_from(['rand', 'rand', 'neg', 'square', 'mult', 'small', 'near', 'unit'])),
                x=draw(_bigint(300)), seed=draw(_SEED))


@st.composite
def _g_root(draw):
    n = draw(st.one_of(st.integers(1, 8), st.integers(1, 40), st.sampled_from([2, 2, 3, 64, 100, 1000])))
    rbits = max(1, min(256, 6000 // n))
    r = draw(_bigint(rbits))
    delta = draw(st.one_of(st.sampled_from([0, 0, -1, 1]), st.integers(-1000, 1000), _signed(64)))
    return dict(kind='g-root', r=r, n=n, delta=delta, seed=draw(_SEED))


FPP_FORMS = ['pp', 'pp', 'pp', 'pq-pow', 'pp-times-q', 'small-times-pp', 'pp-plus', 'le1']


@st.composite
def _g_fpp(draw):
    size = draw(st.sampled_from(['<1024', '~1024', '~1024', '<2^20', '<2^64', '<2^256']))
    a = draw({'<1024': st.integers(0, 1020), '~1024': st.integers(1000, 2100), '<2^20': st.integers(0, 1 << 20),
              '<2^64': st.integers(0, 1 << 64), '<2^256': st.integers(0, 1 << 256)}[size])
    b = draw(st.one_of(st.integers(0, 2100), st.integers(0, 1 << 64)))
    d = draw(st.one_of(st.integers(1, 12), st.integers(1, 50), st.sampled_from([1, 2, 3, 4, 5, 6, 8, 9, 25, 27, 49])))
    e = draw(st.integers(1, 4))
    return dict(kind='g-fpp', form=draw(st.sampled_from(FPP_FORMS)), a=a, b=b, d=d, e=e,
                delta=draw(st.sampled_from([1, -1, 2])), seed=draw(_SEED))


RR_FORMS = ['sol', 'sol', 'sol', 'sol-default', 'bf', 'bf', 'boundary', 'invalid']


@st.composite
def _g_ratrec(draw):
    form = draw(st.sampled_from(RR_FORMS))
    big = st.one_of(st.integers(0, 50), st.integers(0, 1 << 32), st.integers(0, 1 << 128))
    c = dict(kind='g-ratrec', form=form, N=draw(big), D=draw(big) + 1, extra=draw(big),
             n=draw(_signed(128)), d=draw(_bigint(128)) + 1, shift=draw(st.integers(-3, 3)),
             mode=draw(st.sampled_from(['ND', 'ND', 'N', 'D', 'none'])), x=draw(_signed(140)),
             primey=draw(st.booleans()), seed=draw(_SEED))
    if form == 'bf':  # brute force over d: keep D small
        c['D'] = draw(st.one_of(st.integers(1, 30), st.integers(1, 3000)))
        c['N'] = draw(st.one_of(st.integers(0, 30), st.integers(0, 1 << 20)))
        c['extra'] = draw(st.one_of(st.integers(0, 5), st.integers(0, 1 << 16)))
    return c


@st.composite
def _g_powmod(draw):
    return dict(kind='g-powmod', x=draw(_signed(300)), e=draw(st.one_of(st.integers(-5, 20), _signed(200))),
                m=draw(st.one_of(st.integers(-5, 20), _signed(300))),
                xs=draw(st.lists(_signed(200), max_size=4)), es=draw(st.lists(_bigint(100), max_size=4)),
                inv=draw(st.booleans()), seed=draw(_SEED))


def strategy(tier):
    return st.one_of(_g_prime(), _g_prime(), _g_gcd(), _g_sym(), _g_root(), _g_fpp(), _g_fpp(), _g_ratrec(),
                     _g_ratrec(), _g_powmod())


# ------------------------------------------------------------------------------ running generated cases
def _bl(x):
    b = abs(x).bit_length()
    return '<=16' if b <= 16 else '<=64' if b <= 64 else '<=128' if b <= 128 else '<=256' if b <= 256 else '>256'


def _run_g_prime(c):
    form, a, b = c['form'], c['a'], c['b']
    if form == 'rand':
        x = a
    elif form == 'prime':
        x = R.next_prime(a)
    elif form == 'prime-big':
        x = R.next_prime(a * b + 1)
    elif form == 'semi':
        x = R.next_prime(a >> (a.bit_length() // 2)) * R.next_prime(b)
    elif form == 'sq':
        x = R.next_prime(b) ** 2
    elif form == 'cube':
        x = R.next_prime(b % (1 << 64)) ** 3
    elif form == 'p2p1':
        x = T.p_2p1(b % (1 << 44)) or b
    elif form == 'chernick':
        x = T.chernick(b % (1 << 28)) or b
    elif form == 'spsp':
        x = T.SPSP[a % len(T.SPSP)]
    elif form == 'spsp-mult':
        x = T.SPSP[a % len(T.SPSP)] * R.next_prime(b % (1 << 32))
    elif form == 'carm':
        x = T.CARMICHAEL[a % len(T.CARMICHAEL)]
    else:  # pow2: 2^k + small
        x = (1 << (a % 600)) + (b % 64) - 32
    x += c['delta']
    nt = chk_primes(x)
    labels = [f'prime:{form}', 'bits' + _bl(x), 'is-prime' if R.is_prime(x) else 'composite']
    return labels, nt


def _run_g_gcd(c):
    form, g, u, v = c['form'], c['g'], c['u'], c['v']
    if form == 'gu-gv':
        a, b = g * u, g * v
    elif form == 'equal':
        a = b = g * u
    elif form == 'b2g':
        a, b = g * (2 * u + 1), 2 * g
    elif form == 'a2g':
        a, b = 2 * g, g * (2 * v + 1)
    elif form == 'zero-a':
        a, b = 0, g * v
    elif form == 'zero-b':
        a, b = g * u, 0
    elif form == 'multiple':
        a, b = g * u * v, g * v
    elif form == 'consecutive':
        a, b = u, u + 1
    else:
        a, b = u, v
    if c['neg'] & 1:
        a = -a
    if c['neg'] & 2:
        b = -b
    nt = chk_gcdext(a, b) + chk_gcdext(b, a)
    nt += chk_invert(a, b) + chk_invert(b, a)
    gg = math.gcd(a, b)
    if gg > 1:  # cofactors are coprime: an inverse exists
        nt += chk_invert(a // gg, b // gg)
    labels = [f'gcd:{form}', 'bits' + _bl(max(abs(a), abs(b))),
              'coprime' if gg == 1 else 'gcd>1']
    if abs(a) == abs(b):
        labels.append('|a|=|b|')
    elif gg and (abs(b) == 2 * gg or abs(a) == 2 * gg):
        labels.append('2g-class')
    return labels, nt


def _run_g_sym(c):
    primes = []
    for s, r in zip(c['ps'], c['rep']):
        q = R.next_prime(s)  # s >= 2 -> odd prime
        primes += [q] * r
    sgn, e2 = c['sgn'], c['e2']
    if sgn == 0:
        primes, e2 = [], 0
    y = 1
    for q in primes:
        y *= q
    x = c['x']
    xf = c['xform']
    if xf == 'neg':
        x = -x
    elif xf == 'square':
        x = x * x % y if y > 1 else x * x
    elif xf == 'mult' and primes:
        x = x * primes[x % len(primes)]
    elif xf == 'unit':
        x = (-1, 1, 0, 2, -2)[x % 5]
    elif xf == 'small':
        x = x % 19 - 9
    elif xf == 'near':
        x = (y << e2) * (x % 5 - 2) + (x % 7 - 3)
    nt = chk_symbols(x, sgn, e2, primes)
    labels = [f'sym:{xf}', 'y=0' if sgn == 0 else ('y<0' if sgn < 0 else ('y-even' if e2 else 'y-odd+')),
              f'nprimes={min(len(primes), 4)}']
    return labels, nt


def _run_g_root(c):
    n = c['n']
    x = max(0, c['r'] ** n + c['delta'])
    ns = [n] + ([2] if n != 2 else []) + ([3] if n != 3 else [])
    nt = chk_roots(x, ns)
    labels = ['root', f'n={n if n <= 3 else "4..8" if n <= 8 else ">8"}',
              'exact' if c['delta'] == 0 else 'off-by-one' if abs(c['delta']) == 1 else 'inexact', 'bits' + _bl(x)]
    return labels, nt


def _run_g_fpp(c):
    form, d, e = c['form'], c['d'], c['e']
    p = R.next_prime(c['a'])
    q = R.next_prime(c['b'])
    d = max(1, min(d, 1600 // p.bit_length()))
    if form == 'pp':
        x, want = p ** d, (p, d)
    elif form == 'pq-pow':
        x, want = (p * q) ** d, ((p, 2 * d) if p == q else None)
    elif form == 'pp-times-q':
        x, want = p ** d * q ** e, ((p, d + e) if p == q else None)
    elif form == 'small-times-pp':
        s = R.next_prime(c['b'] % 1024)
        x, want = s * p ** d, ((p, d + 1) if p == s else None)
    elif form == 'pp-plus':
        x = p ** d + c['delta']
        if x.bit_length() > 36:
            x = R.next_prime(c['a'] % (1 << 17)) ** (d % 2 + 1) + c['delta']
        want = T.prime_power_bf(x)  # trial division up to 2^18
    else:  # le1
        x, want = 1 - c['b'] % 5, None
    nt = chk_fpp(x, want)
    labels = [f'fpp:{form}', 'base' + ('<1024' if p < 1024 else '<2048' if p < 2048 else _bl(p)),
              'is-pp' if want else 'not-pp', f'd={d if d <= 4 else ">4"}']
    return labels, nt


def _run_g_ratrec(c):
    form, mode = c['form'], c['mode']
    N, D = c['N'], c['D']
    labels = [f'ratrec:{form}', f'mode={mode}']
    if form in ('sol', 'sol-default'):
        if form == 'sol-default' or mode == 'none':
            y = max(1, 2 * N * D + 1 + c['extra'])
            if c['primey']:
                y = R.next_prime(y)
            mode = 'none'
            N, D = T.ratrec_box(y, None, None)
        else:
            y = 2 * N * D + 1 + c['extra']
            if c['primey']:
                y = R.next_prime(y)
        n = T.sign(c['n']) * (abs(c['n']) % (N + 1))
        d = c['d'] % D + 1
        g = math.gcd(n, d)
        if n == 0:
            d = 1
        else:
            n, d = n // g, d // g
        while math.gcd(d, y) != 1 or math.gcd(n, d) != 1:  # denominator: a unit modulo y, coprime to n
            d -= 1  # d = 1 always qualifies
        x = n * pow(d, -1, y) % y + c['shift'] * y
        a = dict(ND=(N, D), N=(N, None), D=(None, D), none=(None, None))[mode]
        box = T.ratrec_box(y, *a)
        assert box is not None and abs(n) <= box[0] and d <= box[1]
        nt = chk_ratrec(x, y, a[0], a[1], sols=[(n, d)])
        labels += ['has-solution', 'bits' + _bl(y)]
        return labels, nt
    if form == 'bf':
        y = 2 * N * D + 1 + c['extra']
        x = c['x'] % (3 * y) - y
        a = dict(ND=(N, D), N=(N, None), D=(None, D), none=(None, None))[mode]
        box = T.ratrec_box(y, *a)
        if box is not None and box[1] > 20000:
            a = (N, D)
        nt = chk_ratrec(x, y, a[0], a[1])
        labels += ['returned' if nt else 'no-solution', 'bits' + _bl(y)]
        return labels, nt
    if form == 'boundary':  # 2ND relative to y
        y = 2 * N * D + (c['shift'] % 3 - 1)  # 2ND-1, 2ND (both refused), 2ND+1 (valid)
        x = c['x']
        if y <= 2 * N * D:
            if call(gmpy.ratrec, x, y, N, D)[0] != 'exc':
                raise Fail(f'ratrec({x}, {y}, {N}, {D}) accepted although 2ND >= y')
            nt = 0
            if y == 2 * N * D and N > 0 and D >= 2:
                # with D omitted the largest valid D' = D - 1 >= 1 exists: n/1 is the solution for x = n
                n = T.sign(c['n']) * (abs(c['n']) % (N + 1))
                nt += chk_ratrec(n + c['shift'] * y, y, N, None, sols=[(n, 1)])
                labels.append('valid-omitted')
            if y == 2 * N * D and N >= 2:
                n = T.sign(c['n']) * (abs(c['n']) % N)  # |n| <= N' = N - 1
                nt += chk_ratrec(n + c['shift'] * y, y, None, D, sols=[(n, 1)])
                labels.append('valid-omitted')
            return labels + ['refused'], nt
        if D > 20000:
            # x = n/1 with |n| <= N is a solution
            n = T.sign(c['n']) * (abs(c['n']) % (N + 1))
            return labels + ['valid'], chk_ratrec(n + c['shift'] * y, y, N, D, sols=[(n, 1)])
        return labels + ['valid'], chk_ratrec(x % y if y else x, y, N, D)
    # invalid arguments: negative N, non-positive D, non-positive y, 2ND >= y
    y = 2 * N * D + 1 + c['extra']
    bad = [(y, -1 - N, D), (y, N, 1 - D), (y, N, 0), (y, -1, None), (y, None, 0), (y, None, -D),
           (-c['extra'], N, D), (-c['extra'], None, None), (0, None, D), (y, N + 1 + c['extra'], D + y)]
    yb, Nb, Db = bad[c['n'] % len(bad)]
    args = (c['x'], yb) if Nb is None and Db is None else (c['x'], yb, Nb, Db)
    got = call(gmpy.ratrec, *args)
    if got[0] != 'exc':
        raise Fail(f"ratrec{args} returned {got[1]!r} for invalid arguments")
    return labels + ['refused'], 0


def _run_g_powmod(c):
    x, e, m = c['x'], c['e'], c['m']
    if c['inv'] and m:
        g = math.gcd(x, m)
        if g > 1:
            x //= g
        if math.gcd(x, m) == 1:
            e = -abs(e) - 1
    nt = chk_powmod(x, e, m)
    mm = abs(m) + 1
    got = call(gmpy.powmod_base_list, c['xs'], abs(e), mm)
    want = [T.modpow(b, abs(e), mm) for b in c['xs']]
    if got != ('ok', want):
        raise Fail(f"powmod_base_list({c['xs']}, {abs(e)}, {mm}) = {got!r}, expected {want}")
    got = call(gmpy.powmod_exp_list, x, c['es'], mm)
    want = [T.modpow(x, y, mm) for y in c['es']]
    if got != ('ok', want):
        raise Fail(f"powmod_exp_list({x}, {c['es']}, {mm}) = {got!r}, expected {want}")
    nt += 2
    labels = ['powmod', 'e<0' if e < 0 else 'e>=0', 'm<0' if m < 0 else 'm=0' if m == 0 else 'm>0']
    return labels, nt


def in_F25a(case):
    """iroot(x, n) outside its domain without an exception: x < 0 (any n >= 1), or x == 0 with n <= 0."""
    return case['kind'] == 'iroot-raw' and (case['x'] < 0 and case['n'] >= 1 or case['x'] == 0 and case['n'] <= 0)


def _run_iroot_raw(c):
    """Direct call, including invalid arguments (x < 0 or n <= 0 must raise: gmpy2.iroot raises ValueError)."""
    x, n = c['x'], c['n']
    got = call(gmpy.iroot, x, n)
    if x >= 0 and n >= 1:
        msg = '' if got[0] == 'ok' and not T.iroot_complaint(x, n, got[1]) else f'wrong: {got!r}'
    else:
        msg = '' if got[0] == 'exc' else (f'returned {got[1]!r} for invalid input (negative x or n <= 0) instead of '
                                          f'raising; the value is not a root either')
    if msg:
        raise Fail(f'iroot({x}, {n}) {msg}')
    return ['iroot-raw'], int(got[0] == 'ok')


RUNNERS = {'g-prime': _run_g_prime, 'g-gcd': _run_g_gcd, 'g-sym': _run_g_sym, 'g-root': _run_g_root,
           'g-fpp': _run_g_fpp, 'g-ratrec': _run_g_ratrec, 'g-powmod': _run_g_powmod, 'iroot-raw': _run_iroot_raw}
CELLS = {'cell-unary': _cell_unary, 'cell-pairs': _cell_pairs, 'cell-ratrec': _cell_ratrec}


def run_case(case):
    kind = case['kind']
    state = random.getstate()
    random.seed(f"c25/{case['seed']}")  # bases of the stub Miller-Rabin come from the case
    try:
        if kind in CELLS:
            c0 = _CALLS[0]
            nt = CELLS[kind](case)
            return Outcome(True, labels=[kind], n=_CALLS[0] - c0, n_nt=nt, exhaustive=True)
        labels, nt = RUNNERS[kind](case)
        return Outcome(True, labels=labels, nontrivial=nt > 0)
    except Fail as e:
        return Outcome(False, f'{e}\ncase={case}', labels=[kind], known='F25a' if in_F25a(case) else None)
    finally:
        random.setstate(state)
