"""C03: fixed-point integrality flags are never wrong.

Same op-record machinery as C02 (vlib/fxp.py, vlib/fxpgen.py) with generators biased to whole numbers and to
lists of mixed integrality: every secure fixed-point object created anywhere in a record (inputs, constants,
intermediate nodes, results, list elements) is opened with raw=True; `x.integral is True` must imply a whole
value, and every value must equal the exact reference within the C02 tolerance of its operation (so a false
mark that changes a result -- a skipped truncation, a field division by 2^f of a non-multiple -- is caught even
where the flag itself is not visible).
"""
from vlib.boot import boot
from vlib import fxpgen

ID = 'C03'
LEVEL = 'exploration'
RULE = ('generated (m,t,PRSS) [35% m=1, else progs.config() m 2..7, mostly t>=1] x SecFxp(l,f) (as C02) x 1..12 records: the '
        'scalar C02 operations on whole/non-whole operands (flag passed explicitly with mpc.input, or inferred by the '
        'constructor for int/float constants), abs/sgn/min/max/if_else, << by 0..f+2 bits, convert round trips, operands '
        'whose flag is None (results of trunc, sin/cos, convert; also as divisors), and list operations vector_add/sub, '
        'scalar_mul, schur_prod (also x is y), in_prod (also x is y), sum, prod (2..5 factors), if_else/if_swap on lists, '
        'matrix_prod (tr on/off), list input, min/max/sorted, seclist get/set/del/pop/insert with secret index; lists of '
        '1..5 elements with patterns all-integral / none flagged / element 0 unflagged / element 0 flagged and another not '
        '(the F3 class; ~1/8 of the lists of element-0-copying operations) / independent flags (operations outside that '
        'class), and chains where a list result feeds a product, sum, comparison or secret-index access; plus enumerated '
        'cells: every assignment of non-whole / whole unflagged / whole flagged to the elements of 2-3 element lists '
        '(2-4 for seclists, every secret index) for each list operation at fixed values, split by a static F3-class '
        'predicate (records predicted outside the class must pass). Oracle: every '
        'opened object (inputs, intermediates, results, list elements): flag True => whole; value within the C02 tolerance '
        'of the exact reference; parties agree. non-trivial = a list operand with elements of differing flags, or a computed '
        'result flagged integral; distinct by case hash')
ASSUMPTIONS = ['the public flag integral= is passed identically by all parties (API contract); it is only set on whole values',
               'sec_param k=30; value failures of list-operation truncations on raw values below -2^(l-1) (probability about |raw|/2^(k+l)) are matched to the known finding F3a',
               'C02 preconditions (range, f=l//2 for division); records inside the C02 known classes F6/F7 are not run here',
               'conditions of if_else/if_swap and secret indices are whole numbers flagged integral (required by the API)',
               'tolerances for operations the C02 statement does not name: dot products n units, prod (k-1)*prod(1+|a_i|) units, '
               'selection (min/max/if_else/sorted/seclist updates) the sum of the clause tolerances of the products involved']
CASE_TIMEOUT = 900  # wall-clock watchdog for hangs only; the heaviest cases take seconds on an idle machine

boot(numpy=False)

WEIGHTS = {'add': 3, 'neg': 1, 'cmp': 2, 'mul': 5, 'mulint': 2, 'mulfloat': 4, 'div': 1, 'divp': 1, 'trunc': 1,
           'pow': 2, 'comp': 2, 'comp_cmp': 2, 'const': 3, 'scalar_sel': 3, 'list_lin': 6, 'list_mul': 7, 'matprod': 3,
           'seclist': 4, 'order': 2, 'chain': 7, 'lshift': 2, 'noneflag': 4, 'sincos_small': 1, 'prod': 3}


def budget(tier):
    return dict(shards=16, examples=300 if tier == "quick" else 2000)


def _static_exposed(rec):
    """F3 class predicate evaluated on the (static) flags of literal lists: mirrors vlib.fxp.Interp.expose."""
    def fl(L):
        return [bool(e[3]) for e in L[1:]]

    def mixed(flags):
        return flags[0] and not all(flags[1:])
    op = rec[0]
    if op in ('vadd', 'vsub'):
        a, b = fl(rec[1]), fl(rec[2])
        return a[0] and b[0] and not all(a[1:] + b[1:])
    if op in ('ifelse_l', 'ifswap_l'):
        a, b = fl(rec[2]), fl(rec[3])
        return a[0] and b[0] and not all(a[1:] + b[1:])
    if op == 'smul':
        return bool(rec[1][3]) and mixed(fl(rec[2]))
    if op == 'schur':
        return mixed(fl(rec[1])) or mixed(fl(rec[2]))
    if op == 'schur_self':
        return mixed(fl(rec[1]))
    if op == 'inl':
        return mixed([bool(it[1]) for it in rec[1]])
    if op == 'matprod':
        A = [x for row in rec[1][1:] for x in fl(row)]
        B = [x for row in rec[2][1:] for x in fl(row)]
        return mixed(A) or mixed(B)
    if op in ('sl_del', 'sl_pop'):
        a = fl(rec[1])
        return len(a) >= 3 and a[0] and a[1] and not all(a[2:])
    return False


def enumerate_cases(tier):
    """Every assignment of {non-whole, whole unflagged, whole flagged} to the elements of 2- and 3-element lists
    (2..4 for secure lists) for each list operation, at fixed values: cells of records outside the F3 class
    (predicted statically) and, separately, cells of records inside it."""
    import itertools
    types = [(16, 8)] if tier == 'quick' else [(16, 8), (9, 4), (41, 20)]
    for l, f in types:
        one = 1 << f

        def S(raw, fl=False):
            return ['s', raw, 0, fl]

        def mk(flags, base=3):
            return ['list'] + [S((base + i) * one + (5 if k == 0 else 0), k == 2) for i, k in enumerate(flags)]
        recs = []
        for n in (2, 3):
            pats = list(itertools.product([0, 1, 2], repeat=n))
            for fa in pats:
                A = mk(fa)
                recs += [['schur_self', A], ['inprod_self', A], ['sum', A], ['prod', A],
                         ['inl', [[e[1], e[3]] for e in A[1:]], 0], ['minl', A], ['sorted', A]]
                for sf in (0, 2):
                    recs.append(['smul', S(2 * one + (3 if sf == 0 else 0), sf == 2), A])
                for fb in pats:
                    B = mk(fb, 5)
                    recs += [['vadd', A, B], ['vsub', A, B], ['schur', A, B], ['inprod', A, B],
                             ['ifelse_l', S(one, True), A, B], ['ifswap_l', S(0, True), A, B]]
                    if n == 2:
                        recs += [['matprod', ['matrix', A], ['matrix', B], True],
                                 ['matprod', ['matrix', A, B], ['matrix', B, A], False]]
        # list form of convert (there and back) on every flag pattern; a later product shows a wrong mark
        for n in (2, 3):
            for fa in itertools.product([0, 1, 2], repeat=n):
                A = mk(fa, 1)
                recs += [['conv_l', A, l + 8, f + 4], ['prod', ['conv_l', A, l + 8, f + 4]],
                         ['inprod_self', ['conv_l', A, l + 8, f + 4]]]
        # mpc.prod keeps one flag per partial product of its pairwise tree: every whole/non-whole pattern of
        # 4..7 factors (odd lengths pair values and flags differently)
        wholes = [2, -1, 1, 1, -1, 1, 2]
        for n in (4, 5, 6, 7):
            for fa in itertools.product([0, 2], repeat=n):
                recs.append(['prod', ['list'] + [S(wholes[i] * one if k == 2 else (one * 7) // 10 + 3 * i + 1, k == 2)
                                                 for i, k in enumerate(fa)]])
        for n in (2, 3, 4):
            for fa in itertools.product([0, 1, 2], repeat=n):
                L = mk(fa)
                for idx in range(n):
                    ix = S(idx * one, True)
                    recs += [['sl_get', L, ix], ['sl_del', L, ix], ['sl_pop', L, ix]]
                    for vf in (0, 2):
                        V = S(9 * one + (7 if vf == 0 else 0), vf == 2)
                        recs += [['sl_set', L, ix, V], ['sl_ins', L, ix, V]]
        # constructor inference and values whose flag is None (deterministic samples, not exhaustive)
        from vlib.fxp import fl
        misc = []
        for x in (0.1, 0.3, 0.7, 3.0 - 2.0 ** -30, -0.1, -0.7, 1 / 3, 2 / 3, 0.999, 1e-9, 0.5, 1.5, 2.0, -3.0, 1.0 + 2.0 ** -40):
            misc += [['neg', ['c', fl(x)]], ['mul', ['c', fl(x)], S(3 * one + 1)], ['add', ['c', fl(x)], S(one, True)]]
        for n_ in (0, 1, -3, 7):
            misc += [['neg', ['c', n_]], ['mul', ['c', n_], S(one + 1)]]
        for y in (one + 1, 3 * one + 77, -(2 * one + 5), 7 * one + 1):
            for k in (1, 2):
                misc += [['div', S(5 * one + 3), ['trunc', S(y << k), k, False]],
                         ['mul', ['trunc', S(y << k), k, False], S(one + 3)],
                         ['abs', ['trunc', S(-(y << k)), k, False]],
                         ['cmp', 'lt', ['trunc', S(y << k), k, False], S(one)]]
            misc += [['conv', S(y), l + 8, f + 4], ['mul', ['conv', S(y), l + 8, f + 4], S(2 * one, True)]]
        for sh in (f - 1, f, f + 1, 1):
            misc += [['lshift', S(3), sh], ['lshift', S(one, True), 1]]
        for i in range(0, len(misc), 30):
            yield dict(m=1, t=0, prss=True, l=l, f=f, seed=i, recs=misc[i:i + 30], grid='misc')
        yield dict(m=3, t=1, prss=False, l=l, f=f, seed=5, recs=misc[::5], grid='misc')
        safe = [r for r in recs if not _static_exposed(r)]
        inclass = [r for r in recs if _static_exposed(r)]
        size = 30
        for k, part in (('outside-F3', safe), ('inside-F3', inclass)):
            for i in range(0, len(part), size):
                yield dict(m=1, t=0, prss=True, l=l, f=f, seed=i, recs=part[i:i + size], grid=k)
        # the same records with real sharings: a sample of both parts
        for i in range(0, len(safe), 64 * size):
            yield dict(m=3, t=1, prss=bool((i // size) % 2), l=l, f=f, seed=i, recs=safe[i:i + 30], grid='outside-F3')
        yield dict(m=3, t=1, prss=True, l=l, f=f, seed=1, recs=inclass[:30], grid='inside-F3')


def strategy(tier):
    return fxpgen.case(tier, WEIGHTS, whole_bias=0.5, m1_share=0.35, div_share=0.35)


def run_case(case):
    out = fxpgen.run_case(case, 'C03', skip_known_classes=True)
    if case.get('grid'):
        out.n = len(case['recs'])
        out.labels.append('grid:' + str(case['grid']))
        if case['grid'] == 'outside-F3' and not out.ok and out.known:
            # the static class predicate says these records are outside F3: a failure here is not the known finding
            out.known = None
            out.detail = 'failure in a record predicted to be outside the F3 class: ' + out.detail
    return out
