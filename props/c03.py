"""C03: fixed-point integrality flags are never wrong.

Same op-record machinery as C02 (vlib/fxp.py, vlib/fxpgen.py) with generators biased to whole numbers and to
lists of mixed integrality: every secure fixed-point object created anywhere in a record (inputs, constants,
intermediate nodes, results, list elements) is opened with raw=True; `x.integral is True` must imply a whole
value, and every value must equal the exact reference within the C02 tolerance of its operation (so a false
mark that changes a result -- a skipped truncation, a field division by 2^f of a non-multiple -- is caught even
where the flag itself is not visible).
"""
from vlib.boot import boot
from vlib import fxpgen

ID = 'C03'
LEVEL = 'exploration'
RULE = ('generated (m,t,PRSS) [45% m=1, rest progs.config()] x SecFxp(l,f) (as C02) x 1..10 records: the scalar C02 '
        'operations on whole/non-whole operands (flag passed explicitly with mpc.input, or inferred by the constructor '
        'for int/float constants), scalar abs/sgn/min/max/if_else, and list operations vector_add/sub, scalar_mul, '
        'schur_prod (also x is y), in_prod, sum, prod, if_else/if_swap on lists, matrix_prod (tr on/off), list input, '
        'min/max/sorted, seclist get/set/del/pop/insert with secret index; lists of 1..4 elements with patterns '
        'all-integral / none flagged / mixed with element 0 unflagged / mixed with element 0 flagged (the F3 class, '
        '~1/8 of lists), and chains where a list result feeds a product, sum, comparison or secret-index access. '
        'Oracle: every opened object: flag True => whole; value within the C02 tolerance of the exact reference; '
        'parties agree. non-trivial = a list operand with elements of differing flags, or a computed result flagged '
        'integral; distinct by case hash')
ASSUMPTIONS = ['the public flag integral= is passed identically by all parties (API contract); it is only set on whole values',
               'C02 preconditions (range, f=l//2 for division); records inside the C02 known classes F6/F7 are not run here',
               'conditions of if_else/if_swap and secret indices are whole numbers flagged integral (required by the API)',
               'tolerances for operations the C02 statement does not name: dot products n units, prod (k-1)*prod(1+|a_i|) units, '
               'selection (min/max/if_else/sorted/seclist updates) the sum of the clause tolerances of the products involved']
CASE_TIMEOUT = 150

boot(numpy=False)

WEIGHTS = {'add': 3, 'neg': 1, 'cmp': 2, 'mul': 5, 'mulint': 2, 'mulfloat': 4, 'div': 1, 'divp': 1, 'trunc': 1,
           'pow': 2, 'comp': 2, 'comp_cmp': 2, 'const': 3, 'scalar_sel': 3, 'list_lin': 6, 'list_mul': 7, 'matprod': 3,
           'seclist': 4, 'order': 2, 'chain': 7, 'lshift': 2, 'noneflag': 4, 'sincos_small': 1}


def budget(tier):
    return dict(shards=16, examples=110 if tier == 'quick' else 1500)


def strategy(tier):
    return fxpgen.case(tier, WEIGHTS, whole_bias=0.5, m1_share=0.35, div_share=0.35)


def run_case(case):
    return fxpgen.run_case(case, 'C03', skip_known_classes=True)
