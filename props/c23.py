"""C23: polynomials over GF(p) form a ring with a correct division algorithm; gcd family; p=2 representations agree."""
import functools
import traceback
from hypothesis import strategies as st
from vlib.boot import boot
from vlib.runner import Outcome, known_ids
from vlib import refmath as R, refpoly as RP

ID = 'C23'
LEVEL = 'exploration'
RULE = ('p in {2 (binary-int class AND the generic list class instantiated with p=2), 3..257, up to 2^255-19, '
        'next_prime(random < 2^40)} x polynomials (zero/constant/linear/dense/sparse, degree <= 40 (64 for p=2), '
        'less for huge p) in relations independent / exact multiple / planted common factor / equal / '
        'u*b+r / unit divisor / zero divisor; every operator form (+,-,*,unary,<<,>>,**,//,%,divmod, '
        'reflected and mixed int/list/tuple/str operands, class methods) compared with independent schoolbook '
        'reference arithmetic and the ring axioms; divmod: a=q*b+r, deg r<deg b; gcd monic, divides both, '
        'divisible by the planted factor (and by every brute-force common divisor in the exhaustive cells); '
        'gcdext Bezout identity; invert = unique reduced inverse or ZeroDivisionError; powmod vs literal '
        'repeated multiplication (|n|<=24) / square-and-multiply, negative n via inverse; degree, indexing, '
        'monic, reverse, truncate, deriv, evaluation, order, string forms vs definitions. Exhaustive cells: '
        'all ordered pairs of polynomials of degree <= D for (p,D) in quick {(2,4),(3,4),(5,1),(7,1)} / '
        'thorough {(2,8),(3,5),(5,2),(7,2),(11,1),(13,1)}. Non-trivial = a,b nonzero, deg b>=1, deg a>=deg b '
        '(a division step happens); distinct by case hash / enumerated pair')
ASSUMPTIONS = ['reference: vlib/refmath.py + vlib/refpoly.py schoolbook arithmetic on coefficient tuples with '
               'Python big ints (pow(x,-1,p) for coefficient inverses)',
               'b nonzero is a precondition of invert/powmod (docstrings); zero divisor must raise '
               'ZeroDivisionError in //, %, divmod']
CASE_TIMEOUT = 45

boot(numpy=False)
from mpyc import gfpx  # noqa: E402

B2 = gfpx.GFpX(2)
# the generic list-representation algorithms of the base class, instantiated for p=2 exactly as GFpX does for odd p
G2 = type('GF(2)[x]list', (gfpx.Polynomial,), {'__slots__': (), 'p': 2})

EXH_QUICK = [(2, 4), (3, 4), (5, 1), (7, 1)]
EXH_THOROUGH = [(2, 8), (3, 5), (5, 2), (7, 2), (11, 1), (13, 1)]
EXH_NS = (-2, -1, 0, 1, 2, 3, 5)
ALL_GROUPS = ('repr', 'ring', 'mixed', 'div', 'gcd', 'inv', 'pow', 'plainpow', 'shift', 'monic', 'reverse',
              'truncate', 'deriv', 'call', 'order', 'terms')


def budget(tier):
    return dict(shards=16, examples=500 if tier == 'quick' else 12000)


# ------------------------------------------------------------------------------------------ plumbing
class Bad(Exception):
    def __init__(self, detail, fid=None):
        super().__init__(detail)
        self.detail = detail
        self.fid = fid


class Ctx:
    def __init__(self):
        self.fails = []  # (finding id or None, detail)
        self.count = {}
        self.labels = set()

    def fail(self, detail, fid=None):
        self.count[fid] = self.count.get(fid, 0) + 1
        if self.count[fid] <= 3:
            self.fails.append((fid, detail))


_LISTED = None


def _listed():
    global _LISTED
    if _LISTED is None:
        _LISTED = known_ids(ID)
    return _LISTED


def _finish(ctx, labels, **kw):
    labels = sorted(set(labels) | ctx.labels)
    if not ctx.fails:
        return Outcome(True, '', labels=labels, **kw)
    listed = _listed()
    unknown = [(f, d) for f, d in ctx.fails if f is None or f not in listed]
    if unknown:
        detail = '\n'.join(d for _, d in unknown[:3])
        return Outcome(False, detail, labels=labels, **kw)
    fids = sorted({f for f, _ in ctx.fails})
    detail = '; '.join(f'[{f} x{ctx.count[f]}] ' + next(d for g, d in ctx.fails if g == f) for f in fids)
    return Outcome(False, detail, labels=labels + [f'known-class failure {f}' for f in fids],
                   known=ctx.fails[0][0], **kw)


class Env:
    """One polynomial class under test."""

    def __init__(self, ctx, P, p):
        self.ctx = ctx
        self.P = P
        self.p = p
        self.binary = P is B2
        self.name = f'{"binary-int" if self.binary else "list"} GF({p})[x]'

    def mk(self, t):
        return self.P(list(t))  # fresh list: the constructor does not copy

    def tup(self, x, what):
        """mpyc polynomial -> reference tuple; checks type and representation invariant."""
        P, p = self.P, self.p
        if type(x) is not P:
            raise Bad(f'{what}: result {x!r} has type {type(x).__name__}, expected {P.__name__}')
        v = x.value
        if self.binary:
            if isinstance(v, bool) or not isinstance(v, int) or v < 0:
                raise Bad(f'{what}: binary polynomial value {v!r} is not a non-negative int')
            return R.pfrom_int(v, 2)
        if not isinstance(v, list) or any(not 0 <= c < p for c in v) or (v and v[-1] == 0):
            raise Bad(f'{what}: value {v!r} violates the list invariant (coefficients in [0,p), leading nonzero)')
        return tuple(int(c) for c in v)

    def eq(self, x, want, what, fid=None):
        got = self.tup(x, what)
        if got != tuple(want):
            raise Bad(f'{what}: got {_show(got)}, reference {_show(want)}', fid)

    def group(self, name, fn):
        if self.ctx.count.get(None):
            return  # an unclassified failure is already recorded: report that one, skip consequential damage
        try:
            fn()
        except Bad as e:
            self.ctx.fail(f'{self.name} {name}: {e.detail}', e.fid)
        except Exception:
            self.ctx.fail(f'{self.name} {name}: exception on valid input\n{traceback.format_exc()[-1500:]}')

    def raises(self, fn, exc, what):
        try:
            r = fn()
        except exc:
            return
        raise Bad(f'{what}: expected {exc.__name__}, got result {r!r}')


def _show(t):
    t = list(t)
    return str(t) if len(t) <= 48 else f'{t[:40]}...(len {len(t)})'


# ------------------------------------------------------------------------------------------ check groups
def g_repr(E, a, b):
    P, p = E.P, E.p
    A = E.mk(a)
    E.eq(A, a, f'P({_show(a)})')
    ia = R.pto_int(a, p)
    if int(A) != ia:
        raise Bad(f'int(P({_show(a)})) = {int(A)}, expected {ia}')
    E.eq(P(ia), a, f'P(int {ia})')
    E.eq(P(tuple(a)), a, 'P(tuple)')
    E.eq(P(A), a, 'P(polynomial)')
    E.eq(P(-ia), R.pneg(a, p), f'P(-{ia}) must be the negated polynomial (abs for p=2)')
    if tuple(A) != tuple(a) or list(iter(A)) != list(a):
        raise Bad(f'iteration over P({_show(a)}) gives {list(A)}')
    if A.degree() != len(a) - 1:
        raise Bad(f'degree of {_show(a)}: {A.degree()}')
    if bool(A) != bool(a):
        raise Bad(f'bool of {_show(a)}: {bool(A)}')
    for i in range(len(a) + 2):
        want = a[i] if i < len(a) else 0
        if A[i] != want:
            raise Bad(f'coefficient [{i}] of {_show(a)}: {A[i]} != {want}')
    if not a and A[-1] != 0:
        raise Bad('zero polynomial [-1] must be 0')
    A2, B = E.mk(a), E.mk(b)
    if not (A == A2) or (A != A2) or hash(A) != hash(A2):
        raise Bad(f'equal polynomials {_show(a)} compare/hash unequal')
    if (A == B) != (tuple(a) == tuple(b)) or (A != B) != (tuple(a) != tuple(b)):
        raise Bad(f'==/!= wrong for {_show(a)} vs {_show(b)}')
    if (A == ia) is not True and (A == ia) != 1:
        raise Bad('polynomial == its integer form is false')
    E.eq(P(), (), 'P() default zero')


def g_ring(E, a, b, c):
    P, p = E.P, E.p
    A, B, C = E.mk(a), E.mk(b), E.mk(c)
    s_ab, d_ab, d_ba, m_ab = R.padd(a, b, p), R.psub(a, b, p), R.psub(b, a, p), R.pmul(a, b, p)
    E.eq(A + B, s_ab, 'a+b')
    E.eq(B + A, s_ab, 'b+a')
    E.eq(A - B, d_ab, 'a-b')
    E.eq(B - A, d_ba, 'b-a')
    E.eq(A * B, m_ab, 'a*b')
    E.eq(B * A, m_ab, 'b*a')
    E.eq(-A, R.pneg(a, p), '-a')
    E.eq(+A, a, '+a')
    E.eq(P.add(A, B), s_ab, 'P.add')
    E.eq(P.sub(A, B), d_ab, 'P.sub')
    E.eq(P.mul(A, B), m_ab, 'P.mul')
    E.eq(P.add(list(a), R.pto_int(b, p)), s_ab, 'P.add(list,int)')
    sq = R.pmul(a, a, p)
    E.eq(A * A, sq, 'a*a (same object)')
    E.eq(A * E.mk(a), sq, 'a*a (equal objects)')
    # axioms directly on the objects
    if (A + B) + C != A + (B + C):
        raise Bad('(a+b)+c != a+(b+c)')
    if (A * B) * C != A * (B * C):
        raise Bad('(a*b)*c != a*(b*c)')
    if A * (B + C) != A * B + A * C or (B + C) * A != B * A + C * A:
        raise Bad('distributivity fails')
    E.eq((A * B) * C, R.pmul(m_ab, c, p), '(a*b)*c')
    E.eq(A * (B + C), R.pmul(a, R.padd(b, c, p), p), 'a*(b+c)')
    zero, one = P(0), P(1)
    E.eq(A + zero, a, 'a+0')
    E.eq(A * one, a, 'a*1')
    E.eq(A * zero, (), 'a*0')
    E.eq(A + (-A), (), 'a+(-a)')
    E.eq(A - A, (), 'a-a')
    E.eq(A - B + B, a, '(a-b)+b')
    for X_, x_ in ((A, a), (B, b), (C, c)):
        E.eq(X_, x_, 'operand changed by operations (immutability)')


def g_mixed(E, a, b):
    P, p = E.P, E.p
    A = E.mk(a)
    ib = R.pto_int(b, p)
    forms = [('int', ib), ('list', list(b)), ('tuple', tuple(b)), ('str', RP.to_terms(b))]
    s, d, dr, m = R.padd(a, b, p), R.psub(a, b, p), R.psub(b, a, p), R.pmul(a, b, p)
    for nm, fb in forms:
        def fresh():
            return list(fb) if nm == 'list' else fb
        E.eq(A + fresh(), s, f'a+<{nm}>')
        E.eq(A - fresh(), d, f'a-<{nm}>')
        E.eq(A * fresh(), m, f'a*<{nm}>')
        if nm in ('int', 'str'):
            E.eq(fresh() + A, s, f'<{nm}>+a')
            E.eq(fresh() - A, dr, f'<{nm}>-a')
            E.eq(fresh() * A, m, f'<{nm}>*a')
        if b:
            q, r = R.pdivmod(a, b, p)
            E.eq(A // fresh(), q, f'a//<{nm}>')
            E.eq(A % fresh(), r, f'a%<{nm}>')
            qq, rr = divmod(A, fresh())
            E.eq(qq, q, f'divmod(a,<{nm}>)[0]')
            E.eq(rr, r, f'divmod(a,<{nm}>)[1]')
        if a and nm == 'int':  # (str % x is string formatting, list has no reflected division)
            q, r = R.pdivmod(b, a, p)
            E.eq(fresh() // A, q, f'<{nm}>//a')
            E.eq(fresh() % A, r, f'<{nm}>%a')
            qq, rr = divmod(fresh(), A)
            E.eq(qq, q, f'divmod(<{nm}>,a)[0]')
            E.eq(rr, r, f'divmod(<{nm}>,a)[1]')
    E.eq(A + (-ib), R.padd(a, R.pneg(b, p), p), 'a+(-int b)')
    E.eq(A, a, 'operand changed by mixed operations')


def g_div(E, a, b):
    P, p = E.P, E.p
    A, B = E.mk(a), E.mk(b)
    if not b:
        E.raises(lambda: divmod(A, B), ZeroDivisionError, 'divmod(a, 0)')
        E.raises(lambda: A // B, ZeroDivisionError, 'a // 0')
        E.raises(lambda: A % B, ZeroDivisionError, 'a % 0')
        E.raises(lambda: P.divmod(A, B), ZeroDivisionError, 'P.divmod(a, 0)')
        E.raises(lambda: P.mod(A, B), ZeroDivisionError, 'P.mod(a, 0)')
        return
    q, r = divmod(A, B)
    tq, tr = E.tup(q, 'divmod q'), E.tup(r, 'divmod r')
    if len(tr) >= len(b):
        raise Bad(f'divmod({_show(a)}, {_show(b)}): deg r = {len(tr) - 1} >= deg b = {len(b) - 1}')
    if R.padd(R.pmul(tq, b, p), tr, p) != tuple(a):
        raise Bad(f'divmod({_show(a)}, {_show(b)}) = ({_show(tq)}, {_show(tr)}): q*b+r != a')
    if q * B + r != A:
        raise Bad('q*b+r != a evaluated with the class operators')
    rq, rr = R.pdivmod(a, b, p)
    if (tq, tr) != (rq, rr):
        raise Bad(f'divmod({_show(a)}, {_show(b)}) = ({_show(tq)}, {_show(tr)}), reference ({_show(rq)}, {_show(rr)})')
    E.eq(A // B, rq, 'a//b')
    E.eq(A % B, rr, 'a%b')
    q2, r2 = P.divmod(A, B)
    E.eq(q2, rq, 'P.divmod q')
    E.eq(r2, rr, 'P.divmod r')
    E.eq(P.mod(A, B), rr, 'P.mod')
    E.eq(A, a, 'dividend changed by division')
    E.eq(B, b, 'divisor changed by division')


def g_gcd(E, a, b, planted=None, divs=None):
    P, p = E.P, E.p
    A, B = E.mk(a), E.mk(b)
    tg = E.tup(P.gcd(A, B), 'gcd')
    what = f'gcd({_show(a)}, {_show(b)}) = {_show(tg)}'
    if not a and not b:
        if tg:
            raise Bad(f'{what}: gcd(0,0) must be 0')
    else:
        if not tg or tg[-1] != 1:
            raise Bad(f'{what}: not monic')
        if R.pmod(a, tg, p) or R.pmod(b, tg, p):
            raise Bad(f'{what}: does not divide both arguments')
        if planted and R.pmod(tg, planted, p):
            raise Bad(f'{what}: common divisor {_show(planted)} does not divide it')
        if divs is not None:  # brute force: every monic common divisor must divide the gcd
            da = divs[R.pto_int(a, p)] if a else None
            db = divs[R.pto_int(b, p)] if b else None
            common = db if da is None else da if db is None else da & db
            dg = divs[R.pto_int(tg, p)]
            if not common <= dg:
                f = R.pfrom_int(min(common - dg), p)
                raise Bad(f'{what}: common divisor {_show(f)} does not divide it')
    ref = R.pgcd(a, b, p)
    if tg != ref:
        raise Bad(f'{what}, reference Euclid {_show(ref)}')
    E.eq(P.gcd(B, A), ref, 'gcd(b,a)')
    d, s, t = P.gcdext(A, B)
    td, ts, tt = E.tup(d, 'gcdext d'), E.tup(s, 'gcdext s'), E.tup(t, 'gcdext t')
    if td != ref:
        raise Bad(f'gcdext({_show(a)}, {_show(b)}): d = {_show(td)}, gcd is {_show(ref)}')
    if R.padd(R.pmul(ts, a, p), R.pmul(tt, b, p), p) != td:
        raise Bad(f'gcdext({_show(a)}, {_show(b)}) = ({_show(td)}, {_show(ts)}, {_show(tt)}): s*a+t*b != d')
    if s * A + t * B != d:
        raise Bad('s*a+t*b != d evaluated with the class operators')
    return ts, tt


def g_inv(E, a, b):
    """b nonzero."""
    P, p = E.P, E.p
    A, B = E.mk(a), E.mk(b)
    ref = RP.pinvmod(a, b, p)
    what = f'invert({_show(a)}, {_show(b)})'
    if ref is None:
        E.raises(lambda: P.invert(A, B), ZeroDivisionError, what + ' (not coprime)')
        return
    r = E.tup(P.invert(A, B), what)
    if R.pmod(R.psub(R.pmul(a, r, p), (1,), p), b, p):
        raise Bad(f'{what} = {_show(r)}: a*r != 1 (mod b)')
    if len(r) >= len(b):
        raise Bad(f'{what} = {_show(r)}: not reduced modulo b')
    if r != ref:
        raise Bad(f'{what} = {_show(r)}, reference {_show(ref)}')


def g_pow(E, a, n, b):
    """powmod(a, n, b), b nonzero."""
    P, p = E.P, E.p
    A, B = E.mk(a), E.mk(b)
    ref = RP.ppowmod_ref(a, n, b, p)
    what = f'powmod({_show(a)}, {n}, {_show(b)})'
    if ref is None:
        E.raises(lambda: P.powmod(A, n, B), ZeroDivisionError, what + ' (negative exponent, base not invertible)')
        return
    got = E.tup(P.powmod(A, n, B), what)
    if got != ref:
        fid = None
        if n == 1 and len(a) >= len(b) and got == tuple(a):
            fid = 'F12'   # exponent 1: base returned without reduction modulo b
        elif n == 0 and len(b) == 1 and got == (1,):
            fid = 'F23a'  # exponent 0, constant modulus: 1 returned instead of 1 mod b = 0
        raise Bad(f'{what} = {_show(got)}, repeated multiplication modulo b gives {_show(ref)}', fid)
    if 0 <= n <= 3 and len(b) > 1:
        # same thing through the operators
        x = P(1) % B
        for _ in range(n):
            x = x * A % B
        E.eq(x, ref, what + ' via operators')


def g_plainpow(E, a, k):
    A = E.mk(a)
    for i in range(k + 1):
        E.eq(A ** i, RP.ppow(a, i, E.p), f'{_show(a)}**{i}')
    E.raises(lambda: A ** -1, ValueError, 'a ** -1 without modulus')


def g_shift(E, a, s):
    P = E.P
    A = E.mk(a)
    up = ((0,) * s + tuple(a)) if a else ()
    E.eq(A << s, up, f'a<<{s}')
    E.eq(P.lshift(A, s), up, 'P.lshift')
    E.eq(A >> s, tuple(a)[s:], f'a>>{s}')
    E.eq(P.rshift(A, s), tuple(a)[s:], 'P.rshift')
    E.eq((A << s) >> s, a, '(a<<s)>>s')
    E.eq(A << s, R.pmul(a, (0,) * s + (1,), E.p), 'a<<s vs a*X^s')


def g_monic(E, a):
    p = E.p
    A = E.mk(a)
    E.eq(A.monic(), R.pmonic(a, p), 'monic')
    m, inv = A.monic(lc_pinv=True)
    E.eq(m, R.pmonic(a, p), 'monic(lc_pinv)')
    want = pow(a[-1], -1, p) if a else 0
    if inv != want:
        raise Bad(f'monic(lc_pinv=True) of {_show(a)}: inverse of leading coefficient {inv}, expected {want}')
    E.eq(A, a, 'operand changed by monic')


def g_reverse(E, a, d):
    A = E.mk(a)
    E.eq(A.reverse(), RP.preverse(a), f'reverse of {_show(a)}')
    if d is not None:
        want = RP.preverse(a, d)
        got = E.tup(A.reverse(d), 'reverse(d)')
        if got != want:
            fid = None
            if E.binary and d + 1 < len(a) and a[d] == 0:
                fid = 'F23b'  # truncation exposes a zero top coefficient: bit-string reversal drops the padding
            raise Bad(f'reverse({d}) of {_show(a)} = {_show(got)}, definition gives {_show(want)}', fid)
    E.eq(A, a, 'operand changed by reverse')


def g_truncate(E, a, t):
    A = E.mk(a)
    E.eq(A.truncate(t), R.ptrim(tuple(a)[:t]), f'truncate({t}) of {_show(a)}')
    E.eq(A, a, 'operand changed by truncate')


def g_deriv(E, a, m):
    A = E.mk(a)
    E.eq(A.deriv(), RP.pderiv(a, 1, E.p), f'deriv of {_show(a)}')
    E.eq(A.deriv(m), RP.pderiv(a, m, E.p), f'deriv({m}) of {_show(a)}')
    E.eq(A, a, 'operand changed by deriv')


def g_call(E, a, x):
    A = E.mk(a)
    for y in (x, 0, 1):
        want = R.peval(a, y % E.p, E.p)
        got = A(y)
        if got != want:
            fid = None
            if E.binary and y % 2 == 0 and a and a[0] == 1 and got == 0:
                fid = 'F23c'  # binary evaluation at an even point ignores the constant coefficient
            raise Bad(f'evaluation of {_show(a)} at {y}: {got}, expected {want}', fid)


def g_order(E, a, b):
    p = E.p
    A, B = E.mk(a), E.mk(b)
    ka, kb = RP.cmp_key(a, p), RP.cmp_key(b, p)
    for nm, got, want in (('<', A < B, ka < kb), ('<=', A <= B, ka <= kb), ('>', A > B, ka > kb),
                          ('>=', A >= B, ka >= kb), ('< int', A < kb, ka < kb), ('>= int', A >= kb, ka >= kb)):
        if bool(got) != want:
            raise Bad(f'{_show(a)} {nm} {_show(b)} is {got!r}, integer order says {want}')


def g_terms(E, a):
    P = E.P
    A = E.mk(a)
    s = RP.to_terms(a)
    if repr(A) != s or P.to_terms(A) != s:
        raise Bad(f'string form of {_show(a)}: {A!r} / {P.to_terms(A)}, expected {s}')
    E.eq(P.from_terms(s), a, 'from_terms')
    E.eq(P(s), a, 'P(str)')
    E.eq(P.from_terms(' + '.join(reversed(s.split('+')))), a, 'from_terms (terms reversed, spaces)')


def _run_groups(E, case, only):
    p = E.p
    a, b, c = tuple(case['a']), tuple(case['b']), tuple(case.get('c', ()))
    planted = tuple(case['g']) if case.get('g') else None
    n, s, m, d, x, t, k = (case.get('n', 2), case.get('s', 1), case.get('m', 1), case.get('d'), case.get('x', 1),
                           case.get('t', 1), case.get('k', 2))
    k = min(k, 160 // max(1, len(a) - 1))
    table = {
        'repr': lambda: g_repr(E, a, b),
        'ring': lambda: g_ring(E, a, b, c),
        'mixed': lambda: g_mixed(E, a, b),
        'div': lambda: g_div(E, a, b),
        'gcd': lambda: g_gcd(E, a, b, planted),
        'inv': (lambda: g_inv(E, a, b)) if b else None,
        'pow': (lambda: g_pow(E, a, n, b)) if b else None,
        'plainpow': lambda: g_plainpow(E, a, k),
        'shift': lambda: g_shift(E, a, s),
        'monic': lambda: g_monic(E, a),
        'reverse': lambda: g_reverse(E, a, d),
        'truncate': lambda: g_truncate(E, a, t),
        'deriv': lambda: g_deriv(E, a, m),
        'call': lambda: g_call(E, a, x),
        'order': lambda: g_order(E, a, b),
        'terms': lambda: g_terms(E, a),
    }
    for name in ALL_GROUPS:
        if only is not None and name not in only:
            continue
        fn = table[name]
        if fn is not None:
            E.group(name, fn)
    if b and (only is None or 'pow' in only):
        for n2 in case.get('ns', ()):
            E.group('pow', lambda: g_pow(E, a, n2, b))


def _classes(p):
    return [(B2, 2), (G2, 2)] if p == 2 else [(gfpx.GFpX(p), p)]


def _run_gen(case):
    p = case['p']
    ctx = Ctx()
    only = case.get('only')
    reps = _classes(p)
    if case.get('rep') == 'binary':
        reps = reps[:1]
    elif case.get('rep') == 'list':
        reps = reps[1:]
    for P, _ in reps:
        _run_groups(Env(ctx, P, p), case, only)
    a, b, n = case['a'], case['b'], case.get('n', 2)
    pb = p.bit_length()
    labels = ['p=2' if p == 2 else 'p<=13' if p <= 13 else 'p<2^32' if pb <= 32 else 'p>=2^32',
              f"rel {case.get('rel', '-')}",
              'deg a ' + _dclass(len(a) - 1), 'deg b ' + _dclass(len(b) - 1)]
    if b:
        inv = RP.pinvmod(tuple(a), tuple(b), p) is not None
        labels.append('a invertible mod b' if inv else 'a not invertible mod b')
        labels.append('exponent ' + ('<-1' if n < -1 else '>8' if n > 8 else str(n)))
        if n == 1 and len(a) >= len(b):
            labels.append('class F12 (n=1, deg a>=deg b) generated')
        if len(R.pgcd(tuple(a), tuple(b), p)) > 1 and a and b:
            labels.append('gcd of positive degree')
    nt = bool(a) and len(b) >= 2 and len(a) >= len(b)
    return _finish(ctx, labels, nontrivial=nt)


def _dclass(d):
    return '-1' if d < 0 else '0' if d == 0 else '1' if d == 1 else '2-8' if d <= 8 else '9-24' if d <= 24 else '>24'


# ------------------------------------------------------------------------------------------ exhaustive cells
@functools.lru_cache(maxsize=4)
def _divisors(p, D):
    """int(poly) -> frozenset of ints of its monic divisors, for all nonzero polynomials of degree <= D,
    built from all products f*g (definition of divisibility)."""
    div = {}
    for df in range(D + 1):
        for f in RP.monic_polys(p, df):
            fi = R.pto_int(f, p)
            for gi in range(1, p ** (D - df + 1)):
                prod = R.pto_int(R.pmul(f, R.pfrom_int(gi, p), p), p)
                div.setdefault(prod, set()).add(fi)
    return {k: frozenset(v) for k, v in div.items()}


def enumerate_cases(tier):
    for p, D in (EXH_QUICK if tier == 'quick' else EXH_THOROUGH):
        N = p ** (D + 1)
        step = max(1, 700 // N)
        for lo in range(0, N, step):
            yield {'mode': 'exh', 'p': p, 'deg': D, 'lo': lo, 'hi': min(N, lo + step)}
    for lo in range(-4, 300, 38):
        yield {'mode': 'types', 'lo': lo, 'hi': lo + 38}


def _run_exh(case):
    p, D, lo, hi = case['p'], case['deg'], case['lo'], case['hi']
    N = p ** (D + 1)
    divs = _divisors(p, D)
    ctx = Ctx()
    envs = [Env(ctx, P, p) for P, _ in _classes(p)]
    polys = [R.pfrom_int(i, p) for i in range(N)]
    n = nt = 0
    for ia in range(lo, hi):
        a = polys[ia]
        for ib in range(N):
            b = polys[ib]
            c = polys[(ia * 31 + ib * 17 + 7) % N]
            n += 1
            nt += bool(a) and len(b) >= 2 and len(a) >= len(b)
            for E in envs:
                E.group('ring', lambda: g_ring(E, a, b, c))
                E.group('div', lambda: g_div(E, a, b))
                E.group('gcd', lambda: g_gcd(E, a, b, None, divs))
                E.group('order', lambda: g_order(E, a, b))
                if b:
                    E.group('inv', lambda: g_inv(E, a, b))
                    for e in EXH_NS:
                        E.group('pow', lambda: g_pow(E, a, e, b))
            if ctx.count.get(None):
                break
        if ctx.count.get(None):
            break
    return _finish(ctx, [f'exhaustive cell p={p} deg<={D}'], n=n, n_nt=nt, exhaustive=True)


def _run_types(case):
    """GFpX(n) creates a type exactly for primes n (all n in a small window)."""
    ctx = Ctx()
    n = 0
    for v in range(case['lo'], case['hi']):
        n += 1
        try:
            P = gfpx.GFpX(v)
            ok = R.is_prime(v) and P.p == v and issubclass(P, gfpx.Polynomial)
        except ValueError:
            ok = not R.is_prime(v)
        except Exception:
            ok = False
        if not ok:
            ctx.fail(f'GFpX({v}): accepted/rejected wrongly (prime: {R.is_prime(v)})')
    return _finish(ctx, ['GFpX(n) window'], n=n, n_nt=0, exhaustive=True)


# ------------------------------------------------------------------------------------------ generator
_SMALLP = [3, 5, 7, 11, 13]
_MEDP = [17, 101, 251, 257, 65537, 2**31 - 1]
_BIGP = [2**61 - 1, 2**64 - 59, 2**127 - 1, 2**255 - 19]


def _maxdeg(p):
    pb = p.bit_length()
    return 64 if p == 2 else 40 if pb <= 8 else 24 if pb <= 32 else 14 if pb <= 64 else 8


@st.composite
def _poly(draw, p, maxdeg, mindeg=-1):
    maxdeg = max(maxdeg, mindeg, 0)
    kind = draw(st.sampled_from(['zero', 'const', 'lin', 'small', 'small', 'any', 'any', 'any', 'max']))
    d = {'zero': -1, 'const': 0, 'lin': 1}.get(kind)
    if kind == 'small':
        d = draw(st.integers(2, 5))
    elif kind == 'any':
        d = draw(st.integers(2, max(2, maxdeg)))
    elif kind == 'max':
        d = maxdeg
    d = max(mindeg, min(d, maxdeg))
    if d < 0:
        return []
    if p == 2:
        co = st.integers(0, 1)
        style = draw(st.sampled_from(['dense', 'dense', 'sparse', 'ones']))
        if style == 'sparse':
            co = st.sampled_from([0, 0, 0, 0, 0, 1])
        elif style == 'ones':
            co = st.just(1)
        return draw(st.lists(co, min_size=d, max_size=d)) + [1]
    co = st.one_of(st.just(0), st.just(1), st.just(p - 1), st.integers(0, p - 1), st.integers(0, p - 1))
    lead = draw(st.one_of(st.just(1), st.just(p - 1), st.integers(1, p - 1)))
    return draw(st.lists(co, min_size=d, max_size=d)) + [lead]


@st.composite
def _case(draw):
    p = draw(st.one_of(st.just(2), st.just(2), st.sampled_from(_SMALLP), st.sampled_from(_SMALLP),
                       st.sampled_from(_MEDP), st.sampled_from(_BIGP),
                       st.integers(2, 2**40).map(R.next_prime)))
    md = _maxdeg(p)
    rel = draw(st.sampled_from(['indep', 'indep', 'indep', 'mult', 'common', 'common', 'equal', 'near', 'near',
                                'unit', 'bzero', 'short']))
    g = None
    if rel == 'indep':
        a, b = draw(_poly(p, md)), draw(_poly(p, md))
    elif rel == 'mult':
        b = draw(_poly(p, md // 2, 0))
        a = list(R.pmul(tuple(draw(_poly(p, md // 2))), tuple(b), p))
    elif rel == 'common':
        g = draw(_poly(p, md // 3, 1))
        a = list(R.pmul(tuple(g), tuple(draw(_poly(p, md // 3))), p))
        b = list(R.pmul(tuple(g), tuple(draw(_poly(p, md // 3))), p))
    elif rel == 'equal':
        a = draw(_poly(p, md))
        b = list(a)
    elif rel == 'near':
        b = draw(_poly(p, md // 2, 1))
        r = draw(_poly(p, len(b) - 2))
        a = list(R.padd(R.pmul(tuple(draw(_poly(p, md // 2))), tuple(b), p), tuple(r), p))
    elif rel == 'unit':
        a, b = draw(_poly(p, md)), [draw(st.integers(1, p - 1))]
    elif rel == 'bzero':
        a, b = draw(_poly(p, md)), []
    else:  # short: deg a < deg b
        b = draw(_poly(p, md, 1))
        a = draw(_poly(p, len(b) - 2))
    c = draw(_poly(p, md // 2))
    db = max(len(b) - 1, 1)
    capbits = max(3, min(70, (50000 // (1 + p.bit_length() // 32)) // (db + 1) ** 2))
    small = st.integers(-4, 8)
    n = draw(st.one_of(small, small, st.integers(-(1 << capbits), 1 << capbits)))
    da = len(a) - 1
    return {'mode': 'gen', 'p': p, 'rel': rel, 'a': a, 'b': b, 'c': c, 'g': g, 'n': n,
            's': draw(st.one_of(st.integers(0, 8), st.integers(0, 70))),
            'm': draw(st.one_of(st.integers(0, 4), st.integers(0, 12), st.integers(max(0, p - 2), p + 2))),
            'd': draw(st.one_of(st.none(), st.integers(-1, da + 5))),
            'x': draw(st.one_of(st.integers(-3, 3), st.integers(-p - 5, 2 * p + 5))),
            't': draw(st.integers(0, da + 3)),
            'k': draw(st.integers(0, 5))}


def strategy(tier):
    return _case()


def run_case(case):
    mode = case.get('mode', 'gen')
    if mode == 'exh':
        return _run_exh(case)
    if mode == 'types':
        return _run_types(case)
    return _run_gen(case)
