"""C37: secure NumPy arrays agree with plain NumPy and with elementwise secure scalars.

A case = party configuration (m, t, PRSS) x secure type (SecInt(l), SecFxp(l, f), SecFld over a prime field --
incl. small primes that are lifted for m >= p -- or a small extension field) x a short list of INDEPENDENT
operation records, all evaluated in one program run of the in-process m-party simulator.  An operation record is
table-driven: (function name, call path, operand arrays with shapes/values/senders, public parameters).  The SAME
evaluation lambda of the table runs

* on secure arrays (dealt by generated senders with `mpc.input`), through one of the call paths
  `np.<func>(secure array)` (NumPy `__array_function__` dispatch), `mpc.np_<func>`, an operator, or an array method;
* on plain NumPy `object` arrays of exact numbers (Python ints / Fractions / reference field elements):
  the oracle.

Checked for every result leaf: the declared `.shape` of the secure result (known before any communication), the
shape of the opened array, the opened values (exact; fixed-point products within the per-operation tolerances of
C02: one unit 2^-f per product term, 2(1+|x|) units for a public float factor, n(1+|x|)^(n-1) units for x**n),
fixed-point results flagged integral are whole, all receiving parties agree.  For a share of the records the same
operation is ALSO computed in the same run through the elementwise secure-scalar API (`tolist()` + scalar
operators / mpc.sum / mpc.prod / mpc.all / mpc.min / mpc.max / mpc.sorted / mpc.matrix_prod / mpc.in_prod) and
compared with the same oracle.  A light end-to-end touch of array sharing: np_random_split / np_recombine /
np_pseudorandom_share(_0) against the list versions (details are C12 / C15).

Known findings (classes are decided by `known_class`; the generator keeps records of a class out of the mixed cases
by construction and emits them alone now and then, so that they are counted as KNOWN-FINDING and never mask other
records): F37a np.stack negative axis, F37b prod/all/any over an empty axis, F37c output of zero-size arrays over a
lifted small prime field, F37d rot90 with even k, F37e 0-d arrays with scalar operands, F37f argmin/argmax along an
axis of length 1, F37g field array / secure scalar, F37h secure scalar <cmp> secure array, F37i np_lsb without PRSS,
F37j fixed-point array from an empty float ndarray, F37k amin/amax keepdims along axis 0, F37l ndarray <cmp> secure
array (operands swapped), F37m argmin/argmax of 3-D arrays along axis 0, F37n << on lifted small prime fields,
F37o np_roll with a secret shift on fixed-point arrays, F37p a.argmin(axis) value shape, F37q np_trunc of
fixed-point arrays is f bits short (wrong products for SecFxp(64,32)), F37r _item_shape for advanced indices
separated by an empty Ellipsis, F37s public 1-D float array @ secure 1-D fixed-point array.
"""
import math
import random
import traceback
from fractions import Fraction as Fr
from hypothesis import strategies as st
from vlib.boot import boot
from vlib.runner import Outcome

boot(numpy=True)
from mpyc.numpy import np  # noqa: E402
from mpyc import thresha, finfields  # noqa: E402
from vlib import sim as simmod  # noqa: E402

ID = 'C37'
LEVEL = 'exploration'
RULE = ('generated (m,t,PRSS) x SecInt(l<=64) / SecFxp(l,f) / SecFld(prime incl. lifted small primes, GF(2^k), GF(3^2)) '
        'x 1-6 table-driven operation records (elementwise arithmetic and comparisons with broadcasting and public / '
        'scalar operands, where/if_swap, neg/abs/sgn/lsb/pow/shift, matmul/outer/convolve, sum/prod/all/any/amin/amax/'
        'argmin/argmax/cumsum/trace, sort, reshape/flatten/transpose/swapaxes/expand_dims/squeeze/flip/roll/rot90/diag/'
        'diagonal/getitem/update/split, concatenate/stack/vstack/hstack/dstack/column_stack/block/append, '
        'fromlist/tolist, input/output) on shapes of <= 3 dims and <= 24 elements incl. zero-size arrays; oracle = '
        'the same lambda on NumPy object arrays of exact numbers (declared shape, opened shape, values, integral '
        'flags) and, for a share of records, the elementwise secure-scalar API in the same run; non-trivial = m>=3 '
        'and t>=1 and a record with an operand of >= 2 elements whose operation communicates (product, comparison, '
        'sort, reduction by product) or reshapes; distinct by case hash')
ASSUMPTIONS = ['NumPy 2.5.3 on object arrays of Python ints / Fractions is the oracle; extension-field reference '
               'elements are mpyc.finfields scalars (C20)', 'sec_param k=30',
               'integer / fixed-point operands are generated so that every result fits the bit length '
               '(differences of comparison operands included); fixed-point division is not generated (C02, F6)',
               'thresha np_ variants in depth are C12 / C15']
CASE_TIMEOUT = 300


def budget(tier):
    return dict(shards=16, examples=350 if tier == "quick" else 6000)


# ============================================================================================ type context
class TC:
    """Secure type of a case: ranges, reference elements, conversions."""

    def __init__(self, ty):
        self.ty = ty
        self.kind = ty['k']
        self.l = ty.get('l')
        self.f = ty.get('f', 0)
        self.p = ty.get('p')
        self.d = ty.get('d', 1)
        self.q = self.p ** self.d if self.kind == 'fld' else None
        self.unit = Fr(1, 1 << self.f)
        self._reffield = None
        if self.kind == 'fld':
            if self.d == 1:
                self.Fp = _make_fp(self.p)
            else:
                self._reffield = finfields.GF(finfields.find_irreducible(self.p, self.d))

    @property
    def ordered(self):
        return self.kind != 'fld'

    def sectype(self, mpc):
        if self.kind == 'int':
            return mpc.SecInt(self.l)
        if self.kind == 'fxp':
            return mpc.SecFxp(self.l, self.f)
        return mpc.SecFld(self.q)

    def rng(self, bits):
        """Raw range for magnitudes below 2^bits (symmetric); fields: everything."""
        if self.kind == 'fld':
            return 0, self.q - 1
        b = max(0, min(bits, self.l - 1))
        return -((1 << b) - 1), (1 << b) - 1

    def full(self):
        if self.kind == 'fld':
            return 0, self.q - 1
        return -(1 << self.l - 1), (1 << self.l - 1) - 1

    def ref(self, raw):
        """Reference element for a raw value."""
        if self.kind == 'int':
            return int(raw)
        if self.kind == 'fxp':
            return Fr(int(raw), 1 << self.f)
        if self.d == 1:
            return self.Fp(raw)
        return self._reffield(int(raw))

    def pub_ref(self, v):
        """Reference element for a public Python number used as operand."""
        if self.kind == 'int':
            return int(v)
        if self.kind == 'fxp':
            return Fr(v)   # exact for ints and floats
        if self.d == 1:
            return self.Fp(int(v))
        return self._reffield(int(v))

    def exact(self, x):
        """Exact comparable number of a reference result element (Fraction / int)."""
        if isinstance(x, (bool, np.bool_)):
            x = int(x)
        if self.kind == 'fld':
            if isinstance(x, (int, np.integer)):
                return int(x) % self.p if self.d == 1 else int(x)
            return int(x)
        if isinstance(x, (np.integer,)):
            x = int(x)
        return Fr(x)

    def from_raw_out(self, raw):
        if self.kind == 'fxp':
            return Fr(int(raw), 1 << self.f)
        return int(raw)


def _make_fp(p):
    class Fp:
        __slots__ = ('v',)

        def __init__(self, v):
            self.v = int(v) % p

        @staticmethod
        def _c(o):
            if isinstance(o, Fp):
                return o.v
            if isinstance(o, (bool, np.bool_)):
                return int(o)
            if isinstance(o, (int, np.integer)):
                return int(o) % p
            return None

        def __add__(self, o):
            o = self._c(o)
            return NotImplemented if o is None else Fp(self.v + o)
        __radd__ = __add__

        def __sub__(self, o):
            o = self._c(o)
            return NotImplemented if o is None else Fp(self.v - o)

        def __rsub__(self, o):
            o = self._c(o)
            return NotImplemented if o is None else Fp(o - self.v)

        def __mul__(self, o):
            o = self._c(o)
            return NotImplemented if o is None else Fp(self.v * o)
        __rmul__ = __mul__

        def __neg__(self):
            return Fp(-self.v)

        def __pos__(self):
            return self

        def __truediv__(self, o):
            o = self._c(o)
            return NotImplemented if o is None else Fp(self.v * pow(o, -1, p))

        def __rtruediv__(self, o):
            o = self._c(o)
            return NotImplemented if o is None else Fp(o * pow(self.v, -1, p))

        def __pow__(self, e):
            return Fp(pow(self.v, int(e), p))

        def __lshift__(self, k):
            return Fp(self.v << int(k))

        def __eq__(self, o):
            o = self._c(o)
            return NotImplemented if o is None else self.v == o

        def __ne__(self, o):
            o = self._c(o)
            return NotImplemented if o is None else self.v != o

        def __hash__(self):
            return hash(self.v)

        def __int__(self):
            return self.v

        def __bool__(self):
            return self.v != 0

        def __repr__(self):
            return f'Fp({self.v})'
    return Fp


# ============================================================================================ environment
def _tup(x):
    return tuple(x) if isinstance(x, list) else x


class Env:
    """Operands of one record, secure (inside a party program) or reference (plain object arrays)."""

    def __init__(self, T, rec, secure, arrays, scalars, mpc=None):
        self.T = T
        self.rec = rec
        self.secure = secure
        self.arrays = arrays
        self.scalars = scalars
        self.mpc = mpc
        self.via = rec.get('via', 'np')
        self.P = rec.get('P', {})    # op parameters

    def A(self, i):
        return self.arrays[i]

    def S(self, i):
        return self.scalars[i]

    def pub(self):
        """Public operand rec['pub'] as the user would pass it (secure side) / as reference elements."""
        pb = self.rec['pub']
        T = self.T
        if pb['t'] == 'int':
            return int(pb['v']) if self.secure else T.pub_ref(int(pb['v']))
        if pb['t'] == 'float':
            x = float.fromhex(pb['v'])
            return x if self.secure else T.pub_ref(x)
        if pb['t'] == 'iarr':
            a = np.array(pb['v'], dtype=np.int64).reshape(pb['sh'])
            if self.secure:
                return a
            return _obj([T.pub_ref(int(v)) for v in pb['v']], pb['sh'])
        if pb['t'] == 'farr':
            vals = [float.fromhex(v) for v in pb['v']]
            if self.secure:
                return np.array(vals, dtype=np.float64).reshape(pb['sh'])
            return _obj([T.pub_ref(v) for v in vals], pb['sh'])
        raise ValueError(pb)

    def xy(self):
        """The two operands of a binary elementwise op according to rec['form']."""
        form = self.rec.get('form', 'ss')
        if form == 'ss':
            return self.A(0), self.A(1)
        if form == 'sp':
            return self.A(0), self.pub()
        if form == 'ps':
            return self.pub(), self.A(0)
        if form == 'sq':
            return self.A(0), self.S(0)
        if form == 'qs':
            return self.S(0), self.A(0)
        raise ValueError(form)

    def f(self, name):
        """Function `name` under the call path of the record."""
        if not self.secure:
            return REF_FUNCS[name] if name in REF_FUNCS else getattr(np, name)
        if self.via == 'mpc' or name in MPC_ONLY:
            return getattr(self.mpc, 'np_' + name)
        return getattr(np, name)


def _obj(vals, shape):
    a = np.empty(len(vals), dtype=object)
    for i, v in enumerate(vals):
        a[i] = v
    return a.reshape(shape)


def _ref_sgn(a, LT=False, EQ=False):
    def s(x):
        if LT:
            return int(x < 0)
        if EQ:
            return int(x == 0)
        return (x > 0) - (x < 0)
    return np.vectorize(s, otypes='O')(a) if a.size else a.copy()


def _ref_lsb(a):
    return np.vectorize(lambda x: int(x) % 2, otypes='O')(a) if a.size else a.copy()


def _ref_if_swap(c, a, b):
    d = c * (a - b)
    return a - d, b + d


def _ref_update(a, key, value):
    a = a.copy()
    a[key] = value
    return a


def _ref_lshift(a, k):
    return a * (2 ** k)


def _ref_pow(a, e):
    if isinstance(a, np.ndarray):
        if a.size == 0:
            return a.copy()
        return np.vectorize(lambda x: x ** e, otypes='O')(a)
    return a ** e


REF_FUNCS = {'sgn': _ref_sgn, 'lsb': _ref_lsb, 'if_swap': _ref_if_swap, 'update': _ref_update,
             'left_shift': _ref_lshift, 'pow': _ref_pow, 'less': np.less, 'equal': np.equal,
             'fromlist': lambda x: _obj(list(x), (len(x),)), 'tolist': lambda a: a.tolist()}
MPC_ONLY = {'sgn', 'lsb', 'if_swap', 'update', 'left_shift', 'pow', 'less', 'equal', 'fromlist', 'tolist',
            'getitem', 'flatten'}


# ============================================================================================ op table
class Op:
    def __init__(self, sig, ev, kinds='ixf', tol=None, sc=None, vias=('np', 'mpc'), comm=False):
        self.sig = sig          # generator signature
        self.ev = ev            # evaluation lambda (Env -> result)
        self.kinds = kinds      # 'i' SecInt, 'x' SecFxp, 'f' prime SecFld, 'e' extension SecFld
        self.tol = tol          # fixed-point tolerance (Env_ref, ref_result) -> units (array/number) or None
        self.sc = sc            # scalar-API differential: (Env secure) -> flat list of secure scalars, or None
        self.vias = vias
        self.comm = comm        # communicates / reshapes (non-trivial rule)


def _ax(E):
    return _tup(E.P.get('axis'))


# ---- elementwise binary
def _bin(opname, pyop, ufunc=None):
    def ev(E):
        x, y = E.xy()
        if E.secure and E.via == 'mpc':
            return E.f(opname)(x, y)
        if E.secure and E.via == 'np':
            return getattr(np, ufunc or opname)(x, y)   # ufunc -> SecureObject.__array_ufunc__
        return pyop(x, y)
    return ev


def _cmp(pyop, ufunc):
    def ev(E):
        x, y = E.xy()
        if E.secure and E.via == 'np':
            return getattr(np, ufunc)(x, y)
        return pyop(x, y)
    return ev


def _bcast_idx(shape_a, shape_b):
    res = np.broadcast_shapes(tuple(shape_a), tuple(shape_b))
    ia = np.broadcast_to(np.arange(math.prod(shape_a)).reshape(shape_a), res).reshape(-1).tolist()
    ib = np.broadcast_to(np.arange(math.prod(shape_b)).reshape(shape_b), res).reshape(-1).tolist()
    return ia, ib


def _flat_list(E, a):
    """Flat Python list of the secure scalars of secure array a (through flatten + tolist)."""
    if a.ndim == 0:
        return [E.mpc.np_tolist(a)]
    return E.mpc.np_tolist(E.mpc.np_flatten(a)) if a.size else []


def _sc_bin(pyop):
    def sc(E):
        if E.rec.get('form', 'ss') != 'ss':
            return None
        a, b = E.A(0), E.A(1)
        ia, ib = _bcast_idx(a.shape, b.shape)
        la, lb = _flat_list(E, a), _flat_list(E, b)
        return [pyop(la[i], lb[j]) for i, j in zip(ia, ib)]
    return sc


def _tol_mul(E, r):
    if E.T.kind != 'fxp':
        return None
    pb = E.rec.get('pub')
    if pb is not None and pb['t'] in ('float', 'farr'):
        x = E.A(0)
        return np.vectorize(lambda v: 2 * (1 + abs(v)), otypes='O')(np.broadcast_to(x, np.shape(r))) if np.size(r) else 0
    return 1


import operator as _o  # noqa: E402

OPS = {}
OPS['add'] = Op('ew2', _bin('add', _o.add), kinds='ixfe', sc=_sc_bin(_o.add), vias=('oper', 'mpc', 'np'))
OPS['sub'] = Op('ew2', _bin('subtract', _o.sub), kinds='ixfe', sc=_sc_bin(_o.sub), vias=('oper', 'mpc', 'np'))
OPS['mul'] = Op('ew2', _bin('multiply', _o.mul), kinds='ixfe', tol=_tol_mul, sc=_sc_bin(_o.mul),
                vias=('oper', 'mpc', 'np'), comm=True)
OPS['div'] = Op('ew2', _bin('divide', _o.truediv), kinds='fe', sc=_sc_bin(_o.truediv), vias=('oper', 'mpc', 'np'), comm=True)
OPS['lt'] = Op('ew2', _cmp(_o.lt, 'less'), kinds='ix', sc=_sc_bin(_o.lt), vias=('oper', 'oper', 'np'), comm=True)
OPS['le'] = Op('ew2', _cmp(_o.le, 'less_equal'), kinds='ix', sc=_sc_bin(_o.le), vias=('oper', 'oper', 'np'), comm=True)
OPS['gt'] = Op('ew2', _cmp(_o.gt, 'greater'), kinds='ix', sc=_sc_bin(_o.gt), vias=('oper', 'oper', 'np'), comm=True)
OPS['ge'] = Op('ew2', _cmp(_o.ge, 'greater_equal'), kinds='ix', sc=_sc_bin(_o.ge), vias=('oper', 'oper', 'np'), comm=True)
OPS['eq'] = Op('ew2', _cmp(_o.eq, 'equal'), kinds='ixfe', sc=_sc_bin(_o.eq), vias=('oper', 'oper', 'np'), comm=True)
OPS['ne'] = Op('ew2', _cmp(_o.ne, 'not_equal'), kinds='ixfe', sc=_sc_bin(_o.ne), vias=('oper', 'oper', 'np'), comm=True)
OPS['less'] = Op('ew2', lambda E: E.f('less')(*E.xy()), kinds='ix', vias=('mpc',), comm=True)
OPS['equal'] = Op('ew2', lambda E: E.f('equal')(*E.xy()), kinds='ixfe', vias=('mpc',), comm=True)
OPS['minimum'] = Op('ew2', lambda E: E.f('minimum')(*E.xy()), kinds='ix', vias=('mpc', 'np'), comm=True)
OPS['maximum'] = Op('ew2', lambda E: E.f('maximum')(*E.xy()), kinds='ix', vias=('mpc', 'np'), comm=True)

# ---- where / if_swap
OPS['where'] = Op('sel', lambda E: E.f('where')(E.A(0), E.A(1), E.A(2)), kinds='ixf', comm=True)
OPS['if_swap'] = Op('sel', lambda E: list(E.f('if_swap')(E.A(0), E.A(1), E.A(2))), kinds='ixf', vias=('mpc',), comm=True)

# ---- unary
OPS['neg'] = Op('un', lambda E: E.f('negative')(E.A(0)) if E.via != 'oper' else -E.A(0), kinds='ixfe', vias=('oper', 'mpc', 'np'))
OPS['abs'] = Op('un', lambda E: E.f('absolute')(E.A(0)) if E.via != 'oper' else abs(E.A(0)), kinds='ix',
                vias=('oper', 'mpc', 'np'), comm=True)
OPS['sgn'] = Op('sgn', lambda E: E.f('sgn')(E.A(0), **{k: True for k in E.P.get('flags', [])}), kinds='ix',
                vias=('mpc',), comm=True)
OPS['lsb'] = Op('un', lambda E: E.f('lsb')(E.A(0)), kinds='i', vias=('mpc',), comm=True)
OPS['copy'] = Op('shape1', lambda E: E.A(0).copy() if E.via == 'meth' else E.f('copy')(E.A(0)), kinds='ixfe',
                 vias=('np', 'mpc', 'meth'))


def _tol_pow(E, r):
    if E.T.kind != 'fxp':
        return None
    n = E.P['e']
    if n <= 1:
        return 0
    x = E.A(0)
    return np.vectorize(lambda v: n * (1 + abs(v)) ** (n - 1), otypes='O')(x) if x.size else 0


OPS['pow'] = Op('pow', lambda E: E.f('pow')(E.A(0), E.P['e']) if E.via == 'mpc' else E.A(0) ** E.P['e'],
                kinds='ixfe', tol=_tol_pow, vias=('oper', 'mpc'), comm=True)
OPS['lshift'] = Op('lshift', lambda E: E.f('left_shift')(E.A(0), E.P['k']) if (E.via == 'mpc' or not E.secure)
                   else E.A(0) << E.P['k'], kinds='ixf', vias=('oper', 'mpc'))


# ---- products
def _tol_terms(nterms):
    def tol(E, r):
        if E.T.kind != 'fxp':
            return None
        return max(1, nterms(E))
    return tol


def _mm_ops(E):
    form = E.rec.get('form', 'ss')
    if form == 'ss':
        return E.A(0), E.A(1)
    if form == 'sp':
        return E.A(0), E.pub()
    return E.pub(), E.A(0)


def _ev_matmul(E):
    x, y = _mm_ops(E)
    if E.secure and E.via == 'mpc':
        return E.mpc.np_matmul(x, y)
    if E.secure and E.via == 'np':
        return np.matmul(x, y)
    return x @ y


def _sc_matmul(E):
    if E.rec.get('form', 'ss') != 'ss':
        return None
    a, b = E.A(0), E.A(1)
    if a.ndim == 2 and b.ndim == 2 and a.size and b.size:
        C = E.mpc.matrix_prod(E.mpc.np_tolist(a), E.mpc.np_tolist(b))
        return [c for row in C for c in row]
    if a.ndim == 1 and b.ndim == 1 and a.size:
        return [E.mpc.in_prod(E.mpc.np_tolist(a), E.mpc.np_tolist(b))]
    return None


OPS['matmul'] = Op('matmul', _ev_matmul, kinds='ixfe', tol=_tol_terms(lambda E: E.rec['inner']), sc=_sc_matmul,
                   vias=('oper', 'mpc', 'np'), comm=True)
OPS['outer'] = Op('outer', lambda E: E.f('outer')(E.A(0), E.A(1)), kinds='ixf', tol=_tol_terms(lambda E: 1), comm=True)
OPS['convolve'] = Op('convolve', lambda E: E.f('convolve')(*_mm_ops(E), mode=E.P['mode']), kinds='ixf',
                     tol=_tol_terms(lambda E: E.rec['inner']), comm=True)


# ---- reductions
def _prod_tol_units(B, k, f):
    """Sound bound (in units 2^-f) for the error of a product of k exact factors of magnitude <= B (>= 1) computed in
    ANY multiplication order when every binary product is within one unit of the product of its (inexact) operands."""
    u = Fr(1, 1 << f)
    E = {1: Fr(0)}
    for n in range(2, k + 1):
        best = Fr(0)
        for n1 in range(1, n // 2 + 1):
            n2 = n - n1
            e = B ** n1 * E[n2] + B ** n2 * E[n1] + E[n1] * E[n2] + u
            best = max(best, e)
        E[n] = best
    return E[k] / u


def _tol_prod(E, r):
    if E.T.kind != 'fxp':
        return None
    a = E.A(0)
    if a.size == 0:
        return 0
    ax = _ax(E)
    if ax is None:
        k = a.size
    else:
        axes = (ax,) if isinstance(ax, int) else ax
        k = math.prod(a.shape[i] for i in axes)
    B = max(1, max(abs(v) for v in a.reshape(-1)))
    return _prod_tol_units(Fr(B), max(k, 1), E.T.f)


def _red(name, **extra):
    def ev(E):
        kw = {}
        if 'axis' in E.P:
            kw['axis'] = _ax(E)
        for k in ('keepdims', 'initial', 'offset', 'axis1', 'axis2', 'include_initial'):
            if k in E.P:
                kw[k] = E.P[k]
        if 'initial' in kw and not E.secure:
            kw['initial'] = E.T.pub_ref(kw['initial'])
        a = E.A(0)
        if E.via == 'meth':
            return getattr(a, name)(**kw)
        return E.f(name)(a, **kw)
    return ev


def _sc_red(fn):
    def sc(E):
        if E.P.get('axis') is not None or E.P.get('keepdims') or 'initial' in E.P:
            return None
        a = E.A(0)
        if a.size == 0:
            return None
        return [fn(E.mpc, _flat_list(E, a))]
    return sc


OPS['sum'] = Op('red_sum', _red('sum'), kinds='ixfe', sc=_sc_red(lambda mpc, x: mpc.sum(x)), vias=('np', 'mpc', 'meth'))
OPS['prod'] = Op('red_prod', _red('prod'), kinds='ixf', tol=_tol_prod, sc=_sc_red(lambda mpc, x: mpc.prod(x)), comm=True)
OPS['all'] = Op('red_bool', _red('all'), kinds='ixf', sc=_sc_red(lambda mpc, x: mpc.all(x)), comm=True)
OPS['any'] = Op('red_bool', _red('any'), kinds='ixf', sc=_sc_red(lambda mpc, x: mpc.any(x)), comm=True)
OPS['amin'] = Op('red_ext', _red('amin'), kinds='ix', sc=_sc_red(lambda mpc, x: mpc.min(x)), comm=True)
OPS['amax'] = Op('red_ext', _red('amax'), kinds='ix', sc=_sc_red(lambda mpc, x: mpc.max(x)), comm=True)
OPS['argmin'] = Op('red_arg', _red('argmin'), kinds='ix', comm=True)
OPS['argmax'] = Op('red_arg', _red('argmax'), kinds='ix', comm=True)
OPS['cumsum'] = Op('red_cum', _red('cumsum'), kinds='ixf')
OPS['trace'] = Op('red_trace', _red('trace'), kinds='ixf', vias=('np', 'mpc', 'meth'))


# ---- sort
def _ev_sort(E):
    a = E.A(0)
    if E.via == 'meth' and E.secure:
        return a.sort(axis=_ax(E))
    return E.f('sort')(a, axis=_ax(E))


def _sc_sort(E):
    a = E.A(0)
    if E.P.get('axis') is not None and a.ndim != 1 or a.size == 0:
        return None
    return E.mpc.sorted(_flat_list(E, a))


OPS['sort'] = Op('sort', _ev_sort, kinds='ix', sc=_sc_sort, vias=('np', 'mpc', 'meth'), comm=True)


# ---- single-array shape operations
def _key(k):
    """JSON key -> Python index key."""
    def one(x):
        if x is None:
            return np.newaxis
        if x == '...':
            return Ellipsis
        if isinstance(x, dict):
            if 's' in x:
                return slice(*x['s'])
            if 'ia' in x:
                return np.array(x['ia'], dtype=int).reshape(x['sh'])
            if 'ba' in x:
                return np.array(x['ba'], dtype=bool).reshape(x['sh'])
        return x
    if isinstance(k, list):
        return tuple(one(x) for x in k)
    return one(k)


def _meth_or_f(name, argf, methname=None):
    def ev(E):
        a = E.A(0)
        args, kw = argf(E)
        if E.via == 'meth':
            return getattr(a, methname or name)(*args, **kw)
        return E.f(name)(a, *args, **kw)
    return ev


OPS['reshape'] = Op('reshape', _meth_or_f('reshape', lambda E: ((_tup(E.P['shape']),), {'order': E.P.get('order', 'C')})),
                    kinds='ixfe', vias=('np', 'mpc', 'meth'), comm=True)
OPS['flatten'] = Op('shape1', lambda E: E.A(0).flatten(E.P.get('order', 'C')) if (E.via == 'meth' or not E.secure)
                    else E.mpc.np_flatten(E.A(0), order=E.P.get('order', 'C')), kinds='ixfe', vias=('mpc', 'meth'), comm=True)
OPS['transpose'] = Op('transpose', _meth_or_f('transpose', lambda E: ((), {'axes': _tup(E.P.get('axes'))}) if E.via != 'meth'
                                              else ((_tup(E.P['axes']),) if E.P.get('axes') is not None else (), {})),
                      kinds='ixfe', vias=('np', 'mpc', 'meth'), comm=True)
OPS['T'] = Op('shape1', lambda E: E.A(0).T, kinds='ixfe', vias=('meth',), comm=True)
OPS['swapaxes'] = Op('swapaxes', _meth_or_f('swapaxes', lambda E: ((E.P['a1'], E.P['a2']), {})), kinds='ixfe',
                     vias=('np', 'mpc', 'meth'), comm=True)
OPS['expand_dims'] = Op('expand_dims', lambda E: E.f('expand_dims')(E.A(0), _tup(E.P['axis'])), kinds='ixf', comm=True)
OPS['squeeze'] = Op('squeeze', lambda E: E.f('squeeze')(E.A(0), axis=_tup(E.P['axis'])), kinds='ixf', comm=True)
OPS['flip'] = Op('flip', lambda E: E.f('flip')(E.A(0), axis=_tup(E.P['axis'])), kinds='ixfe', comm=True)
OPS['fliplr'] = Op('flip2', lambda E: E.f('fliplr')(E.A(0)), kinds='ixf', comm=True)
OPS['flipud'] = Op('flip1', lambda E: E.f('flipud')(E.A(0)), kinds='ixf', comm=True)
OPS['roll'] = Op('roll', lambda E: E.f('roll')(E.A(0), _tup(E.P['shift']), axis=_tup(E.P['axis'])), kinds='ixfe', comm=True)
OPS['rot90'] = Op('rot90', lambda E: E.f('rot90')(E.A(0), k=E.P['k'], axes=_tup(E.P['axes'])), kinds='ixf', comm=True)
OPS['diag'] = Op('diag', lambda E: E.f('diag')(E.A(0), k=E.P['k']), kinds='ixf', comm=True)
OPS['diagflat'] = Op('diagflat', lambda E: E.f('diagflat')(E.A(0), k=E.P['k']), kinds='ixf', comm=True)
OPS['diagonal'] = Op('diagonal', _meth_or_f('diagonal', lambda E: ((), {'offset': E.P['offset'], 'axis1': E.P['axis1'],
                                                                   'axis2': E.P['axis2']})),
                     kinds='ixf', vias=('np', 'mpc', 'meth'), comm=True)
OPS['getitem'] = Op('getitem', lambda E: E.A(0)[_key(E.P['key'])] if (E.via == 'oper' or not E.secure)
                    else E.mpc.np_getitem(E.A(0), _key(E.P['key'])), kinds='ixfe', vias=('oper', 'mpc'), comm=True)
OPS['update'] = Op('update', lambda E: E.f('update')(E.A(0), _key(E.P['key']), E.A(1)), kinds='ixf', vias=('mpc',), comm=True)
OPS['split'] = Op('split', lambda E: list(E.f(E.P['fn'])(E.A(0), E.P['n'], **({'axis': E.P['axis']} if E.P['fn'] == 'split' else {}))),
                  kinds='ixf', comm=True)
OPS['tolist'] = Op('shape1', lambda E: E.A(0).tolist() if (E.via == 'meth' or not E.secure) else E.mpc.np_tolist(E.A(0)),
                   kinds='ixfe', vias=('mpc', 'meth'), comm=True)
OPS['fromlist'] = Op('fromlist', lambda E: E.f('fromlist')(list(E.scalars)), kinds='ixfe', vias=('mpc',), comm=True)
OPS['iterlen'] = Op('iter', lambda E: list(E.A(0))[:len(E.A(0))], kinds='ixf', vias=('oper',), comm=True)


def _ev_roll_sec(E):
    if E.secure:
        return E.mpc.np_roll(E.A(0), E.S(0))
    return np.roll(E.A(0), int(E.rec['q'][0]['v']) >> E.T.f)


def _ev_arg_meth(name):
    def ev(E):
        a = E.A(0)
        ax = E.P.get('axis')
        if E.secure:
            u, mval = getattr(a, name)(axis=ax) if ax is not None else getattr(a, name)()
            return [u, mval]
        f = np.argmin if name == 'argmin' else np.argmax
        g = np.amin if name == 'argmin' else np.amax
        if ax is None:
            flat = a.reshape(-1)
            u = _obj([0] * flat.size, (flat.size,))
            u[f(flat)] = 1
            return [u, g(flat)]
        idx = f(a, axis=ax)
        u = _obj([0] * a.size, a.shape)
        for r in range(a.shape[0]):
            u[r, idx[r]] = 1
        return [u, g(a, axis=ax)]
    return ev


OPS['roll_sec'] = Op('roll_sec', _ev_roll_sec, kinds='ix', vias=('mpc',), comm=True)
OPS['argmin_meth'] = Op('arg_meth', _ev_arg_meth('argmin'), kinds='ix', vias=('meth',), comm=True)
OPS['argmax_meth'] = Op('arg_meth', _ev_arg_meth('argmax'), kinds='ix', vias=('meth',), comm=True)

# ---- joining several arrays
def _arrs(E):
    return tuple(E.arrays)


OPS['concatenate'] = Op('concat', lambda E: E.f('concatenate')(_arrs(E), axis=E.P['axis']), kinds='ixfe', comm=True)
OPS['append'] = Op('append', lambda E: E.f('append')(E.A(0), E.A(1), axis=E.P['axis']), kinds='ixf', comm=True)
OPS['stack'] = Op('stack', lambda E: E.f('stack')(_arrs(E), axis=E.P['axis']), kinds='ixfe', comm=True)
OPS['vstack'] = Op('vstack', lambda E: E.f('vstack')(_arrs(E)), kinds='ixf', comm=True)
OPS['hstack'] = Op('hstack', lambda E: E.f('hstack')(_arrs(E)), kinds='ixf', comm=True)
OPS['dstack'] = Op('dstack', lambda E: E.f('dstack')(_arrs(E)), kinds='ixf', comm=True)
OPS['column_stack'] = Op('column_stack', lambda E: E.f('column_stack')(_arrs(E)), kinds='ixf', comm=True)
OPS['block'] = Op('block', lambda E: E.f('block')([[E.A(0), E.A(1)], [E.A(2), E.A(3)]] if len(E.arrays) == 4
                                                  else [E.A(i) for i in range(len(E.arrays))]), kinds='ixf', comm=True)

# ---- input / output
OPS['io'] = Op('io', lambda E: E.A(0), kinds='ixfe', vias=('oper',))

COMM_OPS = {n for n, o in OPS.items() if o.comm}


# ============================================================================================ generation
DIMS = [0, 1, 1, 2, 2, 2, 3, 3, 3, 4, 4, 5, 6, 8, 1, 2]


@st.composite
def _shape(draw, mindim=1, maxdim=3, maxsize=24, zero=True):
    nd = draw(st.integers(mindim, maxdim))
    shape, size = [], 1
    for _ in range(nd):
        d = draw(st.sampled_from(DIMS if zero else DIMS[1:]))
        d = min(d, max(maxsize // max(size, 1), 1), 8)
        shape.append(d)
        size *= d
    return shape


@st.composite
def _bpair(draw, n=2, **kw):
    """n shapes that broadcast together."""
    res = draw(_shape(**kw))
    out = []
    for _ in range(n):
        k = draw(st.integers(1, len(res)))
        s = list(res[len(res) - k:])
        for i in range(len(s)):
            if draw(st.integers(0, 3)) == 0:
                s[i] = 1
        out.append(s)
    if draw(st.booleans()):
        out[draw(st.integers(0, n - 1))] = list(res)
    return out


def _size(shape):
    return math.prod(shape)


@st.composite
def _ints(draw, n, lo, hi):
    if lo > hi:
        lo = hi = 0
    ext = sorted({lo, hi, min(hi, max(lo, 0)), min(hi, max(lo, 1)), min(hi, max(lo, -1)), min(hi, lo + 1), max(lo, hi - 1)})
    small = draw(st.booleans())   # small range: many ties / duplicates
    if small:
        el = st.integers(max(lo, -2), min(hi, 2)) if max(lo, -2) <= min(hi, 2) else st.integers(lo, hi)
    else:
        el = st.one_of(st.sampled_from(ext), st.integers(lo, hi))
    return draw(st.lists(el, min_size=n, max_size=n))


@st.composite
def _arr(draw, T, shape, bits=None, whole=None, nonzero=False, b01=False):
    n = _size(shape)
    spec = {'sh': list(shape), 's': draw(st.integers(0, 6))}
    if b01:
        v = draw(st.lists(st.integers(0, 1), min_size=n, max_size=n))
        spec['v'] = [x << T.f for x in v]
        spec['int'] = True if T.kind == 'fxp' else False
        return spec
    if T.kind == 'fld':
        spec['v'] = draw(_ints(n, 1 if nonzero else 0, T.q - 1))
        spec['int'] = False
        return spec
    lo, hi = T.full() if bits is None else T.rng(bits)
    if T.kind == 'fxp' and whole is None:
        whole = draw(st.integers(0, 2)) == 0
    if T.kind == 'fxp' and whole:
        wlo, whi = -((-lo) >> T.f), hi >> T.f
        spec['v'] = [x << T.f for x in draw(_ints(n, wlo, whi))]
        spec['int'] = draw(st.booleans())
    else:
        spec['v'] = draw(_ints(n, lo, hi))
        spec['int'] = False
    if nonzero:
        spec['v'] = [x if x else (1 << T.f) for x in spec['v']]
    return spec


@st.composite
def _scalar(draw, T, bits=None, nonzero=False):
    a = draw(_arr(T, [1], bits=bits, nonzero=nonzero))
    return {'v': a['v'][0], 's': a['s'], 'int': a['int']}


def _half(T):
    return (T.l - 2) if T.kind != 'fld' else 0


def _split_bits(draw, T, nterms=1):
    """Raw bit budgets (rx, ry) with |x_raw * y_raw| * nterms / 2^f < 2^(l-1)."""
    if T.kind == 'fld':
        return 0, 0
    total = (T.l - 1) + T.f - max(nterms, 1).bit_length()
    rx = draw(st.integers(0, max(0, min(T.l - 1, total))))
    ry = max(0, min(T.l - 1, total - rx))
    return rx, ry


@st.composite
def _pub(draw, T, shape, rawbits, kinds=('int', 'iarr')):
    """Public operand: Python int / float, NumPy int / float array; magnitude below 2^rawbits in RAW units."""
    t = draw(st.sampled_from(kinds))
    if T.kind == 'fld':
        lo, hi = (0, T.p - 1)
        if t == 'int':
            return {'t': 'int', 'v': draw(st.integers(lo, hi))}
        return {'t': 'iarr', 'sh': list(shape), 'v': draw(_ints(_size(shape), lo, min(hi, 2**62)))}
    if t in ('int', 'iarr'):
        vb = max(0, min(rawbits - T.f, 62))
        lo, hi = -((1 << vb) - 1), (1 << vb) - 1
        if rawbits - T.f < 0:
            lo = hi = 0
        if t == 'int':
            return {'t': 'int', 'v': draw(_ints(1, lo, hi))[0]}
        return {'t': 'iarr', 'sh': list(shape), 'v': draw(_ints(_size(shape), lo, hi))}
    rb = max(0, min(rawbits, 50))
    lo, hi = -((1 << rb) - 1), (1 << rb) - 1
    if t == 'float':
        return {'t': 'float', 'v': (draw(_ints(1, lo, hi))[0] / (1 << T.f)).hex()}
    return {'t': 'farr', 'sh': list(shape), 'v': [(x / (1 << T.f)).hex() for x in draw(_ints(_size(shape), lo, hi))]}


def _axis_choices(nd):
    return list(range(-nd, nd))


@st.composite
def _axis(draw, nd, none=True, tuples=True):
    opts = []
    if none:
        opts.append('none')
    if nd:
        opts += ['int', 'int']
        if tuples:
            opts.append('tuple')
    k = draw(st.sampled_from(opts))
    if k == 'none':
        return None
    if k == 'int':
        return draw(st.sampled_from(_axis_choices(nd)))
    axes = draw(st.lists(st.integers(0, nd - 1), min_size=1, max_size=nd, unique=True))
    return [a - nd if draw(st.integers(0, 3)) == 0 else a for a in axes]


def _axes_set(ax, nd):
    if ax is None:
        return set(range(nd))
    if isinstance(ax, int):
        return {ax % nd}
    return {a % nd for a in ax}


@st.composite
def _gen(draw, T, name, m):
    """Record for operation `name` (operands satisfy the preconditions by construction)."""
    op = OPS[name]
    sig = op.sig
    rec = {'op': name, 'via': draw(st.sampled_from(op.vias))}
    P = {}
    fld = T.kind == 'fld'
    ext = fld and T.d > 1
    half = _half(T)
    if sig == 'ew2':
        if name in ('less', 'equal', 'minimum', 'maximum'):
            forms = ['ss']
        elif ext:
            forms = ['ss', 'ss', 'sq', 'qs']
        else:
            forms = ['ss', 'ss', 'sp', 'ps', 'sq', 'qs']
        form = draw(st.sampled_from(forms))
        if rec['via'] == 'mpc' and (form in ('ps', 'qs') or (form == 'sp' and name in ('add', 'sub'))):
            rec['via'] = 'oper'    # mpc.np_add / np_subtract expect coerced operands, secure array first
        rec['form'] = form
        if name == 'mul':
            bx, by = _split_bits(draw, T)
        else:
            bx = by = half
        nzx = name == 'div' and form in ('ps', 'qs')
        nzy = name == 'div' and form in ('ss', 'sp', 'sq')
        if form == 'ss':
            sa, sb = draw(_bpair())
            if draw(st.integers(0, 11)) == 0:
                sa = []     # 0-d array
            rec['a'] = [draw(_arr(T, sa, bx)), draw(_arr(T, sb, by, nonzero=nzy))]
        elif form in ('sp', 'ps'):
            sa, sb = draw(_bpair())
            if draw(st.integers(0, 40)) == 0:
                sa = []     # 0-d array with a public operand: F37e
            rec['a'] = [draw(_arr(T, sa, bx, nonzero=nzx))]
            kinds = ['int', 'int', 'iarr']
            if T.kind == 'fxp' and name in ('mul', 'add', 'sub'):
                kinds += ['float'] + (['farr'] if name == 'mul' else [])
            rec['pub'] = draw(_pub(T, sb, by, kinds=tuple(kinds)))
            if nzy or (name == 'div'):
                if rec['pub']['t'] == 'int':
                    rec['pub']['v'] = rec['pub']['v'] or 1
                else:
                    rec['pub']['v'] = [x or 1 for x in rec['pub']['v']]
        else:
            rec['a'] = [draw(_arr(T, draw(_shape()), bx, nonzero=nzx))]
            rec['q'] = [draw(_scalar(T, by, nonzero=nzy))]
    elif sig == 'sel':
        sc_, sa, sb = draw(_bpair(n=3))
        rec['a'] = [draw(_arr(T, sc_, b01=True)), draw(_arr(T, sa, half)), draw(_arr(T, sb, half))]
    elif sig == 'un':
        shape = draw(_shape())
        if name == 'neg' and draw(st.integers(0, 9)) == 0:
            shape = []
        rec['a'] = [draw(_arr(T, shape, (T.l - 1) if not fld else None))]
    elif sig == 'sgn':
        rec['a'] = [draw(_arr(T, draw(_shape())))]     # full range, -2^(l-1) included
        P['flags'] = draw(st.sampled_from([[], [], ['LT'], ['EQ']]))
    elif sig == 'pow':
        if fld:
            es = [0, 1, 2, 3, 5, -1, -2] + ([254] if T.q == 256 else []) + [T.q - 1]
        elif T.kind == 'int':
            es = [0, 1, 2, 2, 3, 4, 5]
        else:
            es = [0, 1, 2, 2, 3]
        e = draw(st.sampled_from(es))
        P['e'] = e
        if fld:
            rec['a'] = [draw(_arr(T, draw(_shape()), nonzero=e < 0))]
        else:
            vb = (T.l - 1 - T.f) // max(e, 1)
            rec['a'] = [draw(_arr(T, draw(_shape()), vb + T.f))]
    elif sig == 'lshift':
        k = draw(st.integers(0, 8 if fld else max(0, T.l - 2)))
        P['k'] = k
        rec['a'] = [draw(_arr(T, draw(_shape()), None if fld else T.l - 1 - k))]
    elif sig == 'matmul':
        pat = draw(st.sampled_from(['11', '12', '21', '22', '22', '22', '32', '33', '23', '13', '31', '3b']))
        n = draw(st.sampled_from([0, 1, 2, 2, 3, 3, 4, 6]))
        a_ = draw(st.integers(1, 3))
        c_ = draw(st.integers(1, 3))
        b_ = draw(st.integers(1, 2))
        while a_ * max(n, 1) * b_ > 24 or c_ * max(n, 1) * b_ > 24:
            n = max(n - 1, 0)
            b_ = 1 if n <= 2 else b_
            if n == 0:
                break
        shapes = {'11': ([n], [n]), '12': ([n], [n, c_]), '21': ([a_, n], [n]), '22': ([a_, n], [n, c_]),
                  '32': ([b_, a_, n], [n, c_]), '33': ([b_, a_, n], [b_, n, c_]), '23': ([a_, n], [b_, n, c_]),
                  '13': ([n], [b_, n, c_]), '31': ([b_, a_, n], [n]), '3b': ([1, a_, n], [b_, n, c_])}[pat]
        rec['inner'] = n
        form = draw(st.sampled_from(['ss', 'ss', 'ss', 'sp', 'ps'] if not ext else ['ss']))
        rec['form'] = form
        bx, by = _split_bits(draw, T, nterms=max(n, 1))
        if form == 'ss':
            rec['a'] = [draw(_arr(T, shapes[0], bx)), draw(_arr(T, shapes[1], by))]
        else:
            kinds = ('iarr', 'iarr', 'farr') if T.kind == 'fxp' else ('iarr',)
            if form == 'sp':
                rec['a'] = [draw(_arr(T, shapes[0], bx))]
                rec['pub'] = draw(_pub(T, shapes[1], by, kinds=kinds))
            else:
                rec['a'] = [draw(_arr(T, shapes[1], by))]
                rec['pub'] = draw(_pub(T, shapes[0], bx, kinds=kinds))
            rec['via'] = 'oper' if (form == 'ps' and rec['via'] == 'mpc') else rec['via']
    elif sig == 'outer':
        sa = draw(_shape(maxdim=2, maxsize=6, zero=True))
        sb = draw(_shape(maxdim=2, maxsize=4, zero=True))
        bx, by = _split_bits(draw, T)
        rec['a'] = [draw(_arr(T, sa, bx)), draw(_arr(T, sb, by))]
    elif sig == 'convolve':
        na, nb = draw(st.integers(1, 8)), draw(st.integers(1, 6))
        rec['inner'] = min(na, nb)
        P['mode'] = draw(st.sampled_from(['full', 'full', 'same', 'valid']))
        bx, by = _split_bits(draw, T, nterms=min(na, nb))
        form = draw(st.sampled_from(['ss', 'ss', 'sp', 'ps']))
        rec['form'] = form
        if form == 'ss':
            rec['a'] = [draw(_arr(T, [na], bx)), draw(_arr(T, [nb], by))]
        elif form == 'sp':
            rec['a'] = [draw(_arr(T, [na], bx))]
            rec['pub'] = draw(_pub(T, [nb], by, kinds=('iarr',)))
        else:
            rec['a'] = [draw(_arr(T, [nb], by))]
            rec['pub'] = draw(_pub(T, [na], bx, kinds=('iarr',)))
    elif sig in ('red_sum', 'red_cum'):
        shape = draw(_shape())
        nd = len(shape)
        bits = None if fld else T.l - 1 - (max(_size(shape), 1) + 1).bit_length()
        rec['a'] = [draw(_arr(T, shape, bits))]
        P['axis'] = draw(_axis(nd, tuples=(sig == 'red_sum')))
        if sig == 'red_sum':
            if draw(st.booleans()):
                P['keepdims'] = draw(st.booleans())
            if draw(st.integers(0, 3)) == 0 and not ext:
                P['initial'] = draw(st.integers(0, 3)) if fld else draw(st.integers(-2, 2))
                if T.kind != 'fld' and bits - T.f < 2:
                    del P['initial']
        if rec['via'] == 'meth' and P['axis'] is None and draw(st.booleans()):
            del P['axis']
    elif sig == 'red_prod':
        shape = draw(_shape(maxsize=12))
        nd = len(shape)
        P['axis'] = draw(_axis(nd))
        k = max(1, math.prod(shape[i] for i in _axes_set(_tup(P['axis']), nd)))
        if fld:
            rec['a'] = [draw(_arr(T, shape))]
        else:
            vb = (T.l - 1 - T.f) // k
            rec['a'] = [draw(_arr(T, shape, vb + T.f, whole=True))]
            if vb == 0:   # |x| < 1 leaves only 0: use -1, 0, 1 (products stay in {-1, 0, 1})
                rec['a'][0]['v'] = [x << T.f for x in draw(_ints(_size(shape), -1, 1))]
            if T.kind == 'fxp':
                rec['a'][0]['int'] = True   # np_prod / mpc.prod of fixed-point numbers is for integral values
    elif sig == 'red_bool':
        shape = draw(_shape())
        rec['a'] = [draw(_arr(T, shape, b01=True))]
        P['axis'] = draw(_axis(len(shape)))
    elif sig in ('red_ext', 'red_arg'):
        shape = draw(_shape(zero=False))
        rec['a'] = [draw(_arr(T, shape, half))]
        P['axis'] = draw(_axis(len(shape), tuples=(sig == 'red_ext')))
        if draw(st.booleans()):
            P['keepdims'] = draw(st.booleans())
    elif sig == 'arg_meth':
        if draw(st.booleans()):
            shape = [draw(st.integers(1, 8))]
            P['axis'] = draw(st.sampled_from([None] * 7 + [0, -1]))
        else:
            shape = [draw(st.integers(1, 4)), draw(st.integers(1, 5))]
            P['axis'] = draw(st.sampled_from([None] * 7 + [1, -1]))   # axis given: F37p
        rec['a'] = [draw(_arr(T, shape, half))]
    elif sig == 'roll_sec':
        n = draw(st.integers(1, 8))
        rec['a'] = [draw(_arr(T, [n]))]
        k = draw(st.integers(0, n))
        rec['q'] = [{'v': k << T.f, 's': draw(st.integers(0, 6)), 'int': True}]
    elif sig == 'red_trace':
        shape = draw(_shape(mindim=2))
        nd = len(shape)
        a1 = draw(st.integers(0, nd - 1))
        a2 = draw(st.sampled_from([i for i in range(nd) if i != a1]))
        P['axis1'] = a1 - nd if draw(st.integers(0, 3)) == 0 else a1
        P['axis2'] = a2 - nd if draw(st.integers(0, 3)) == 0 else a2
        P['offset'] = draw(st.integers(-3, 3))
        bits = None if fld else T.l - 1 - (max(_size(shape), 1)).bit_length()
        rec['a'] = [draw(_arr(T, shape, bits))]
    elif sig == 'sort':
        shape = draw(_shape())
        rec['a'] = [draw(_arr(T, shape, half))]
        P['axis'] = draw(_axis(len(shape), tuples=False))
        if rec['via'] == 'meth' and P['axis'] is None:
            P['axis'] = -1
    elif sig in ('shape1', 'iter'):
        shape = draw(_shape())
        if sig == 'iter':
            shape[0] = min(shape[0], 4)
        rec['a'] = [draw(_arr(T, shape))]
        if name == 'flatten':
            P['order'] = draw(st.sampled_from(['C', 'C', 'F']))
    elif sig == 'reshape':
        shape = draw(_shape())
        rec['a'] = [draw(_arr(T, shape))]
        n = _size(shape)
        new = []
        if n == 0:
            new = draw(st.sampled_from([[0], [0, 3], [2, 0], [0, 1, 2], [3, 0, 0]]))
        else:
            rest = n
            for _ in range(draw(st.integers(1, 3))):
                divs = [d for d in range(1, rest + 1) if rest % d == 0]
                d = draw(st.sampled_from(divs))
                new.append(d)
                rest //= d
            new.append(rest)
            if len(new) > 3:
                new = new[:2] + [math.prod(new[2:])]
            new = list(draw(st.permutations(new)))
        if n and draw(st.integers(0, 2)) == 0:
            new[draw(st.integers(0, len(new) - 1))] = -1
        P['shape'] = new if not (len(new) == 1 and draw(st.booleans())) else new[0]
        if isinstance(P['shape'], int):
            P['shape'] = [P['shape']]
        P['order'] = draw(st.sampled_from(['C', 'C', 'F']))
    elif sig == 'transpose':
        shape = draw(_shape())
        nd = len(shape)
        rec['a'] = [draw(_arr(T, shape))]
        if draw(st.booleans()):
            P['axes'] = None
        else:
            perm = draw(st.permutations(list(range(nd))))
            P['axes'] = [a - nd if draw(st.integers(0, 4)) == 0 else a for a in perm]
    elif sig == 'swapaxes':
        shape = draw(_shape())
        nd = len(shape)
        rec['a'] = [draw(_arr(T, shape))]
        P['a1'] = draw(st.sampled_from(_axis_choices(nd)))
        P['a2'] = draw(st.sampled_from(_axis_choices(nd)))
    elif sig == 'expand_dims':
        shape = draw(_shape(maxdim=2))
        nd = len(shape)
        rec['a'] = [draw(_arr(T, shape))]
        if draw(st.booleans()):
            P['axis'] = draw(st.integers(-(nd + 1), nd))
        else:
            k = draw(st.integers(1, 2))
            pos = draw(st.lists(st.integers(0, nd + k - 1), min_size=k, max_size=k, unique=True))
            P['axis'] = [x - (nd + k) if draw(st.integers(0, 3)) == 0 else x for x in pos]
    elif sig == 'squeeze':
        shape = draw(_shape())
        for i in range(len(shape)):
            if draw(st.booleans()):
                shape[i] = 1
        nd = len(shape)
        rec['a'] = [draw(_arr(T, shape))]
        ones = [i for i in range(nd) if shape[i] == 1]
        k = draw(st.sampled_from(['none', 'int', 'tuple'] if ones else ['none']))
        if k == 'none':
            P['axis'] = None
        elif k == 'int':
            i = draw(st.sampled_from(ones))
            P['axis'] = i - nd if draw(st.booleans()) else i
        else:
            P['axis'] = draw(st.lists(st.sampled_from(ones), min_size=1, max_size=len(ones), unique=True))
    elif sig in ('flip', 'flip1', 'flip2'):
        shape = draw(_shape(mindim=2 if sig == 'flip2' else 1))
        rec['a'] = [draw(_arr(T, shape))]
        if sig == 'flip':
            P['axis'] = draw(_axis(len(shape)))
    elif sig == 'roll':
        shape = draw(_shape())
        nd = len(shape)
        rec['a'] = [draw(_arr(T, shape))]
        P['axis'] = draw(_axis(nd, tuples=False))   # (tuples of shifts / axes are not documented for np_roll)
        P['shift'] = draw(st.integers(-30, 30))
    elif sig == 'rot90':
        shape = draw(_shape(mindim=2))
        nd = len(shape)
        rec['a'] = [draw(_arr(T, shape))]
        a1 = draw(st.integers(0, nd - 1))
        a2 = draw(st.sampled_from([i for i in range(nd) if i != a1]))
        P['axes'] = [a1 - nd if draw(st.integers(0, 3)) == 0 else a1, a2 - nd if draw(st.integers(0, 3)) == 0 else a2]
        P['k'] = draw(st.integers(-3, 5))
    elif sig == 'diag':
        if draw(st.booleans()):
            shape = [draw(st.integers(0, 4))]
            P['k'] = draw(st.integers(-2, 2))
        else:
            shape = draw(_shape(mindim=2, maxdim=2))
            P['k'] = draw(st.integers(-4, 4))
        rec['a'] = [draw(_arr(T, shape))]
    elif sig == 'diagflat':
        shape = draw(_shape(maxdim=2, maxsize=4))
        P['k'] = draw(st.integers(-1, 1))
        rec['a'] = [draw(_arr(T, shape))]
    elif sig == 'diagonal':
        shape = draw(_shape(mindim=2))
        nd = len(shape)
        a1 = draw(st.integers(0, nd - 1))
        a2 = draw(st.sampled_from([i for i in range(nd) if i != a1]))
        P['axis1'] = a1 - nd if draw(st.integers(0, 3)) == 0 else a1
        P['axis2'] = a2 - nd if draw(st.integers(0, 3)) == 0 else a2
        P['offset'] = draw(st.integers(-3, 3))
        rec['a'] = [draw(_arr(T, shape))]
    elif sig in ('getitem', 'update'):
        shape = draw(_shape())
        rec['a'] = [draw(_arr(T, shape))]
        key = draw(_index_key(shape, advanced=(sig == 'getitem')))
        P['key'] = key
        if sig == 'update':
            vshape = list(np.empty(shape)[_key(key)].shape)
            rec['a'].append(draw(_arr(T, vshape)))
            if T.kind == 'fxp':
                pass
    elif sig == 'split':
        fn = draw(st.sampled_from(['split', 'split', 'hsplit', 'vsplit', 'dsplit']))
        mind = {'split': 1, 'hsplit': 2, 'vsplit': 2, 'dsplit': 3}[fn]
        shape = draw(_shape(mindim=mind, zero=False))
        nd = len(shape)
        axis = {'split': draw(st.integers(-nd, nd - 1)), 'hsplit': 1, 'vsplit': 0, 'dsplit': 2}[fn]
        L = shape[axis]
        P['fn'], P['axis'] = fn, axis
        P['n'] = draw(st.sampled_from([d for d in range(1, L + 1) if L % d == 0]))
        rec['a'] = [draw(_arr(T, shape))]
    elif sig == 'fromlist':
        n = draw(st.integers(1, 6))
        rec['q'] = [draw(_scalar(T)) for _ in range(n)]
    elif sig in ('concat', 'append'):
        k = 2 if sig == 'append' else draw(st.integers(1, 3))
        if draw(st.integers(0, 3)) == 0:
            P['axis'] = None
            rec['a'] = [draw(_arr(T, draw(_shape(maxsize=8)))) for _ in range(k)]
        else:
            shape = draw(_shape(maxsize=12))
            nd = len(shape)
            ax = draw(st.integers(-nd, nd - 1))
            P['axis'] = ax
            rec['a'] = []
            for _ in range(k):
                s = list(shape)
                s[ax] = draw(st.integers(0, 3))
                rec['a'].append(draw(_arr(T, s)))
    elif sig == 'stack':
        shape = draw(_shape(maxdim=2, maxsize=8))
        k = draw(st.integers(1, 3))
        P['axis'] = draw(st.integers(-(len(shape) + 1), len(shape)))
        rec['a'] = [draw(_arr(T, shape)) for _ in range(k)]
    elif sig in ('vstack', 'hstack', 'dstack', 'column_stack'):
        k = draw(st.integers(1, 3))
        nd = draw(st.integers(1, 3 if sig != 'column_stack' else 2))
        shape = draw(_shape(mindim=nd, maxdim=nd, maxsize=8))
        vary = {'vstack': 0, 'hstack': 1 if nd >= 2 else 0, 'dstack': 2, 'column_stack': 1}[sig]
        rec['a'] = []
        for _ in range(k):
            s = list(shape)
            if vary < nd and not (sig in ('vstack', 'column_stack') and nd == 1):
                s[vary] = draw(st.integers(0, 3))
            rec['a'].append(draw(_arr(T, s)))
        if sig == 'column_stack' and nd == 2 and draw(st.booleans()):
            rec['a'].append(draw(_arr(T, [shape[0]])))   # mix of 1D columns and 2D blocks
    elif sig == 'block':
        if draw(st.booleans()):
            r1, r2, c1, c2 = [draw(st.integers(1, 3)) for _ in range(4)]
            rec['a'] = [draw(_arr(T, s)) for s in ([r1, c1], [r1, c2], [r2, c1], [r2, c2])]
        else:
            rec['a'] = [draw(_arr(T, [draw(st.integers(1, 4))])) for _ in range(draw(st.integers(1, 3)))]
    elif sig == 'io':
        mode = draw(st.sampled_from(['one', 'one', 'all', 'ctor', 'ctor']))
        P['mode'] = mode
        shape = draw(_shape())
        if mode == 'all':
            shape = draw(_shape(maxsize=8))
            rec['a'] = [draw(_arr(T, shape)) for _ in range(m)]
            for i, a in enumerate(rec['a']):
                a['s'] = i
                a['int'] = rec['a'][0]['int'] and a['int']
            flag = all(a['int'] for a in rec['a'])
            for a in rec['a']:
                a['int'] = flag
        elif mode == 'ctor' and not fld:
            # public constructor paths: integer ndarray (int64 / object), float ndarray (exactly representable values)
            P['dtype'] = draw(st.sampled_from(['int64', 'object', 'float'] if T.kind == 'fxp' else ['int64', 'object']))
            bits = min(T.l - 1, 52) if P['dtype'] == 'float' else min(T.l - 1, 62 + T.f)
            rec['a'] = [draw(_arr(T, shape, bits, whole=(P['dtype'] != 'float')))]
            if P['dtype'] != 'float' and T.kind == 'fxp':
                rec['a'][0]['v'] = [(x >> T.f) << T.f for x in rec['a'][0]['v']]
            rec['a'][0]['int'] = None   # flag inferred by the constructor (same at all parties: the sender's array is not
            # available at the other parties, so the record carries the flag the constructor must infer)
        else:
            P['mode'] = 'one'
            rec['a'] = [draw(_arr(T, shape))]
        P['recv'] = draw(st.one_of(st.none(), st.lists(st.integers(0, 6), min_size=1, max_size=3)))
        P['default_out'] = draw(st.booleans())
    else:
        raise ValueError(sig)
    rec['P'] = P
    # scalar-API differential for a share of the records with small operands
    if op.sc is not None and draw(st.integers(0, 2)) == 0 and all(_size(a['sh']) <= 8 for a in rec.get('a', [])):
        rec['sc'] = True
    return rec


@st.composite
def _index_key(draw, shape, advanced=True):
    """A valid index key for an array of the given shape (JSON form, see _key)."""
    nd = len(shape)
    kind = draw(st.sampled_from(['basic', 'basic', 'basic', 'adv', 'mask'] if advanced else ['basic']))
    if kind == 'mask' and _size(shape) > 0:
        return [{'ba': draw(st.lists(st.booleans(), min_size=_size(shape), max_size=_size(shape))), 'sh': list(shape)}]
    key = []
    used_ell = False
    i = 0
    adv_used = False
    if kind == 'basic' and draw(st.integers(0, 3)) == 0:
        # new axes (and possibly an index) BEFORE an ellipsis: the expansion of '...' must skip the new axes
        key = [None] * draw(st.integers(1, 2))
        if nd and shape[0] > 0 and draw(st.booleans()):
            key.append(draw(st.integers(-shape[0], shape[0] - 1)))
            i = 1
        key.append('...')
        used_ell = True
        i += draw(st.integers(0, nd - i))
    while i < nd:
        d = shape[i]
        choices = ['slice', 'slice', 'stop']
        if d > 0:
            choices += ['int', 'int']
        if not used_ell:
            choices.append('ell')
        choices.append('new')
        if kind == 'adv' and d > 0 and not adv_used:
            choices += ['ia', 'ia']
        c = draw(st.sampled_from(choices))
        if c == 'stop':
            break
        if c == 'int':
            key.append(draw(st.integers(-d, d - 1)))
            i += 1
        elif c == 'slice':
            start = draw(st.sampled_from([None, None, 0, 1, -1, 2, -2, d, -d - 1]))
            stop = draw(st.sampled_from([None, None, 0, 1, -1, 2, d, d + 1, -d]))
            step = draw(st.sampled_from([None, None, 1, 2, -1, -2, 3]))
            key.append({'s': [start, stop, step]})
            i += 1
        elif c == 'ell':
            key.append('...')
            used_ell = True
            i += draw(st.integers(0, nd - i))
        elif c == 'new':
            key.append(None)
        else:
            n = draw(st.integers(0, 3))
            key.append({'ia': draw(st.lists(st.integers(-d, d - 1), min_size=n, max_size=n)), 'sh': [n]})
            adv_used = True
            i += 1
    try:
        np.empty(shape)[_key(key)]
    except Exception:
        return []
    if len(key) == 1 and draw(st.booleans()) and not isinstance(key[0], dict):
        return key[0] if key[0] != [] else []
    return key


PRIMES = [2, 3, 5, 7, 11, 13, 101, 251, 257, 65537, 2**31 - 1, 2**61 - 1, 2**64 - 59, 2**127 - 1]
EXTS = [(2, 2), (2, 3), (2, 8), (3, 2)]


@st.composite
def _config(draw):
    m, t = draw(st.sampled_from([(1, 0)] * 9 + [(2, 0)] + [(3, 1)] * 6 + [(3, 0), (4, 1), (4, 1), (5, 2), (5, 1), (7, 3)]))
    return m, t, draw(st.booleans())


@st.composite
def _type(draw, m, t):
    k = draw(st.sampled_from(['int', 'int', 'int', 'fxp', 'fxp', 'fxp', 'fld', 'fld', 'ext']))
    if k == 'int':
        return {'k': 'int', 'l': draw(st.sampled_from([4, 8, 8, 16, 16, 32, 32, 64]))}
    if k == 'fxp':
        l, f = draw(st.sampled_from([(8, 4), (16, 8), (16, 8), (32, 16), (32, 16), (24, 8), (32, 8), (64, 32), (12, 2)]))
        return {'k': 'fxp', 'l': l, 'f': f}
    if k == 'fld':
        return {'k': 'fld', 'p': draw(st.sampled_from(PRIMES))}
    p, d = draw(st.sampled_from([pd for pd in EXTS if t == 0 or pd[0] ** pd[1] > m]))
    return {'k': 'fld', 'p': p, 'd': d}


def _kind_letter(T):
    return {'int': 'i', 'fxp': 'x'}.get(T.kind) or ('e' if T.d > 1 else 'f')


WEIGHT = {'io': 4, 'matmul': 3, 'mul': 2, 'convolve': 2, 'sort': 2, 'sum': 2, 'prod': 2, 'getitem': 3, 'reshape': 2,
          'concatenate': 2, 'stack': 2, 'where': 2, 'argmin': 2, 'argmax': 2, 'amin': 2, 'amax': 2, 'lt': 2, 'eq': 2}
HEAVY = {'sort', 'argmin', 'argmax', 'argmin_meth', 'argmax_meth', 'roll_sec', 'amin', 'amax', 'sgn', 'abs', 'lt', 'le', 'gt', 'ge', 'eq', 'ne', 'less', 'equal',
         'minimum', 'maximum', 'prod', 'all', 'any', 'lsb'}


@st.composite
def _case(draw, tier):
    m, t, prss = draw(_config())
    ty = draw(_type(m, t))
    T = TC(ty)
    letter = _kind_letter(T)
    names = sorted(n for n, o in OPS.items() if letter in o.kinds for _ in range(WEIGHT.get(n, 1)))
    nops = draw(st.integers(1, 6 if m < 3 else 3))
    ops = []
    heavy = 0
    kept_known = None
    # uniform choice of operations: a PRNG seeded by a drawn integer (sampled_from / st.randoms favour the first entries)
    rnd = random.Random(draw(st.integers(0, 2**64 - 1)))
    for _ in range(nops):
        name = rnd.choice(names)
        if name in HEAVY:
            heavy += 1
            if heavy > (2 if m < 3 else 1):
                name = rnd.choice([n for n in names if n not in HEAVY])
        rec = draw(_gen(T, name, m))
        if known_class(T, m, t, rec, prss=prss) is not None:
            kept_known = rec     # inside a known-finding class: kept out of the main search
            continue
        ops.append(rec)
    if kept_known is not None and (not ops or draw(st.integers(0, 7)) == 0):
        ops = [kept_known]       # ... and run alone now and then (counted as KNOWN-FINDING, never mixed)
    case = {'m': m, 't': t, 'prss': prss, 'seed': draw(st.integers(0, 2**32)), 'ty': ty, 'ops': ops}
    if draw(st.integers(0, 5)) == 0:
        case['th'] = draw(_thresha_rec())
    return case


@st.composite
def _thresha_rec(draw):
    m = draw(st.integers(1, 6))
    t = draw(st.integers(0, (m - 1) // 2))
    p = draw(st.sampled_from([q for q in PRIMES if q > m]))
    n = draw(st.integers(0, 6))
    return {'m': m, 't': t, 'p': p, 'vals': draw(_ints(n, 0, p - 1)), 'seed': draw(st.integers(0, 2**32)),
            'i': draw(st.integers(0, m - 1)), 'uci': draw(st.binary(min_size=1, max_size=8)).hex(),
            'bound': draw(st.sampled_from([p, 2, 256, 2**31 + 11]))}


def strategy(tier):
    return _case(tier)


# ============================================================================================ evaluation
def _flag(T, spec):
    """Public integrality flag of an operand spec (sanitised: True only if every value is whole)."""
    if T.kind != 'fxp':
        return None
    vals = spec['v'] if isinstance(spec['v'], list) else [spec['v']]
    whole = all(int(v) % (1 << T.f) == 0 for v in vals)
    if spec.get('int') is None:
        return whole      # flag inferred by the public constructor
    return bool(spec['int']) and whole


def _leaves(r, out=None):
    if out is None:
        out = []
    if isinstance(r, (list, tuple)):
        for x in r:
            _leaves(x, out)
    else:
        out.append(r)
    return out


def _ref_arrays(T, rec):
    arrs = [_obj([T.ref(v) for v in spec['v']], spec['sh']) for spec in rec.get('a', [])]
    scal = [T.ref(spec['v']) for spec in rec.get('q', [])]
    return arrs, scal


def _ref_eval(T, rec):
    """Reference result: (leaves [(shape or None, [exact values])], tolerance in units for leaf 0 or None)."""
    arrs, scal = _ref_arrays(T, rec)
    E = Env(T, rec, False, arrs, scal)
    op = OPS[rec['op']]
    if rec['op'] == 'io':
        r = list(arrs) if rec['P']['mode'] == 'all' else arrs[0]
    else:
        r = op.ev(E)
    leaves = []
    for x in _leaves(r):
        if isinstance(x, np.ndarray):
            leaves.append((tuple(x.shape), [T.exact(e) for e in x.reshape(-1)]))
        else:
            leaves.append((None, [T.exact(x)]))
    tol = None
    if op.tol is not None and T.kind == 'fxp':
        tl = op.tol(E, _leaves(r)[0])
        if tl is not None:
            shape = leaves[0][0] or ()
            tol = [Fr(x) for x in np.broadcast_to(np.array(tl, dtype=object), shape).reshape(-1)] if shape != () \
                else [Fr(tl if not isinstance(tl, np.ndarray) else tl.reshape(-1)[0])]
    return leaves, tol


def _make_prog(case, T):
    m = case['m']

    async def prog(mpc, pid):
        stype = T.sectype(mpc)
        SecureArray = mpc.SecureArray
        SecureObject = mpc.SecureObject
        fmod = stype.field.modulus if T.kind != 'fld' else None

        def mk_array(spec, P=None):
            s = spec['s'] % m
            shape = tuple(spec['sh'])
            flag = _flag(T, spec)
            if pid == s:
                if P is not None and P.get('mode') == 'ctor':
                    if P['dtype'] == 'float':
                        x = stype.array(np.array([int(v) / (1 << T.f) for v in spec['v']], dtype=np.float64).reshape(shape))
                    else:
                        vals = [int(v) >> T.f for v in spec['v']]
                        x = stype.array(np.array(vals, dtype=np.int64 if P['dtype'] == 'int64' else object).reshape(shape))
                else:
                    raw = _obj([int(v) for v in spec['v']], shape)
                    if T.kind == 'fxp':
                        x = stype.array(stype.field.array(raw), integral=flag)
                    else:
                        x = stype.array(raw)
            else:
                if T.kind == 'fxp':
                    x = stype.array(None, shape=shape, integral=flag)
                else:
                    x = stype.array(None, shape=shape)
            return x, s

        def mk_scalar(spec):
            s = spec['s'] % m
            if T.kind == 'fxp':
                x = stype(stype.field(int(spec['v'])) if pid == s else None, integral=_flag(T, spec))
            elif T.kind == 'int':
                x = stype(int(spec['v']) if pid == s else None)
            else:
                x = stype(stype.field(int(spec['v'])) if pid == s else None)
            return mpc.input(x, senders=s)

        def conv(e):
            """Opened element -> raw int."""
            if T.kind == 'fld':
                return int(e)
            v = int(getattr(e, 'value', e))
            if T.kind == 'fxp':
                v %= fmod
                return v - fmod if v > fmod // 2 else v
            return v

        async def open_leaf(x, recv=None, default=False):
            if isinstance(x, SecureArray):
                decl = list(x.shape)
                integral = getattr(x, 'integral', None)
                raw = T.kind == 'fxp' and not default
                v = await mpc.output(x, receivers=recv, raw=raw)
                if v is None:
                    return {'none': True}
                arr = v.value if hasattr(v, 'value') else v
                if not isinstance(arr, np.ndarray):
                    return {'bad': f'opened value of type {type(v).__name__}'}
                if T.kind == 'fxp' and default:
                    vals = [Fr(float(e)) * (1 << T.f) for e in arr.reshape(-1)]
                    vals = [int(e) if e.denominator == 1 else float(e) for e in vals]
                else:
                    vals = [conv(e) for e in arr.reshape(-1)]
                return {'decl': decl, 'sh': list(arr.shape), 'v': vals, 'int': integral}
            if isinstance(x, SecureObject):
                integral = getattr(x, 'integral', None)
                v = await mpc.output(x, receivers=recv, raw=(T.kind == 'fxp'))
                if v is None:
                    return {'none': True}
                if isinstance(getattr(v, 'value', None), np.ndarray):
                    if v.value.shape != ():
                        return {'bad': f'scalar opened as array of shape {v.value.shape}'}
                    v = v.value.reshape(-1)[0]
                return {'decl': None, 'sh': None, 'v': [conv(v)], 'int': integral}
            if isinstance(x, (int, np.integer)) and not isinstance(x, bool):
                return {'decl': None, 'sh': None, 'v': [int(x) << T.f], 'int': None, 'pub': True}
            return {'bad': f'result leaf of type {type(x).__name__}'}

        results = []
        for rec in case['ops']:
            op = OPS[rec['op']]
            P = rec.get('P', {})
            out = {}
            if rec['op'] == 'io':
                recv = sorted({x % m for x in P['recv']}) if P.get('recv') else None
                default = bool(P.get('default_out')) and T.kind == 'fxp' and T.l + T.f <= 52
                if P['mode'] == 'all':
                    x, _ = mk_array(rec['a'][pid])
                    r = mpc.input(x)
                else:
                    x, s = mk_array(rec['a'][0], P)
                    r = mpc.input(x, senders=s)
                out['leaves'] = [await open_leaf(x, recv, default) for x in _leaves(r)]
                out['recv'] = recv
                out['default'] = default
                results.append(out)
                continue
            arrays = []
            for spec in rec.get('a', []):
                x, s = mk_array(spec)
                arrays.append(mpc.input(x, senders=s))
            scalars = [mk_scalar(spec) for spec in rec.get('q', [])]
            E = Env(T, rec, True, arrays, scalars, mpc)
            r = op.ev(E)
            out['leaves'] = [await open_leaf(x) for x in _leaves(r)]
            if rec.get('sc') and op.sc is not None:
                lst = op.sc(E)
                if lst is not None:
                    out['sc'] = [await open_leaf(x) for x in lst]
            results.append(out)
        return results

    return prog


def _cmp_leaf(T, what, got, exp_shape, exp_vals, tol, check_decl=True):
    """Compare one opened leaf with the reference; returns error text or None."""
    if 'bad' in got:
        return f'{what}: {got["bad"]}'
    if 'none' in got:
        return f'{what}: receiver obtained None'
    es = tuple(exp_shape) if exp_shape is not None else ()
    if check_decl and not got.get('pub'):
        ds = tuple(got['decl']) if got['decl'] is not None else ()
        if ds != es:
            return f'{what}: declared shape {got["decl"]} of the secure result, NumPy gives {exp_shape}'
    gs = tuple(got['sh']) if got['sh'] is not None else ()
    if gs != es:
        return f'{what}: opened shape {got["sh"]}, NumPy gives {exp_shape}'
    if len(got['v']) != len(exp_vals):
        return f'{what}: {len(got["v"])} values, expected {len(exp_vals)}'
    for i, (g, e) in enumerate(zip(got['v'], exp_vals)):
        gv = T.from_raw_out(g) if not isinstance(g, float) else Fr(g) / (1 << T.f)
        if T.kind == 'fld':
            if int(gv) != int(e):
                return f'{what}: element {i} is {gv}, expected {e}'
            continue
        tl = (tol[i] if tol is not None else 0) * T.unit
        if abs(gv - e) > tl:
            return (f'{what}: element {i} is {gv} (raw {g}), expected {e}'
                    + (f' within {tol[i]} units' if tol is not None else ' exactly'))
    if T.kind == 'fxp' and got.get('int') is True:
        for i, g in enumerate(got['v']):
            if not isinstance(g, float) and int(g) % (1 << T.f):
                return f'{what}: result flagged integral but element {i} = {T.from_raw_out(g)} is not whole'
    return None


class _Rng:
    def __init__(self, seed):
        import random
        self.r = random.Random(seed)

    def randbelow(self, n):
        return self.r.randrange(n)


def _check_thresha(th):
    """Light touch: array sharing / recombination / PRSS agree with the list versions."""
    import itertools
    m, t, p, vals = th['m'], th['t'], th['p'], [int(v) for v in th['vals']]
    field = finfields.GF(p)
    n = len(vals)
    saved = thresha.secrets
    try:
        thresha.secrets = _Rng(th['seed'])
        shares = thresha.np_random_split(field, field.array(_obj(vals, (n,))), t, m)
    finally:
        thresha.secrets = saved
    shares = np.asarray(shares.value if hasattr(shares, 'value') else shares, dtype=object)
    if shares.shape != (m, n):
        return f'np_random_split shape {shares.shape}, expected {(m, n)}'
    if n:
        for S in list(itertools.combinations(range(m), t + 1))[:6]:
            pts_np = [(i + 1, np.array(shares[i], dtype=object)) for i in S]
            pts_l = [(i + 1, [int(x) for x in shares[i]]) for i in S]
            r_np = thresha.np_recombine(field, pts_np)
            r_l = thresha.recombine(field, pts_l)
            a = [int(x) % p for x in (r_np.value if hasattr(r_np, 'value') else r_np)]
            b = [int(x) % p for x in r_l]
            if a != vals or b != vals:
                return f'recombination of shares {S}: np {a}, list {b}, secrets {vals}'
            # all other parties' shares lie on the same polynomial of degree <= t
            for j in range(m):
                r_j = thresha.np_recombine(field, pts_np, x_rs=j + 1)
                if [int(x) % p for x in (r_j.value if hasattr(r_j, 'value') else r_j)] != [int(x) % p for x in shares[j]]:
                    return f'np_random_split: share of party {j} not on the degree-{t} polynomial through {S}'
    # PRSS: identical keys and input -> identical shares in both versions
    import random
    rr = random.Random(th['seed'] + 1)
    i = th['i'] % m
    prfs = {}
    for S in itertools.combinations(range(m), m - t):
        if i in S:
            prfs[S] = thresha.PRF(rr.randbytes(16), th['bound'])
    uci = bytes.fromhex(th['uci'])
    k = max(n, 1)
    a = thresha.np_pseudorandom_share(field, m, i, prfs, uci, k)
    b = thresha.pseudorandom_share(field, m, i, prfs, uci, k)
    if [int(x) % p for x in a.value.reshape(-1)] != [int(x) % p for x in b]:
        return f'np_pseudorandom_share != pseudorandom_share for m={m} t={t} i={i}'
    if t > 0:
        a = thresha.np_pseudorandom_share_0(field, m, i, prfs, uci, k)
        b = thresha.pseudorandom_share_zero(field, m, i, prfs, uci, k)
        if [int(x) % p for x in a.value.reshape(-1)] != [int(x) % p for x in b]:
            return f'np_pseudorandom_share_0 != pseudorandom_share_zero for m={m} t={t} i={i}'
    return None


def _labels(case, T):
    lb = [f'm={case["m"]}', f't={case["t"]}', 'prss' if case['prss'] else 'noprss',
          'ty:' + T.kind + ('' if T.kind != 'fld' else (':ext' if T.d > 1 else (':small' if T.p <= case['m'] else '')))]
    for r in case['ops']:
        lb.append('op:' + r['op'])
        lb.append('via:' + r.get('via', ''))
        if r.get('sc'):
            lb.append('scalar-diff')
        if any(_size(a['sh']) == 0 for a in r.get('a', [])):
            lb.append('zero-size')
    if 'th' in case:
        lb.append('thresha')
    return lb


def _nontrivial(case):
    if not (case['m'] >= 3 and case['t'] >= 1):
        return False
    return any(r['op'] in COMM_OPS and any(_size(a['sh']) >= 2 for a in r.get('a', [])) for r in case['ops'])


def known_class(T, m, t, rec, leaves=None, prss=True):
    """Id of the known finding whose class the record belongs to (None otherwise); leaves = reference leaves."""
    name, P = rec['op'], rec.get('P', {})
    shapes = [a['sh'] for a in rec.get('a', [])]
    if name == 'stack':
        nd = len(shapes[0])
        if P['axis'] < 0 and P['axis'] != -(nd + 1):
            return 'F37a'
    if name in ('prod', 'all', 'any'):
        sh = shapes[0]
        if math.prod(sh[i] for i in _axes_set(_tup(P.get('axis')), len(sh))) == 0 or \
                (isinstance(P.get('axis'), list) and math.prod(sh) == 0):
            return 'F37b'
    if name == 'rot90':
        sh, ax = shapes[0], P['axes']
        if P['k'] % 2 == 0 and sh[ax[0]] != sh[ax[1]]:
            return 'F37d'
    if name in ('argmin', 'argmax') and P.get('axis') is not None:
        sh = shapes[0]
        if sh[P['axis']] == 1 and math.prod(sh) > 1:
            return 'F37f'
    if name == 'div' and rec.get('form') == 'sq':
        return 'F37g'
    if name in ('getitem', 'update') and _in_f37r(shapes[0], P['key']):
        return 'F37r'
    if name == 'roll_sec' and T.kind == 'fxp':
        return 'F37o'
    if name == 'matmul' and rec.get('form') == 'ps' and len(rec['pub']['sh']) == 1 and len(shapes[0]) == 1 and \
            ((T.kind == 'fxp' and rec['pub']['t'] == 'farr') or (T.kind == 'fld' and T.d == 1 and t > 0 and T.p <= m)):
        return 'F37s'
    if T.kind == 'fxp' and T.f >= 24 and name in ('mul', 'matmul', 'outer', 'convolve', 'pow'):
        return 'F37q'
    if name in ('argmin_meth', 'argmax_meth') and P.get('axis') is not None:
        sh = shapes[0]
        if sh[P['axis']] == 1 and math.prod(sh) > 1:
            return 'F37f'
        return 'F37p'
    if name in ('argmin', 'argmax') and P.get('axis') is not None:
        sh = shapes[0]
        ax = P['axis'] % len(sh)
        if ax < len(sh) - 2 and sum(1 for i, d in enumerate(sh) if i != ax and d > 1) >= 2:
            return 'F37m'
    if name == 'lshift' and T.kind == 'fld' and T.d == 1 and t > 0 and T.p <= m and (1 << P['k']) >= T.p:
        return 'F37n'
    if name in ('amin', 'amax') and P.get('keepdims') and isinstance(P.get('axis'), int) and \
            P['axis'] % len(shapes[0]) == 0:
        return 'F37k'
    if name in ('lt', 'le', 'gt', 'ge', 'eq', 'ne') and rec.get('form') == 'qs':
        return 'F37h'
    if name in ('lt', 'le', 'gt', 'ge') and rec.get('form') == 'ps' and \
            (rec['pub']['t'] in ('iarr', 'farr') or rec.get('via') == 'np'):
        return 'F37l'
    if name == 'lsb' and not prss:
        return 'F37i'
    if name == 'io' and P.get('mode') == 'ctor' and P.get('dtype') == 'float' and math.prod(shapes[0]) == 0:
        return 'F37j'
    if any(sh == [] for sh in shapes) and not (name in ('neg', 'io') or (name in ('add', 'sub', 'mul') and rec.get('form') == 'ss')):
        return 'F37e'
    lifted = T.kind == 'fld' and T.d == 1 and t > 0 and T.p <= m
    if lifted:
        if leaves is None:
            try:
                leaves = _ref_eval(T, rec)[0]
            except Exception:
                leaves = []
        if any(sh is not None and (math.prod(sh) == 0 or len(sh) == 0) for sh, _ in leaves) or any(sh == [] for sh in shapes):
            return 'F37c'
    return None


def _in_f37r(shape, key):
    """Advanced indices on both sides of an Ellipsis that expands to NO axes (NumPy treats them as separated)."""
    if not isinstance(key, list) or '...' not in key:
        return False
    e = key.index('...')

    def adv(part):
        return any(isinstance(c, dict) and ('ia' in c or 'ba' in c) for c in part)

    def idx(part):
        return any((isinstance(c, int) and not isinstance(c, bool)) or (isinstance(c, dict) and ('ia' in c or 'ba' in c))
                   for c in part)
    left, right = key[:e], key[e + 1:]
    if not ((adv(left) and idx(right)) or (idx(left) and adv(right))):
        return False
    consumed = sum(1 for c in left + right if c is not None)
    return consumed >= len(shape)


def run_case(case):
    out = _run_case(case)
    try:
        T = TC(case['ty'])
        classes = {known_class(T, case['m'], case['t'], rec, prss=case['prss']) for rec in case['ops']}
    except Exception:
        classes = {None}
    if classes != {None}:
        out.labels.append('known-class')
        out.nontrivial = False
    if not out.ok and len(classes) == 1 and None not in classes:
        # every record of the case lies in ONE known-finding class (the generator emits such records only alone)
        out.known = next(iter(classes))
    return out


def _run_case(case):
    m, t = case['m'], case['t']
    try:
        T = TC(case['ty'])
    except Exception:
        return Outcome(True, 'invalid type', labels=['skipped'], nontrivial=False, skipped=True)
    labels = _labels(case, T)
    if not (2 * t < m or (m == 1 and t == 0)):
        return Outcome(True, 'invalid configuration', labels=['skipped'], nontrivial=False, skipped=True)
    if T.kind == 'fld' and T.d > 1 and t > 0 and T.q <= m:
        return Outcome(True, 'extension field not larger than m (unsupported)', labels=['skipped'], nontrivial=False,
                       skipped=True)
    if 'th' in case:
        try:
            msg = _check_thresha(case['th'])
        except Exception:
            return Outcome(False, f'exception on valid input (thresha): {traceback.format_exc()[-1500:]}', labels=labels)
        if msg:
            return Outcome(False, f'thresha: {msg}; th={case["th"]}', labels=labels)
    try:
        expected = [_ref_eval(T, rec) for rec in case['ops']]
    except Exception:
        return Outcome(True, f'reference raised (invalid record): {traceback.format_exc()[-800:]}',
                       labels=['skipped'], nontrivial=False, skipped=True)
    sim = simmod.Sim(m, t, prss=case['prss'], seed=case['seed'], schedule={'mode': 'fast'}, sec_param=30, numpy=True)
    sim.MAX_STEPS = 1_000_000
    try:
        res = sim.run_programs(_make_prog(case, T))
    except Exception:
        return Outcome(False, f'exception on valid input: {traceback.format_exc()[-2000:]}', labels=labels)
    finally:
        sim.close()
    opnames = [(r['op'], r.get('via')) for r in case['ops']]
    if res.inconclusive:
        return Outcome(True, 'step cap', labels=labels + ['inconclusive'], inconclusive=True, nontrivial=False)
    if not res.all_done:
        err = ('\n'.join(e[-1800:] for _, e in res.errors[:1])) if res.errors else ''
        return Outcome(False, f'run did not complete: {res.describe()}\n{err}\nops={opnames} ty={case["ty"]}', labels=labels)
    for i, rec in enumerate(case['ops']):
        exp_leaves, tol = expected[i]
        what0 = f'{rec["op"]}[via {rec.get("via")}] ty={case["ty"]} m={m} t={t}'
        for pid in range(m):
            got = res.values[pid][i]
            recv = got.get('recv')
            gl = got['leaves']
            if pid != 0 and recv is None:
                if gl != res.values[0][i]['leaves']:
                    return Outcome(False, f'{what0}: party {pid} and party 0 opened different results; rec={rec}', labels=labels)
                continue
            if len(gl) != len(exp_leaves):
                return Outcome(False, f'{what0}: {len(gl)} result leaves, reference has {len(exp_leaves)}; rec={rec}',
                               labels=labels)
            for j, (g, (es, ev)) in enumerate(zip(gl, exp_leaves)):
                if recv is not None and pid not in recv:
                    if 'none' not in g:
                        return Outcome(False, f'{what0}: non-receiver {pid} obtained a value; rec={rec}', labels=labels)
                    continue
                tl = tol if j == 0 else None
                if got.get('default'):
                    tl = None   # float conversion of small types is exact (l + f <= 52)
                msg = _cmp_leaf(T, f'{what0} leaf {j} party {pid}', g, es, ev, tl)
                if msg:
                    return Outcome(False, f'{msg}; rec={rec}', labels=labels)
            if 'sc' in got and pid == 0:
                es, ev = exp_leaves[0]
                flat = [x for (_, vals) in exp_leaves for x in vals]
                if len(got['sc']) != len(flat):
                    return Outcome(False, f'{what0}: scalar API gives {len(got["sc"])} values, reference {len(flat)}; rec={rec}',
                                   labels=labels)
                for k, g in enumerate(got['sc']):
                    tk = [tol[k]] if tol is not None else None
                    msg = _cmp_leaf(T, f'{what0} scalar-API element {k}', g, None, [flat[k]], tk, check_decl=False)
                    if msg:
                        return Outcome(False, f'{msg}; rec={rec}', labels=labels)
    return Outcome(True, labels=labels, nontrivial=_nontrivial(case))
