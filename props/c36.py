"""C36: a crashed or disconnected party never makes the others output wrong values.

For a generated program, configuration and schedule a fault-free reference run is made first.
Then, for the chosen party p, EVERY frame boundary k (p stops while writing its (k+1)-th
frame; also inside each opening handshake it sends) is combined with byte cuts {0, 1, 11, 12, 13, mid, len-1} inside that frame and with
both failure modes (peers see EOF / peers see silence).  All runs use the same randomness and
schedule, so each is the reference run up to the crash.  Every output that a surviving party
completes (reported by a done-callback on the output future) must equal the Python-int
reference value; anything else is merely incomplete (quiescence ends the run).
"""
from hypothesis import strategies as st
from vlib import progs
from vlib.runner import Outcome

ID = 'C36'
LEVEL = 'fault_enumeration'
RULE = ('generated (m=2..5,t,PRSS,l) x small integer programs (every value opened eagerly) x schedules x crashing '
        'party p; enumerated completely per case: every frame boundary of p x byte cuts {0,1,11,12,13,mid,len-1} '
        'x {EOF, silence}; oracle = every output completed by a surviving party equals the reference; '
        'evaluations = crash runs; non-trivial = crash runs that leave a partial frame (0 < cut < frame length) on '
        'a connection; exhaustive per case over the crash points of p (at most 90 frame boundaries, beyond that an '
        'evenly spaced subset and the case is not counted as exhaustive), sampled over programs/schedules')
ASSUMPTIONS = ['one crashing party per run; a crash = stop for good (no further callbacks, writes discarded, inbound '
               'data discarded), peers get an orderly EOF after the bytes already written, or nothing',
               'same seeds and schedule make each faulty run identical to the reference run up to the crash']

CASE_TIMEOUT = 1800
MAX_BOUNDARIES = 90
STEP_BUDGET = 3_000_000   # scheduler steps + writes spent on the crash runs of one case (about 20-40 s)
CUTS = (0, 1, 11, 12, 13, 'mid', 'last')


TIMEOUT_INCONCLUSIVE = True  # hangs are decided by quiescence in the simulator, not by the wall clock


def budget(tier):
    return dict(shards=16, examples=2 if tier == 'quick' else 10, no_shrink=True)


@st.composite
def _case(draw, tier):
    m, t, prss = draw(progs.config(min_m=2, max_m=4 if tier == 'quick' else 5))
    l = draw(st.sampled_from([4, 8]))
    nodes = draw(progs.int_program(m, l, max_nodes=3 if tier == 'quick' else 6, min_nodes=1, heavy=False))
    sched = draw(progs.schedule(m))
    return dict(m=m, t=t, prss=prss, l=l, seed=draw(st.integers(0, 2**20)), nodes=nodes, sched=sched,
                party=draw(st.integers(0, m - 1)), receivers=draw(st.sampled_from([None, None, [0], [m - 1]])))


def strategy(tier):
    return _case(tier)


def _flat(ref, path, out):
    if isinstance(ref, list):
        for k, x in enumerate(ref):
            _flat(x, path + [k], out)
    elif ref is not None:
        out[tuple(path)] = ref


def _run(case, plan, max_steps=None):
    outs = []

    def on_output(pid, path, value):
        outs.append((pid, tuple(path), value))

    def hook(sim):
        sim.crash_plan = plan
        if max_steps is not None:
            # after a crash survivors may poll for ever (shutdown/barrier wait loops with sleep(0)): such a run has
            # nothing more to tell once it has used many times the steps of the complete fault-free run
            sim.MAX_STEPS = max_steps

    sim, res, ref = progs.run_int_case(case, receivers=case.get('receivers'), sim_hook=hook,
                                       out_mode='eager', on_output=on_output)
    return sim, res, ref, outs


def _wrong(outs, want, crashed, receivers):
    for pid, path, value in outs:
        if pid == crashed:
            continue
        if value is None and receivers is not None and pid not in receivers:
            continue  # non-receivers get None
        w = want.get(path)
        if w is None:
            continue
        if isinstance(w, bool):
            if bool(value) != w:
                return pid, path, value, w
        elif value != w:
            return pid, path, value, w
    return None


def run_case(case):
    nodes = case['nodes']
    if not progs.is_valid(nodes, case['l']) or any(nd[0] == 'multi' and nd[1] == 'gcdext' for nd in nodes):
        return Outcome(True, skipped=True, nontrivial=False, labels=['invalid-program'])
    m, p = case['m'], case['party']
    labels = [f'm={m}', f"t={case['t']}", 'sched=' + case['sched']['mode']]
    sim0, res0, ref, outs0 = _run(case, None)
    if res0.inconclusive:
        return Outcome(True, inconclusive=True, labels=labels, nontrivial=False)
    if not res0.all_done:
        return Outcome(False, f'fault-free run did not complete: {res0.describe()}\ncase={case}', labels=labels)
    want = {}
    for idx, r in enumerate(ref):
        _flat(r, [idx], want)
    bad = _wrong(outs0, want, None, case.get('receivers'))
    if bad:
        return Outcome(False, f'fault-free run: party {bad[0]} output {bad[2]!r} at {bad[1]}, reference {bad[3]!r}'
                       f'\ncase={case}', labels=labels)
    nframes = sim0.frames_written[p]
    # frame lengths of p in write order are not needed up front: the plan reports the length it cut
    runs = nt = completed_after = 0
    # bound the cost of one case: beyond MAX_BOUNDARIES frame boundaries an evenly spaced subset (with both
    # ends) is enumerated and the cell is not reported as exhaustive
    ks = list(range(nframes))
    complete = True
    # deterministic cost proxy (not the clock): scheduler steps + writes of the reference run, per crash run
    unit = max(1, sim0.steps + sim0.write_events)
    cap = max(20_000, 30 * sim0.steps)
    maxb = max(8, min(MAX_BOUNDARIES, STEP_BUDGET // (unit * 14)))
    if nframes > maxb:
        step = nframes / maxb
        ks = sorted({int(i * step) for i in range(maxb)} | {0, nframes - 1})
        complete = False
        labels.append('boundaries-subsampled')
    for k in ks:
        length = None
        for cut in CUTS:
            for eof in (True, False):
                if cut == 'mid':
                    c = (length or 24) // 2
                elif cut == 'last':
                    c = (length or 13) - 1
                else:
                    c = cut
                if length is not None and isinstance(cut, int) and cut >= length:
                    continue
                plan = dict(party=p, after_frames=k, cut=c, eof=eof)
                sim, res, _, outs = _run(case, plan, cap)
                runs += 1
                if not plan.get('done'):
                    raise RuntimeError(f'crash plan {plan} never triggered: run is not a pure function of the case')
                length = plan['frame_len']
                if 0 < plan['cut_applied'] < length:
                    nt += 1
                bad = _wrong(outs, want, p, case.get('receivers'))
                if bad:
                    return Outcome(False, f'party {p} crashed while writing frame #{k} (cut after {plan["cut_applied"]} of '
                                   f'{length} bytes, to party {plan["dst"]}, eof={eof}): surviving party {bad[0]} '
                                   f'completed output {bad[1]} with value {bad[2]!r}, reference {bad[3]!r}\ncase={case}',
                                   labels=labels, n=runs, n_nt=nt)
                completed_after += sum(1 for o in outs if o[0] != p)
    # crash inside the opening handshake (p is client towards every higher-numbered party)
    from vlib.sim import handshake_len
    for j in range(p + 1, m):
        L = handshake_len(m, case['t'], case['prss'], p, j)
        for c in sorted({0, 1, 2, L - 2, L - 1, L // 2}):
            if not 0 <= c < L:
                continue
            for eof in (True, False):
                plan = dict(party=p, hs_peer=j, cut=c, eof=eof)
                sim, res, _, outs = _run(case, plan, cap)
                runs += 1
                if not plan.get('done'):
                    raise RuntimeError(f'handshake crash plan {plan} never triggered')
                if 0 < plan['cut_applied'] < plan['frame_len']:
                    nt += 1
                bad = _wrong(outs, want, p, case.get('receivers'))
                if bad:
                    return Outcome(False, f'party {p} crashed inside its handshake to party {j} (after {plan["cut_applied"]} of '
                                   f'{plan["frame_len"]} bytes, eof={eof}): surviving party {bad[0]} completed output {bad[1]} '
                                   f'with value {bad[2]!r}, reference {bad[3]!r}\ncase={case}', labels=labels, n=runs, n_nt=nt)
    labels.append(f'frames={min(nframes, 200) // 20 * 20}+')
    labels.append('survivor-outputs' if completed_after else 'no-survivor-outputs')
    return Outcome(True, labels=labels, n=max(runs, 1), n_nt=nt, exhaustive=complete)
