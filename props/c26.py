"""C26: generated field primes meet their size, Blum and root-of-unity constraints.

Two parts.

(a) `finfields.find_prime_root(l, blum, n)` -> (p, n', w).  Oracle (validity predicate, from the property
    statement and the function's docstring "prime of bit length at least l ...  a primitive root w is
    returned of prime order at least n (0 < w < p)"):
      p prime (independent deterministic Miller-Rabin), bit_length(p) >= l and == l when n <= 2 (l >= 2),
      p = 3 mod 4 when blum, n' >= n and n' in {1} or prime, 0 < w < p, w == 1 when n' == 1 and otherwise
      w != 1 and w^n' == 1 mod p (n' prime: the order is exactly n').
(b) `SecInt(l, p, n)` / `SecFxp(l, f, p, n)` created through the runtimes of the in-process simulator for
    (m, t, sec_param k): the type's field is GF(p) with p prime, p > 2^(l+f+k+1), p > m, the field's
    (nth, root) pair is consistent, a user-supplied prime is accepted iff it is large enough (ValueError
    otherwise; a composite is never accepted).  A refusal by the field-size assertion is accepted only if
    the prime the field would have had is really <= m.
"""
import random
import traceback
from hypothesis import strategies as st
from vlib.boot import boot
from vlib.runner import Outcome
from vlib import refmath as R

ID = 'C26'
LEVEL = 'exploration'
RULE = ('(a) find_prime_root(l, blum, n): every l in 0..256 (quick; thorough 0..768, sparsely to 2048) x blum x n in {1,2} and '
        'x n in {3,5,7,11,13,257} enumerated, plus generated l up to 1024 and n up to 2^64 (primes and '
        'composites); (b) SecInt/SecFxp(l, f, [p], [n]) via simulator runtimes for generated (l<=256, f<=l, '
        'k in 1..128, m<=9, t) and an enumerated grid of tiny (l,f,k) x m around the field prime x t; '
        'validity predicate: independent primality, bit length, p%4, order of w, p > 2^(l+f+k+1), p > m; '
        'non-trivial = a prime/type was returned and checked (not a refusal); distinct by case hash / '
        'enumerated tuple')
ASSUMPTIONS = ['independent primality oracle: vlib/refmath.is_prime (deterministic Miller-Rabin below 3.3e24, '
               '92 fixed bases above)',
               'stub Miller-Rabin in mpyc.gmpy draws bases from the global random module, reseeded per case; '
               'it errs with probability <= 4^-25 per composite',
               'n > 2 requires blum=True and l <= 2 with blum=False requires n = 1 (asserted preconditions)',
               'a type refused by the assertion "m < field order" (threshold > 0) is not a type with a too '
               'small field; python -O is not considered']
CASE_TIMEOUT = 900  # generous: the machine may be heavily shared; typical cases take milliseconds

boot(numpy=False)
from mpyc import finfields  # noqa: E402

NS = [3, 5, 7, 11, 13, 257]


def budget(tier):
    return dict(shards=16, examples=120 if tier == 'quick' else 2500)


# ------------------------------------------------------------------------------ oracles
def _blum_below(bits):
    """Largest prime = 3 mod 4 below 2^bits (only used to aim m at interesting values; not an oracle)."""
    q = (1 << bits) - 1
    while q > 2 and not (q % 4 == 3 and R.is_prime(q)):
        q -= 1
    return q


def check_pnw(l, blum, n, res):
    """Validity predicate for a result of find_prime_root(l, blum, n); returns '' or a complaint."""
    if not (isinstance(res, tuple) and len(res) == 3 and all(type(x) is int for x in res)):
        return f'result {res!r} is not a triple of ints'
    p, n2, w = res
    if not R.is_prime(p):
        return f'p={p} is not prime'
    if p.bit_length() < l:
        return f'p={p} has bit length {p.bit_length()} < l={l}'
    if n <= 2 and l >= 2 and p.bit_length() != l:
        return f'p={p} has bit length {p.bit_length()} != l={l} although n={n} <= 2'
    if blum and p % 4 != 3:
        return f'p={p} is not a Blum prime (p%4={p % 4})'
    if n2 < n:
        return f'returned order n={n2} is smaller than the requested n={n}'
    if n2 != 1 and not R.is_prime(n2):
        return f'returned order n={n2} is neither 1 nor prime'
    if not 0 < w < p:
        return f'root w={w} not in (0, p)'
    if n2 == 1:
        if w != 1:
            return f'n=1 but w={w} != 1'
    elif w == 1 or pow(w, n2, p) != 1:
        return f'w={w} does not have order n={n2} modulo p={p}'
    return ''


class _Seeded:
    """Reseed the global random module (stub Miller-Rabin bases) from the case; restore afterwards."""

    def __init__(self, seed):
        self.seed = seed

    def __enter__(self):
        self.state = random.getstate()
        random.seed(self.seed)

    def __exit__(self, *a):
        random.setstate(self.state)


def _fpr_eval(l, blum, n, seed):
    """Returns (complaint, returned?) for one call."""
    with _Seeded(f'{seed}/{l}/{blum}/{n}'):
        try:
            res = finfields.find_prime_root(l, blum, n)
        except Exception:
            return f'find_prime_root({l}, {blum}, {n}) raised on valid input:\n{traceback.format_exc()[-1500:]}'
    msg = check_pnw(l, blum, n, res)
    return f'find_prime_root({l}, {blum}, {n}) = {res}: {msg}' if msg else ''


def in_F26b(case):
    """l <= 2, blum, n >= 3: the small-l branch ignores n and returns the order-2 root of GF(3)."""
    return case['kind'] == 'fpr' and case['l'] <= 2 and case['blum'] and case['n'] >= 3


def _run_fpr(case):
    l, blum, n = case['l'], case['blum'], case['n']
    labels = ['fpr', 'n<=2' if n <= 2 else ('n-prime' if R.is_prime(n) else 'n-composite'),
              'blum' if blum else 'any', 'l:' + ('<=2' if l <= 2 else '<=64' if l <= 64 else '<=256' if l <= 256
                                                else '<=512' if l <= 512 else '>512')]
    msg = _fpr_eval(l, blum, n, case['seed'])
    if msg:
        return Outcome(False, msg, labels=labels, known='F26b' if in_F26b(case) else None)
    return Outcome(True, labels=labels)


def _run_fprcell(case):
    """All (blum, n) combinations of the statement's quantifier for one l."""
    l = case['l']
    combos = [(b, n) for b in (True, False) for n in (1, 2)]
    if l >= 3:
        combos += [(True, n) for n in NS]
    if l <= 2:
        combos.remove((False, 2))  # asserted precondition: p = 2 has only the trivial root
    for blum, n in combos:
        msg = _fpr_eval(l, blum, n, case['seed'])
        if msg:
            return Outcome(False, msg, labels=['fprcell'])
    return Outcome(True, labels=['fprcell'], n=len(combos), n_nt=len(combos), exhaustive=True)


def _user_prime(case, bits_needed):
    """User-supplied modulus derived from the case: a prime (or composite) of a chosen bit length."""
    b = max(2, bits_needed + case['pdelta'])
    lo = 1 << (b - 1)
    x = lo + case['pr'] % lo
    q = R.next_prime(x)
    if q.bit_length() != b:
        q = R.next_prime(lo)
    if case['pcomposite']:
        q = q * R.next_prime(case['pr'] % 1000 + 2)  # composite with >= b bits
    return q


def in_F26a(case, p):
    """threshold 0 and m >= p: the field-size assertion is skipped, type gets a field with p <= m."""
    return case['t'] == 0 and case['m'] >= p


def _run_type(case):
    from vlib import sim
    st_, l, f, k, m, t, n = case['st'], case['l'], case['f'], case['k'], case['m'], case['t'], case['n']
    if st_ == 'int':
        f = 0
    need = l + f + k + 2  # bit length p must have
    userp = _user_prime(case, need) if case['puser'] else None
    labels = [f'Sec{st_}', f'm={m if m <= 9 else ">9"}', f't={"0" if t == 0 else ">0"}',
              'p-user' if case['puser'] else ('n=2' if n == 2 else 'n!=2'),
              'k:' + ('<8' if k < 8 else '8..40' if k <= 40 else '>40')]
    s = sim.Sim(m, t, prss=False, sec_param=k, seed=case['seed'])
    try:
        s.current = 0
        rt = s.runtimes[0]
        random.seed(f"c26/{case['seed']}")  # Sim.close() restores the global random state
        args = {}
        if userp is not None:
            args['p'] = userp
        if n != 2:
            args['n'] = n
        try:
            if st_ == 'int':
                T = rt.SecInt(l, **args)
            else:
                T = rt.SecFxp(l, f, **args)
            exc = None
        except (ValueError, AssertionError) as e:
            T, exc = None, e
        except Exception:
            return Outcome(False, f'type creation raised on valid input: {case}\n{traceback.format_exc()[-1500:]}',
                           labels=labels)
        if userp is not None:
            big_enough = userp.bit_length() >= need
            prime = not case['pcomposite']
            if T is None:
                if isinstance(exc, ValueError):
                    if big_enough and prime:
                        return Outcome(False, f'valid user prime {userp} ({userp.bit_length()} bits, need {need}) '
                                       f'refused: {exc!r}; {case}', labels=labels)
                    return Outcome(True, labels=labels + ['refused-user-p'], nontrivial=False)
                # AssertionError: legitimate only if m >= userp and t > 0
                if t > 0 and m >= userp:
                    return Outcome(True, labels=labels + ['refused-m>=p'], nontrivial=False)
                return Outcome(False, f'AssertionError for user prime {userp}, m={m}, t={t}: {case}', labels=labels)
            if not (big_enough and prime):
                return Outcome(False, f'user modulus {userp} ({userp.bit_length()} bits, need {need}, '
                               f'prime={prime}) was accepted: {case}', labels=labels)
        elif T is None:
            if isinstance(exc, ValueError):
                return Outcome(False, f'ValueError without user prime: {exc!r}; {case}', labels=labels)
            # field-size assertion: legitimate only if the prime that is generated is really <= m (and t > 0)
            try:
                p0 = finfields.find_prime_root(need, n=n)
            except Exception:
                return Outcome(False, f'find_prime_root({need}, n={n}) raised: {traceback.format_exc()[-800:]}',
                               labels=labels)
            msg = check_pnw(need, True, n, p0)
            if msg:
                return Outcome(False, f'find_prime_root({need}, n={n}) = {p0}: {msg}', labels=labels)
            if t > 0 and m >= p0[0]:
                return Outcome(True, labels=labels + ['refused-m>=p'], nontrivial=False)
            return Outcome(False, f'type refused (AssertionError) although p={p0[0]} > m={m} or t=0: {case}',
                           labels=labels)
        # a type was returned
        fld = T.field
        p = fld.modulus
        if type(p) is not int or fld.order != p or fld.characteristic != p:
            return Outcome(False, f'field modulus/order inconsistent: {p!r}, {fld.order!r}', labels=labels)
        if userp is not None and p != userp:
            return Outcome(False, f'user prime {userp} given but field has modulus {p}', labels=labels)
        if not R.is_prime(p):
            return Outcome(False, f'field modulus {p} is not prime: {case}', labels=labels)
        if not p > 1 << (l + f + k + 1):
            return Outcome(False, f'field modulus {p} ({p.bit_length()} bits) is not > 2^(l+f+k+1) = '
                           f'2^{l + f + k + 1}: {case}', labels=labels)
        if T.bit_length != l or (st_ == 'fxp' and T.frac_length != f):
            return Outcome(False, f'type attributes wrong: bit_length={T.bit_length}: {case}', labels=labels)
        nth, w = fld.nth, fld.root
        if userp is None:
            msg = check_pnw(need, True, n, (p, nth, w))
            if msg:
                return Outcome(False, f'field (p, nth, root) = ({p}, {nth}, {w}): {msg}; {case}', labels=labels)
        elif not (nth == 2 and w == p - 1):
            return Outcome(False, f'user prime field has (nth, root) = ({nth}, {w}), expected (2, p-1)',
                           labels=labels)
        if not p > m:
            return Outcome(False, f'field modulus {p} is not larger than the number of parties m={m} (t={t}): '
                           f'{case}', labels=labels + ['m>=p'], known='F26a' if in_F26a(case, p) else None)
        return Outcome(True, labels=labels)
    finally:
        s.close()


def run_case(case):
    kind = case['kind']
    if kind == 'fpr':
        return _run_fpr(case)
    if kind == 'fprcell':
        return _run_fprcell(case)
    return _run_type(case)


# ------------------------------------------------------------------------------ cases
def _type_case(st_, l, f, k, m, t, n=2, seed=0, puser=False, pdelta=0, pr=0, pcomposite=False):
    return dict(kind='type', st=st_, l=l, f=f, k=k, m=m, t=t, n=n, seed=seed, puser=puser, pdelta=pdelta,
                pr=pr, pcomposite=pcomposite)


def enumerate_cases(tier):
    top = 256 if tier == 'quick' else 768
    for l in range(0, top + 1):
        yield dict(kind='fprcell', l=l, seed=1)
    extra = range(264, 513, 8) if tier == 'quick' else range(800, 1025, 32)
    for l in extra:
        yield dict(kind='fprcell', l=l, seed=1)
    if tier == 'thorough':  # single calls (a whole cell at these sizes costs minutes of pure-Python Miller-Rabin)
        for l, n in ((1536, 2), (1536, 257), (2048, 2)):
            yield dict(kind='fpr', l=l, blum=True, n=n, seed=1)
    # tiny (l, f, k): number of parties around the field prime, all thresholds of interest
    maxbits = 6 if tier == 'quick' else 8
    for st_ in ('int', 'fxp'):
        for l in range(1, 5):
            for f in (range(0, 1) if st_ == 'int' else range(0, l + 1)):
                for k in range(1, 5):
                    bits = l + f + k + 2
                    if bits > maxbits:
                        continue
                    q = _blum_below(bits)
                    for m in sorted({1, 2, 3, 5, q - 1, q, q + 1, (1 << bits) - 1, 1 << bits}):
                        for t in sorted({0, 1, (m - 1) // 2}):
                            if 2 * t < m or (m == 1 and t == 0):
                                if t == 0 and m >= q:
                                    continue  # class of F26a (witnesses are replayed separately)
                                yield _type_case(st_, l, f, k, m, t)


@st.composite
def _fpr_case(draw):
    l = draw(st.one_of(st.integers(3, 64), st.integers(3, 256), st.integers(3, 520),
                       st.sampled_from([3, 4, 5, 8, 16, 31, 32, 33, 63, 64, 65, 127, 128, 129, 255, 256, 257, 511, 512,
                                        513, 1024])))
    kind = draw(st.sampled_from(['small', 'small', 'le2', 'mid', 'big', 'near-l']))
    blum = True
    if kind == 'le2':
        n = draw(st.integers(1, 2))
        blum = draw(st.booleans())
        l = draw(st.one_of(st.just(l), st.integers(0, 4)))
        if l <= 2 and not blum:
            n = 1
    elif kind == 'small':
        n = draw(st.integers(3, 300))
    elif kind == 'mid':
        n = draw(st.integers(3, 1 << 20))
    elif kind == 'big':
        n = draw(st.integers(3, 1 << 64))
    else:  # n around 2^(l-3): the quotient (1 << l-3) // n is 0, 1 or small
        n = max(3, (1 << max(0, l - 3)) // draw(st.integers(1, 5)) + draw(st.integers(-2, 2)))
        if n.bit_length() > 200:
            n = draw(st.integers(3, 1 << 64))
    return dict(kind='fpr', l=l, blum=blum, n=n, seed=draw(st.integers(0, 2**20)))


@st.composite
def _gen_type_case(draw, tier):
    st_ = draw(st.sampled_from(['int', 'fxp']))
    l = draw(st.one_of(st.integers(1, 16), st.integers(1, 64), st.integers(1, 256),
                       st.sampled_from([1, 2, 8, 16, 32, 64, 128, 256])))
    f = 0 if st_ == 'int' else draw(st.one_of(st.integers(0, l), st.sampled_from([0, l // 2, l])))
    k = draw(st.one_of(st.integers(1, 8), st.sampled_from([1, 8, 30, 30, 40, 64, 128]), st.integers(1, 128)))
    m = draw(st.sampled_from([3, 5, 4, 7, 1, 2, 6, 8, 9]))
    t = draw(st.sampled_from([(m - 1) // 2, 0, (m - 1) // 2, 1 if m >= 3 else 0]))
    n = draw(st.sampled_from([2, 2, 2, 1, 3, 5, 7, 11, 13, 257, 4, 6, 100]))
    puser = draw(st.integers(0, 3)) == 0
    pdelta = draw(st.sampled_from([0, 1, -1, 0, 2, -1, 0, -2, 5])) if puser else 0
    pr = draw(st.integers(0, 1 << 64)) if puser else 0
    pcomposite = draw(st.integers(0, 5)) == 0 if puser else False
    return _type_case(st_, l, f, k, m, t, n=n, seed=draw(st.integers(0, 2**20)), puser=puser, pdelta=pdelta,
                      pr=pr, pcomposite=pcomposite)


def strategy(tier):
    return st.one_of(_fpr_case(), _gen_type_case(tier), _gen_type_case(tier))
