"""C19: parties outside the receivers learn nothing from an output.

Differential runs under identical randomness and schedule:
  run A:  prefix (inputs, one product)                      + shutdown
  run B:  prefix + `output(x, receivers R, threshold)` or `transfer(obj, graph)` + shutdown
For every party j that is not a receiver, the multiset of (source, payload) of all frames j
receives must be identical in A and B: the operation sent j nothing.  (Labels are ignored:
the extra operation shifts the program counter of the shutdown handshake.)  For a transfer
graph every party receives extra frames only from its designated senders, one each.
Secure floats output to a proper subset (t >= 1): the extra frames a non-receiver gets must
each be a share row dealt to it by a fresh random_split call of degree t >= 1 with t fresh
coefficients per secret (they are "only fresh random shares").
Receivers must obtain the value (so the operation really happened).
"""
import collections
from hypothesis import strategies as st
from vlib import progs
from vlib import sim as simmod
from vlib.observe import Observer
from vlib.runner import Outcome

ID = 'C19'
LEVEL = 'exploration'
RULE = ('generated (m>=3,t,PRSS) x secure type (SecInt, SecFxp, prime/binary SecFld, SecFlt, secure symmetric-group '
        'and quadratic-residue elements) x sender x proper receiver subset x output threshold (None, t..2t), or '
        'transfer along generated sender/receiver sets and arc graphs; differential oracle A (prefix) vs B (prefix + '
        'operation) on the multiset of frames each non-receiver gets; floats: extra frames are fresh degree-t share '
        'rows; non-trivial = at least one non-receiver exists and receivers obtained the value; distinct by case hash')
ASSUMPTIONS = ['secure group types are chosen with an underlying field larger than m (Sym(8), QR with 10-bit modulus)',
               'both runs use identical per-party randomness and the same schedule; frames compared without labels',
               'with t = 0 a float output to a subset is not private (no secrecy at threshold 0): floats use t >= 1']


TIMEOUT_INCONCLUSIVE = True  # hangs are decided by quiescence in the simulator, not by the wall clock


def budget(tier):
    return dict(shards=16, examples=50 if tier == 'quick' else 400)


TYPES = [['int', 8], ['int', 16], ['fxp', 16, 8], ['fld', 101], ['fld', 2**61 - 1], ['fld2', 8],
         ['flt', 16], ['flt', 32], ['sym', 8], ['qr', 10]]


@st.composite
def _case(draw, tier):
    typ = draw(st.sampled_from(TYPES + [['transfer']] * 3))
    m, t, prss = draw(progs.config(min_m=3, max_m=5 if tier == 'quick' else 7, need_t=typ[0] == 'flt'))
    case = dict(m=m, t=t, prss=prss, seed=draw(st.integers(0, 2**20)), typ=typ,
                sched=draw(progs.schedule(m, rich=draw(st.booleans()))))
    if typ[0] == 'transfer':
        if draw(st.booleans()):
            case['graph'] = {'senders': draw(st.lists(st.integers(0, m - 1), min_size=1, max_size=m, unique=True)),
                             'receivers': draw(st.lists(st.integers(0, m - 1), min_size=0, max_size=m - 1, unique=True))}
        else:
            case['graph'] = {'pairs': draw(st.lists(st.tuples(st.integers(0, m - 1), st.integers(0, m - 1)).map(list),
                                                    max_size=m, unique_by=tuple))}
        case['obj'] = draw(st.integers(0, 2**64))
        return case
    case['sender'] = draw(st.integers(0, m - 1))
    case['receivers'] = draw(st.lists(st.integers(0, m - 1), min_size=0, max_size=m - 1, unique=True))  # [] = nobody
    case['recv_int'] = len(case['receivers']) == 1 and draw(st.booleans())
    case['threshold'] = draw(st.sampled_from([None, None, t, 2 * t]))
    k = typ[0]
    if k == 'int':
        case['value'] = draw(st.integers(-2**(typ[1] - 1), 2**(typ[1] - 1) - 1))
    elif k == 'fxp':
        case['value'] = draw(st.integers(-2**(typ[1] - 1), 2**(typ[1] - 1) - 1))
    elif k == 'fld':
        case['value'] = draw(st.integers(0, typ[1] - 1))
    elif k == 'fld2':
        case['value'] = draw(st.integers(0, 2**typ[1] - 1))
    elif k == 'flt':
        case['value'] = draw(st.sampled_from([0.0, 1.0, -2.5, 0.15625, 1024.0, -3.0e-3, 7.75]))
    elif k == 'sym':
        case['value'] = draw(st.permutations(list(range(typ[1]))))
    else:
        case['value'] = draw(st.integers(1, 50))  # exponent of the generator
    return case


def strategy(tier):
    return _case(tier)


def _make(mpc, typ, value, mine):
    """Secure object for the sender's value (None-valued placeholder at the other parties)."""
    k = typ[0]
    if k == 'int':
        st_ = mpc.SecInt(typ[1])
        return st_(value if mine else None), value
    if k == 'fxp':
        st_ = mpc.SecFxp(typ[1], typ[2])
        # the integral flag is public: it must be the same at all parties (the sender alone could infer it)
        return st_(value / 2**typ[2] if mine else None, integral=False), value / 2**typ[2]
    if k == 'fld':
        st_ = mpc.SecFld(typ[1])
        return st_(value if mine else None), value
    if k == 'fld2':
        st_ = mpc.SecFld(2**typ[1])
        return st_(value if mine else None), value
    if k == 'flt':
        st_ = mpc.SecFlt(typ[1])
        return st_(value if mine else None), value
    if k == 'sym':
        sg = mpc.SecSymmetricGroup(typ[1])
        g = sg.group(tuple(value))
        return (sg(g) if mine else sg()), tuple(value)
    sg = mpc.SecQuadraticResidues(l=typ[1])
    g = sg.group.generator ** value
    return (sg(g) if mine else sg()), int(g)


def make_prog(case, with_op):
    typ = case['typ']

    async def prog(mpc, pid):
        if typ[0] == 'transfer':
            secint = mpc.SecInt(16)
            a = mpc.input(secint(pid + 1), senders=0)
            await mpc.output(a * a)
            if not with_op:
                return None
            gr = case['graph']
            if 'pairs' in gr:
                return await mpc.transfer([case['obj'], pid], sender_receivers=[tuple(x) for x in gr['pairs']])
            return await mpc.transfer([case['obj'], pid], senders=gr['senders'], receivers=gr['receivers'])
        x, plain = _make(mpc, typ, case['value'], pid == case['sender'])
        x = mpc.input(x, senders=case['sender'])
        if typ[0] in ('int', 'fld', 'fld2', 'fxp'):
            y = x * x          # a reshared value in the prefix
            await mpc.gather(y)
        if typ[0] == 'flt':
            await mpc.gather(x.share[0]), await mpc.gather(x.share[1])
        elif typ[0] in ('sym', 'qr'):
            await mpc.gather(list(x.share) if isinstance(x.share, tuple) else x.share)
        else:
            await mpc.gather(x)
        if not with_op:
            return None
        kw = {'receivers': case['receivers'][0] if case['recv_int'] else case['receivers']}
        if case['threshold'] is not None and typ[0] != 'flt':
            kw['threshold'] = case['threshold']
        r = await mpc.output(x, **kw)
        if r is None:
            return None
        if typ[0] in ('sym',):
            return ['val', tuple(r.value) == plain]
        if typ[0] == 'qr':
            return ['val', int(r) == plain]
        if typ[0] == 'flt':
            return ['val', abs(r - plain) <= abs(plain) * 2.0 ** -(8 if typ[1] == 16 else 20)]
        if typ[0] == 'fxp':
            return ['val', r == plain]
        return ['val', int(r) == plain]

    return prog


def _received(sim, m):
    got = {j: collections.Counter() for j in range(m)}
    for i in range(m):
        for j in range(m):
            if i != j:
                _, frames, tail = sim.frames(i, j)
                for f in frames:
                    got[j][(i, bytes(f.payload))] += 1
    return got


def _run(case, with_op, observe):
    sim = simmod.Sim(case['m'], case['t'], prss=case['prss'], seed=case['seed'], schedule=case['sched'])
    obs = None
    try:
        if observe:
            sim.randbelow_args = []
            obs = Observer(sim, receives=False, tasks=False, keep_shares=True)
        res = sim.run_programs(make_prog(case, with_op))
    finally:
        if obs is not None:
            obs.close()
        sim.close()
    return sim, res, obs


def run_case(case):
    m, t, typ = case['m'], case['t'], case['typ']
    labels = [f'm={m}', f't={t}', 'type=' + typ[0]]
    simA, resA, _ = _run(case, False, False)
    simB, resB, obs = _run(case, True, typ[0] == 'flt')
    if resA.inconclusive or resB.inconclusive:
        return Outcome(True, inconclusive=True, labels=labels, nontrivial=False)
    for nm, res in (('prefix', resA), ('prefix+operation', resB)):
        if not res.all_done:
            return Outcome(False, f'{nm} run did not complete: {res.describe()}\ncase={case}', labels=labels)
    A, B = _received(simA, m), _received(simB, m)
    if typ[0] == 'transfer':
        gr = case['graph']
        arcs = [tuple(x) for x in gr['pairs']] if 'pairs' in gr else \
            [(a, b) for a in gr['senders'] for b in gr['receivers']]
        for j in range(m):
            extra = B[j] - A[j]
            missing = A[j] - B[j]
            want = collections.Counter(a for a, b in arcs if b == j and a != j)
            have = collections.Counter(i for (i, _), c in extra.items() for _ in range(c))
            if missing or have != want:
                return Outcome(False, f'transfer {gr}: party {j} received extra frames from parties {dict(have)}, '
                               f'designated senders {dict(want)}; frames missing vs prefix run: {len(missing)}'
                               f'\ncase={case}', labels=labels)
        nonrecv = [j for j in range(m) if not any(b == j for a, b in arcs)]
        labels.append('nonreceivers' if nonrecv else 'all-receive')
        return Outcome(True, labels=labels, nontrivial=bool(nonrecv) and bool(arcs))
    R = set(case['receivers'])
    for j in R:
        if resB.values[j] != ['val', True]:
            return Outcome(False, f'receiver {j} did not obtain the value: {resB.values[j]!r}\ncase={case}', labels=labels)
    for j in range(m):
        if j in R:
            continue
        if resB.values[j] is not None:
            return Outcome(False, f'non-receiver {j} obtained {resB.values[j]!r} from output\ncase={case}', labels=labels)
        extra = B[j] - A[j]
        missing = A[j] - B[j]
        if missing:
            return Outcome(False, f'non-receiver {j}: frames of the prefix run are missing in the run with the output '
                           f'(runs not comparable)\ncase={case}', labels=labels)
        if not extra:
            continue
        if typ[0] != 'flt':
            src = sorted({i for (i, _) in extra})
            return Outcome(False, f'non-receiver {j} received {sum(extra.values())} extra frame(s) from parties {src} '
                           f'because of output(..., receivers={sorted(R)})\ncase={case}', labels=labels)
        # secure float: every extra frame must be a fresh degree-t share row dealt to j
        from mpyc import finfields
        rows = collections.Counter()
        for d in obs.deals:
            if d['variant'] != 'random_split':
                continue
            dr = d.get('draw_args') or []
            # (no randbelow call observed at all = randomness drawn through another API: not judged here)
            fresh = d['t'] >= 1 and d['t'] == t and (not dr or (len(dr) == d['t'] * d['n']
                                                                 and all(a == d['order'] for a, _ in dr)))
            if fresh:
                fld = finfields.GF(d['order'])
                rows[(d['pid'], bytes(fld.to_bytes([int(getattr(y, 'value', y)) for y in d['shares'][j]])))] += 1
        bad = extra - rows
        if bad:
            (i, payload), _ = next(iter(bad.items()))
            return Outcome(False, f'non-receiver {j} of a secure float output received a frame from party {i} that is '
                           f'not a freshly dealt degree-{t} share row: {payload.hex()[:40]}\ncase={case}', labels=labels)
    labels.append('recv=%d' % len(R))
    return Outcome(True, labels=labels, nontrivial=len(R) < m)
