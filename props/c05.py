"""C05: secure floating-point arithmetic approximates float arithmetic.

A case fixes a party configuration (m <= 5), a type SecFlt(s,e) and 3-8 independent operation
records; one simulator run evaluates all of them and opens all results with one mpc.output call.
Each record is  op(a, b)  with op in  io + - * / < <= == >= > !=  and optionally a second operation
op2 applied to the (secure) result and a third operand.  Operands are exact binary rationals
[mantissa, exponent] (float = mantissa * 2**exponent), dealt by a generated party ('in'), given as
public secure constants ('const') or as plain Python floats ('py', including reflected operators).

Oracle (exact Fractions; u = 2^-(s-1)):
  io        |out - x| <= 2u|x|
  + -       |out - (x op y)| <= 16u max(|x|,|y|)
  * /       |out - (x op y)| <= 16u |x op y|
  compare   out == truth (as 1.0/0.0) whenever |x-y| > 16u max(|x|,|y|); not judged otherwise
For a second operation the first operand is the value actually opened for the first result (the
opened float is exactly the secure value), so every operation is judged on its own.

Known findings: F8 (an operand of + - or a comparison is exactly zero: zero carries exponent 0 or the
stale exponent of the computation that produced it), F05c (that stale exponent lies below the range of
the exponent type and the next + - or comparison returns garbage), F05a (the constructor asserts on
floats within ~2^-45 relative distance of a power of two) and F05b (power of two / power of two leaves
the significand at 1+u and mpc.output asserts).
"""
import math
from fractions import Fraction
from hypothesis import strategies as st
from vlib.boot import boot
from vlib.runner import Outcome

boot(numpy=False)

ID = 'C05'
LEVEL = 'exploration'
RULE = ('generated (m<=5,t,PRSS on/off, all or a subset of receivers) x SecFlt(s,e) with s in 8..24 (thorough: up to '
        '53) x 3-8 independent records op(a,b)[ op2 c] over io + - * / < <= == >= > != ; operands built from '
        '(mantissa, exponent) integers: powers of two, |significand| 0.5 and 1 boundaries (all-ones mantissas that '
        'round up), wider-than-s mantissas, zero, both signs, exponent ends of the exponent type, exponent '
        'differences 0, 1, around s and far beyond, massive cancellation, comparisons of values a few u apart; '
        'operands dealt by generated parties, public constants or Python floats (reflected operators); oracle = '
        'the statement\'s bounds in exact rational arithmetic on the opened floats at every receiving party; '
        'non-trivial = m>=3, t>=1 and a judged binary operation on operands with different exponents; distinct by '
        'case hash')
ASSUMPTIONS = ['sec_param k=30',
               'types with s <= 2^(e-1) (the fractional length s-1 itself fits the exponent type)',
               'arithmetic operations are generated (and judged) only if the exponent of the exact result, and '
               'of 1/y for a division, fits the exponent type with a margin of 2; comparisons for all inputs',
               'values are observed through the float returned by mpc.output: exponents are kept in [-900, 900] '
               'for e = 11 so that Python floats represent inputs and outputs exactly',
               'division by zero is not generated']
CASE_TIMEOUT = 300
K = 30

ARITH = ['+', '-', '*', '/']
CMP = ['<', '<=', '==', '>=', '>', '!=']
TYPES = [[8, 4], [8, 5], [9, 5], [10, 5], [11, 5], [11, 5], [12, 6], [16, 6], [16, 8], [20, 7], [24, 8], [24, 6]]
TYPES_T = TYPES + [[24, 8], [32, 8], [40, 9], [53, 11]]
DEFAULT_L = {(11, 5): 16, (24, 8): 32, (53, 11): 64}  # SecFlt(l) yields these (s,e)


def budget(tier):
    return dict(shards=16, examples=100 if tier == "quick" else 1000)


# ------------------------------------------------------------------ exact helpers
def fval(me):
    """Exact value of [mantissa, exponent]."""
    m, x = me
    return Fraction(m) * (Fraction(2) ** x)


def fexp(v):
    """E with 2^(E-1) <= |v| < 2^E for a nonzero Fraction v."""
    n, d = abs(v.numerator), v.denominator
    E = n.bit_length() - d.bit_length()
    # 2^(E-1) < n/d < 2^(E+1)
    if (n << max(0, -E)) >= (d << max(0, E)):
        E += 1
    return E


def tofloat(me):
    f = math.ldexp(me[0], me[1])
    assert Fraction(f) == fval(me), ('harness: operand not exactly representable as float', me)
    return f


def window(s, e):
    emin, emax = -(1 << (e - 1)), (1 << (e - 1)) - 1
    return max(emin + 1, -900), min(emax, 900), emin, emax


def near_pow2(v):
    """F05a class: nonzero, not a power of two, within 2^-44 relative distance of a power of two."""
    v = abs(v)
    E = fexp(v)
    lo, hi = Fraction(2) ** (E - 1), Fraction(2) ** E
    if v == lo:
        return False
    return (v - lo) / lo < Fraction(1, 2**44) or (hi - v) / hi < Fraction(1, 2**44)


def exact(op, x, y):
    if op == '+':
        return x + y
    if op == '-':
        return x - y
    if op == '*':
        return x * y
    if op == '/':
        return x / y
    return None


def truth(op, x, y):
    return {'<': x < y, '<=': x <= y, '==': x == y, '>=': x >= y, '>': x > y, '!=': x != y}[op]


def valid_op(op, x, y, s, e):
    """Preconditions under which an operation is judged (see ASSUMPTIONS)."""
    lo, hi, emin, emax = window(s, e)
    for v in (x, y):
        if v is not None and v != 0 and not lo <= fexp(v) <= hi:
            return False
    if op == 'io' or op in CMP:
        return True
    if op == '/':
        if y == 0:
            return False
        if fexp(y) < emin + 4:  # exponent of the intermediate 1/y (2 - E(y) for a power of two) <= emax - 1
            return False
    r = exact(op, x, y)
    if r == 0:
        return True
    return max(emin + 2, lo) <= fexp(r) <= min(emax - 1, hi)


def judge(op, x, y, out, u):
    """-> (ok | None if not judged, ratio err/bound or None, text)."""
    if op == 'io':
        err, bound = abs(out - x), 2 * u * abs(x)
        r = x
    elif op in ('+', '-'):
        r = exact(op, x, y)
        err, bound = abs(out - r), 16 * u * max(abs(x), abs(y))
    elif op in ('*', '/'):
        r = exact(op, x, y)
        err, bound = abs(out - r), 16 * u * abs(r)
    else:
        if abs(x - y) > 16 * u * max(abs(x), abs(y)):
            want = 1 if truth(op, x, y) else 0
            return out == want, None, f'expected {want}'
        return None, None, ''
    if err <= bound:
        return True, (err / bound if bound else Fraction(0)), ''
    return False, (err / bound if bound else None), (f'exact {float(r)!r}, error {float(err):.6g} > bound '
                                                     f'{float(bound):.6g}')


# ------------------------------------------------------------------ generator (own PRNG, see build_case)
def _gen_float(rng, s, E, sign=None, width=None, pattern=None):
    """[mant, exp] with 2^(E-1) <= |v| < 2^E."""
    if width is None:
        width = rng.choice([1, 1, 2, 3, s - 2, s - 1, s, s, s, s + 1, s + 2, s + 5, min(2 * s, 40), 40])
    width = max(1, min(width, 40))
    if pattern is None:
        pattern = rng.choice(['rand', 'rand', 'rand', 'ones', 'lowone', 'top2', 'alt'])
    top = 1 << (width - 1)
    if width == 1:
        mant = 1
    elif pattern == 'ones':
        mant = (1 << width) - 1
    elif pattern == 'lowone':
        mant = top + 1
    elif pattern == 'top2':
        mant = top + (top >> 1)
    elif pattern == 'alt':
        mant = top | (((1 << width) - 1) // 3)
    else:
        mant = top + rng.randrange(top)
    if sign is None:
        sign = rng.choice([1, -1])
    return [sign * mant, E - width]


def _pickE(rng, lo, hi):
    """Exponent in [lo, hi], ends and the middle (around 0) weighted."""
    if lo > hi:
        return None
    how = rng.randrange(6)
    if how == 0:
        return rng.choice([lo, hi, min(lo + 1, hi), max(hi - 1, lo)])
    if how == 1:
        return max(lo, min(hi, rng.randint(-3, 3)))
    return rng.randint(lo, hi)


def _kinds(rng, m, n):
    """n operand kinds/senders; at most n-1 plain Python floats."""
    ks = [rng.choice(['in', 'in', 'in', 'const', 'py']) for _ in range(n)]
    if all(k == 'py' for k in ks):
        ks[rng.randrange(n)] = 'in'
    return ks, [rng.randrange(m) for _ in range(n)]


def _second_operand(rng, op, x, s, e, zero_ok):
    """Operand for `x op .` (x an exact nonzero Fraction) inside the validity window; None if impossible."""
    lo, hi, emin, emax = window(s, e)
    f = s - 1
    Ex = fexp(x)
    if zero_ok and op != '/' and rng.randrange(16) == 0:
        return [0, 0]
    if op in ('+', '-'):
        rel = rng.choice(['same', 'one', 'mid', 'nearf', 'far', 'cancel', 'any'])
        if rel == 'cancel':
            # same exponent, opposite effective sign, shared leading bits
            w = min(52, rng.choice([s, s, s - 1, s + 2]))
            xm = abs(x) / (Fraction(2) ** (Ex - w))  # mantissa of x at width w (maybe fractional)
            base = int(xm)
            delta = rng.choice([0, 1, 1, 2, 3, 1 << rng.randrange(w), rng.randrange(1 << max(1, w // 2))])
            mant = max(1 << (w - 1), min((1 << w) - 1, base + rng.choice([1, -1]) * delta))
            sign = (1 if x > 0 else -1) * (-1 if op == '+' else 1)
            return [sign * mant, Ex - w]
        d = {'same': 0, 'one': rng.choice([1, -1]), 'mid': rng.choice([1, -1]) * rng.randint(2, max(2, f - 2)),
             'nearf': rng.choice([1, -1]) * rng.choice([f - 1, f, f + 1, f + 2]),
             'far': rng.choice([1, -1]) * rng.randint(f + 3, f + 40), 'any': None}[rel]
        Ey = _pickE(rng, lo, hi) if d is None else Ex + d
        Ey = max(lo, min(hi, Ey))
        return _gen_float(rng, s, Ey)
    if op == '*':
        Ey = _pickE(rng, max(lo, emin + 3 - Ex), min(hi, emax - 1 - Ex))
    elif op == '/':
        Ey = _pickE(rng, max(lo, emin + 4, Ex - emax + 2), min(hi, Ex - emin - 3))
    else:  # comparison
        rel = rng.choice(['close', 'close', 'any', 'same', 'neg', 'equal'])
        if rel == 'equal':
            return None  # caller copies x
        if rel == 'close':
            w = min(52, s)
            xm = abs(x) / (Fraction(2) ** (Ex - w))
            k = rng.choice([1, 2, 7, 8, 9, 15, 16, 17, 18, 20, 31, 32, 33, 40, 64, 100])
            mant = max(1, int(xm) + rng.choice([1, -1]) * k)
            return [(1 if x > 0 else -1) * mant, Ex - w]
        if rel == 'neg':
            return 'neg'
        Ey = Ex if rel == 'same' else _pickE(rng, lo, hi)
    if Ey is None:
        return 'fail'
    return _gen_float(rng, s, Ey)


def _first_operand(rng, op, s, e):
    lo, hi, emin, emax = window(s, e)
    f = s - 1
    if op in ('+', '-'):
        E = _pickE(rng, max(lo, emin + 4), min(hi, emax - 2))
    else:
        E = _pickE(rng, lo, hi)
    return _gen_float(rng, s, E)


def _me_of(v):
    """[mant, exp] equal to the Fraction v if that is a binary rational with < 2^53 numerator, else a
    40-bit approximation."""
    d = v.denominator
    if d & (d - 1) == 0 and abs(v.numerator) < 2**53:
        return [v.numerator, -(d.bit_length() - 1)]
    E = fexp(v)
    q = v / (Fraction(2) ** (E - 40))
    return [int(q), E - 40]


def _gen_record(rng, m, s, e, special):
    op = rng.choice(['io', '+', '+', '-', '-', '*', '*', '/', '/'] + CMP)
    rec = dict(op=op)
    if special == 'f05a' and rng.randrange(2):
        # float within 2^-50 of a power of two (53-bit mantissa): constructor assertion class
        lo, hi, emin, emax = window(s, e)
        E = _pickE(rng, lo, hi)
        mant = (1 << 52) + rng.randint(1, 3) if rng.randrange(2) else (1 << 53) - rng.randint(1, 3)
        rec.update(op='io', a=[rng.choice([1, -1]) * mant, E - 53], ka=rng.choice(['in', 'const']),
                   sa=rng.randrange(m), b=None)
        return rec
    if special == 'f05c' and rng.randrange(2):
        # x - x with a small exponent (exact zero with a stale exponent below the type's range), then + - or a
        # comparison with an operand of large exponent
        lo, hi, emin, emax = window(s, e)
        loE = max(lo, emin + 4)
        a = _gen_float(rng, s, _pickE(rng, loE, max(loE, min(hi, emin + s))), width=rng.choice([1, 3, s]))
        op = rng.choice(['-', '+'])
        b = list(a) if op == '-' else [-a[0], a[1]]
        (ka, kb), (sa, sb) = _kinds(rng, m, 2)
        c = _gen_float(rng, s, _pickE(rng, max(lo, hi - 6), hi - 2))
        rec.update(op=op, a=a, ka=ka, sa=sa, b=b, kb=kb, sb=sb, op2=rng.choice(['+', '-'] + CMP),
                   side=rng.choice(['l', 'r']), c=c, kc=rng.choice(['in', 'const', 'py']), sc=rng.randrange(m))
        return rec
    if op == 'io':
        a = [0, 0] if rng.randrange(14) == 0 else _first_operand(rng, op, s, e)
        rec.update(a=a, ka=rng.choice(['in', 'in', 'const']), sa=rng.randrange(m), b=None)
        return rec
    zero_ok = special == 'zero' or rng.randrange(3) == 0
    a = _first_operand(rng, op, s, e)
    x = fval(a)
    b = _second_operand(rng, op, x, s, e, zero_ok)
    if b is None:
        b = list(a)
    elif b == 'neg':
        b = [-a[0], a[1]]
    elif b == 'fail':
        op = rec['op'] = '<'
        b = _gen_float(rng, s, fexp(x))
    if op in ('+', '-', '*') + tuple(CMP) and zero_ok and rng.randrange(24) == 0:
        a = [0, 0]  # zero as the LEFT operand
    if rng.randrange(2) and op != '/':
        a, b = b, a  # both operand orders
    x, y = fval(a), fval(b)
    if op == '/' and special == 'f05b':
        # both operands powers of two after rounding to s bits (F05b class)
        a = _gen_float(rng, s, fexp(x), width=rng.choice([1, 1, s + 3]), pattern='ones')
        b = _gen_float(rng, s, fexp(y), width=rng.choice([1, 1, s + 3, 40]), pattern='lowone')
        x, y = fval(a), fval(b)
    elif op == '/' and rounds_to_pow2(x, s) and rounds_to_pow2(y, s):
        a = _gen_float(rng, s, fexp(x), width=s, pattern='alt')  # stay outside the F05b class
        x = fval(a)
    if not valid_op(op, x, y, s, e):
        op = rec['op'] = rng.choice(CMP)  # constructive fallback: comparisons are valid for all inputs
    (ka, kb), (sa, sb) = _kinds(rng, m, 2)
    rec.update(a=a, ka=ka, sa=sa, b=b, kb=kb, sb=sb)
    if op in ARITH and rng.randrange(3) == 0:
        r1 = exact(op, x, y)
        op2 = rng.choice(ARITH + ARITH + CMP)
        side = rng.choice(['l', 'l', 'r'])  # 'l': r1 op2 c ; 'r': c op2 r1
        if op2 == '/' and op in ('+', '-'):
            side = 'l'  # a computed sum may cancel to exactly zero: never use it as a divisor
        if r1 == 0:
            if op2 == '/':
                op2 = '+'
            c = _first_operand(rng, op2, s, e)
        else:
            if op2 == '/' and side == 'r':
                # c / r1: choose c from r1 by the multiplication window of c * (1/r1)
                c = _second_operand(rng, '*', 1 / r1, s, e, False)
            else:
                c = _second_operand(rng, op2, r1, s, e, zero_ok and op2 != '/')
            if c is None:
                c = _me_of(r1)
            elif c == 'neg':
                c = _me_of(-r1)
            elif c == 'fail':
                op2 = '<'
                c = _gen_float(rng, s, fexp(r1))
        kc = rng.choice(['in', 'in', 'const', 'py'])
        rec.update(op2=op2, side=side, c=c, kc=kc, sc=rng.randrange(m))
    return rec


def build_case(seed, tier):
    """Deterministic expansion of one Hypothesis-drawn integer into a case (own PRNG: Hypothesis' example
    mutation duplicates equal sub-strategies, which would make x == y far too frequent)."""
    import random
    rng = random.Random(seed)
    m = rng.choice([1, 1, 1, 1, 2, 3, 3, 3, 3, 4, 5, 5])
    tmax = (m - 1) // 2
    t = rng.choice([tmax, tmax, tmax, tmax, 0, max(0, tmax - 1)])
    prss = rng.randrange(2) == 1
    s, e = rng.choice(TYPES if tier == 'quick' else TYPES_T)
    if s > 24 and m > 3:
        m, t = 3, 1
    special = rng.choice(['f05a', 'f05b', 'f05c', 'zero', 'zero'] + ['none'] * 10)
    nrec = rng.choice([3, 4, 5, 6]) if m <= 3 else rng.choice([2, 3, 4])
    recs = [_gen_record(rng, m, s, e, special) for _ in range(nrec)]
    recv = None
    if m >= 2 and rng.randrange(6) == 0:
        k = rng.randint(1, m - 1)
        recv = sorted(rng.sample(range(m), k))
    return dict(m=m, t=t, prss=prss, seed=rng.randrange(2**20), s=s, e=e, recv=recv, ops=recs)


def strategy(tier):
    return st.integers(0, 2**48).map(lambda z: build_case(z, tier))


# ------------------------------------------------------------------ running
def _apply(op, x, y):
    if op == '+':
        return x + y
    if op == '-':
        return x - y
    if op == '*':
        return x * y
    if op == '/':
        return x / y
    if op == '<':
        return x < y
    if op == '<=':
        return x <= y
    if op == '==':
        return x == y
    if op == '>=':
        return x >= y
    if op == '>':
        return x > y
    if op == '!=':
        return x != y
    raise ValueError(op)


def _run(case):
    from vlib import sim as simmod
    m, s, e = case['m'], case['s'], case['e']
    recv = case.get('recv')
    diag = {}

    async def prog(mpc, pid):
        if DEFAULT_L.get((s, e)) and case['seed'] % 2:
            T = mpc.SecFlt(DEFAULT_L[(s, e)])
        else:
            T = mpc.SecFlt(s=s, e=e)
        info = dict(s=T.significand_type.bit_length, f=T.significand_type.frac_length,
                    e=T.exponent_type.bit_length)

        def operand(me, kind, snd):
            v = tofloat(me)
            T(v)  # probe at every party (public, no communication): constructor errors are the same everywhere
            if kind == 'py':
                return v
            if kind == 'const':
                return T(v)
            return mpc.input(T(v if pid == snd else None), senders=snd)

        slots = []   # per record: list of secure results or an error text
        for rec in case['ops']:
            try:
                x = operand(rec['a'], rec['ka'], rec['sa'])
                if rec['op'] == 'io':
                    slots.append([x])
                    continue
                y = operand(rec['b'], rec['kb'], rec['sb'])
                z = _apply(rec['op'], x, y)
                if not isinstance(z, T):
                    raise TypeError(f'result of {rec["op"]} is {type(z).__name__}, not {T.__name__}')
                zs = [z]
                if rec.get('op2'):
                    c = operand(rec['c'], rec['kc'], rec['sc'])
                    z2 = _apply(rec['op2'], z, c) if rec['side'] == 'l' else _apply(rec['op2'], c, z)
                    if not isinstance(z2, T):
                        raise TypeError(f'result of {rec["op2"]} is {type(z2).__name__}, not {T.__name__}')
                    zs.append(z2)
                slots.append(zs)
            except Exception as ex:  # same deterministic outcome at every party (public data only)
                import traceback
                slots.append(f'{type(ex).__name__}: {ex} @ ' + traceback.format_exc()[-600:])
        flat = [z for zs in slots if not isinstance(zs, str) for z in zs]
        index = [i for i, zs in enumerate(slots) if not isinstance(zs, str) for _ in zs]
        if flat:
            # diagnostic view of the internal (significand, exponent) pairs, used only to attribute a failing
            # assertion inside SecureFloat._output to a record; the oracle observes mpc.output(secure floats)
            dsig = await mpc.output([z.share[0] for z in flat])
            dexp = await mpc.output([z.share[1] for z in flat])
            diag[pid] = [[i, float(a), int(b)] for i, a, b in zip(index, dsig, dexp)]
            vals = await (mpc.output(flat) if recv is None else mpc.output(flat, receivers=recv))
        else:
            vals = []
        res, i = [], 0
        for zs in slots:
            if isinstance(zs, str):
                res.append(zs)
            else:
                res.append(list(vals[i:i + len(zs)]))
                i += len(zs)
        return dict(res=res, info=info)

    sim = simmod.Sim(m, case['t'], prss=case['prss'], seed=case.get('seed', 0),
                     schedule={'mode': 'fast'}, sec_param=K)
    try:
        res = sim.run_programs(prog)
    finally:
        sim.close()
    res.diag = diag
    return res


def _hidden_exp(op, x, y):
    """Upper bound on the (hidden) exponent carried by an exactly-zero result of `x op y`."""
    ex = fexp(x) if x else 0
    ey = fexp(y) if y else 0
    if op in ('+', '-'):
        return max(ex, ey) + 1
    if op == '*':
        return ex + ey + 1
    return ex - ey + 3


def _judge_f8(op, x, y, out, u, hx, hy):
    """An operand is exactly zero: is the failure inside the explained behaviour of class F8?
    hx/hy: hidden exponent bound of a zero operand (0 for an input/constant zero)."""
    if x == 0 and y == 0:
        H, w = max(hx, hy), Fraction(0)
    elif x == 0:
        H, w = hx, y
    else:
        H, w = hy, x
    slack = 2 * u * Fraction(2) ** H
    if op in ('+', '-'):
        r = exact(op, x, y)
        return abs(out - r) <= 16 * u * abs(w) + slack
    return abs(w) <= slack and out in (0, 1)


def rounds_to_pow2(v, s):
    """|v| = q * 2^k with 1 <= q < 2 and q <= 1 + u or q >= 2 - u: the s-bit significand is 0.5 or 1."""
    if v == 0:
        return False
    u = Fraction(1, 1 << (s - 1))
    q = abs(v) / Fraction(2) ** (fexp(v) - 1)
    return q <= 1 + u or q >= 2 - u


def _f05b_record(rec, d0, i, s):
    """Class F05b: a division whose dividend and divisor both round to powers of two (significands exactly
    1 and 0.5): the un-normalised reciprocal 0.5*(1/0.5) may come out as 1+u, and so does the quotient."""
    outs = [Fraction(sg) * Fraction(2) ** ex for j, sg, ex in d0 if j == i]
    x, y = fval(rec['a']), fval(rec['b']) if rec.get('b') is not None else None
    if rec['op'] == '/' and rounds_to_pow2(x, s) and rounds_to_pow2(y, s):
        return True
    if rec.get('op2') == '/' and len(outs) == 2:
        c = fval(rec['c'])
        return rounds_to_pow2(outs[0], s) and rounds_to_pow2(c, s)
    return False


def run_case(case):
    m, t, s, e = case['m'], case['t'], case['s'], case['e']
    u = Fraction(1, 1 << (s - 1))
    recv = case.get('recv')
    labels = [f'm={m}', f't={t}', f"prss={case['prss']}", f'SecFlt(s={s},e={e})',
              'recv=all' if recv is None else 'recv=subset']
    for rec in case['ops']:
        for k in ('a', 'b', 'c'):
            if rec.get(k) is not None and (abs(rec[k][0]) >= 1 << 53 or not -1074 <= rec[k][1] <= 1023):
                return Outcome(True, skipped=True, nontrivial=False, labels=['invalid-operand'])
    try:
        res = _run(case)
    except Exception:
        import traceback
        return Outcome(False, f'exception on valid input:\n{traceback.format_exc()[-2500:]}\ncase={case}',
                       labels=labels)
    if res.inconclusive:
        return Outcome(True, inconclusive=True, labels=labels, nontrivial=False)
    if not res.all_done:
        txt = res.describe()[:2500]
        known = None
        d0 = res.diag.get(0)
        if d0 and 'AssertionError' in txt and all(res.diag.get(i) == d0 for i in range(m)):
            # SecureFloat._output asserts 0.5 <= |significand| <= 1: attribute to records
            off = sorted({i for i, sg, ex in d0 if sg != 0 and not 0.5 <= abs(sg) <= 1})
            if off and all(_f05b_record(case['ops'][i], d0, i, s) for i in off):
                known = 'F05b'
                labels.append('F05b-fail')
            txt += f'\nunnormalised significands in records {off}: {[d for d in d0 if d[0] in off]}'
        return Outcome(False, f'run did not complete: {txt}\ncase={case}', labels=labels, known=known)
    rcv = list(range(m)) if recv is None else list(recv)
    info = res.values[0]['info']
    if (info['s'], info['f'], info['e']) != (s + 1, s - 1, e):
        return Outcome(False, f'SecFlt(s={s},e={e}) has significand/exponent types {info}', labels=labels)
    views = [res.values[i]['res'] for i in rcv]
    for i in range(m):
        if i not in rcv:
            for slot in res.values[i]['res']:
                if not isinstance(slot, str) and any(v is not None for v in slot):
                    return Outcome(False, f'non-receiver {i} obtained output {slot}\ncase={case}', labels=labels)
    if any(v != views[0] for v in views):
        return Outcome(False, f'receiving parties disagree on outputs: {views}\ncase={case}', labels=labels)
    fails, known_fails = [], []
    nt = False
    worst = Fraction(0)
    for idx, (rec, slot) in enumerate(zip(case['ops'], views[0])):
        op = rec['op']
        x = fval(rec['a'])
        y = fval(rec['b']) if rec.get('b') is not None else None
        labels.append(f'op={op}')
        operands = [x] + ([y] if y is not None else []) + ([fval(rec['c'])] if rec.get('op2') else [])
        in_f05a = any(v != 0 and near_pow2(v) for v in operands)
        if in_f05a:
            labels.append('F05a-class(near power of two)')
        if op == '/' and rounds_to_pow2(x, s) and rounds_to_pow2(y, s):
            labels.append('F05b-class(power of two / power of two)')
        if isinstance(slot, str):
            msg = f'record {idx} {rec}: exception on valid input: {slot}'
            if in_f05a and slot.startswith('AssertionError') and '__init__' in slot:
                known_fails.append(('F05a', msg))
            else:
                fails.append(msg)
            continue
        if any(not isinstance(o, float) for o in slot):
            fails.append(f'record {idx} {rec}: output is not a float: {slot!r}')
            continue
        outs = [Fraction(o) for o in slot]
        steps = [(op, x, y, outs[0], 0, 0)]
        ez = None  # internal (hidden) exponent of an exactly-zero first result, from the diagnostic view
        if rec.get('op2'):
            c = fval(rec['c'])
            h = _hidden_exp(op, x, y)
            dz = [ex for i, sg, ex in res.diag.get(rcv[0], []) if i == idx]
            if outs[0] == 0 and len(dz) == 2:
                ez = dz[0]
                h = min(h, ez + 1)
            steps.append((rec['op2'], outs[0], c, outs[1], h, 0) if rec['side'] == 'l'
                         else (rec['op2'], c, outs[0], outs[1], 0, h))
            labels.append(f"chain:{op}{rec['op2']}")
        for k, (o, a, b, out, ha, hb) in enumerate(steps):
            if not valid_op(o, a, b, s, e):
                labels.append('step-not-judged(exponent window)')
                break
            zero_operand = o != 'io' and (a == 0 or b == 0)
            f8 = zero_operand and (o in ('+', '-') or o in CMP)
            if f8:
                labels.append('F8-class(zero operand)')
            elif zero_operand:
                labels.append('zero-operand(* /)')
            ok, ratio, txt = judge(o, a, b, out, u)
            if ok is None:
                labels.append('cmp-not-judged(too close)')
                continue
            if o in CMP:
                labels.append('cmp-judged')
            if b is not None and a != 0 and b != 0:
                d = abs(fexp(a) - fexp(b))
                labels.append('expdiff=0' if d == 0 else 'expdiff=1' if d == 1 else
                              'expdiff<s' if d < s - 1 else 'expdiff~s' if d <= s + 1 else 'expdiff>s')
                if d and m >= 3 and t >= 1:
                    nt = True
            if ok:
                if ratio is not None and not f8:
                    worst = max(worst, ratio)
                continue
            bs = '' if b is None else repr(float(b))
            where = f'record {idx} step {k}: {float(a)!r} {o} {bs} -> {float(out)!r}; {txt}; rec={rec}'
            w = b if a == 0 else a
            if f8 and k == 1 and ez is not None and w != 0 and fexp(w) - ez >= (1 << e) - 2:
                # F05c: the stale exponent of the computed zero lies so far below the other operand's exponent
                # that their difference leaves the range of the secure comparison in __add__: arbitrary result
                labels.append('F05c-fail')
                known_fails.append(('F05c', where + f'; hidden exponent of the computed zero: {ez}'))
            elif f8 and _judge_f8(o, a, b, out, u, ha, hb):
                known_fails.append(('F8', where))
            else:
                fails.append(where)
            break
    labels.append('worst-ratio<0.1' if worst < Fraction(1, 10) else 'worst-ratio<0.25' if worst < Fraction(1, 4)
                  else 'worst-ratio<0.5' if worst < Fraction(1, 2) else 'worst-ratio<=1')
    n = len(case['ops'])
    if fails:
        return Outcome(False, fails[0] + f'\nSecFlt(s={s},e={e}) u=2^-{s - 1}\ncase={case}', labels=labels)
    if known_fails:
        return Outcome(False, known_fails[0][1] + f'\ncase={case}', labels=labels, known=known_fails[0][0])
    return Outcome(True, labels=labels, nontrivial=nt)
