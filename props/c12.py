"""C12: Shamir split and recombine are inverse for all fields and thresholds (list and NumPy variants).

What is checked, for `thresha.random_split`/`np_random_split` and `thresha.recombine`/`np_recombine`:

* a dealt share matrix has one row per party and one column per secret, every entry reduced (the
  callers marshal rows with `field.to_bytes` resp. wrap them with `field.array(..., check=False)`);
* the m shares of a secret lie on ONE polynomial f of degree <= t over the field with f(0) = secret,
  party i holding f(i) (reference: Newton interpolation through the first t+1 shares, all further
  shares must be on it), and the non-constant coefficients of the dealt polynomials are exactly the
  values the dealer drew from `secrets.randbelow` (the sharing polynomial is the dealer's polynomial);
* `recombine(points, x)` over ANY subset of >= t+1 shares, in any order, equals f(x) computed by the
  reference, for x = 0 (default argument), x a coordinate inside / outside the subset, any other field
  element, and lists of points; raw-value, marshalled-int, mixed and field-element share representations;
* all four combinations {list, NumPy} dealing x {list, NumPy} recombination agree with the reference
  (hence with each other);
* mode 'lagr': recombination of arbitrary values on coordinates {0, 1, 2, ...} (the use in
  `thresha._f_S_i`) equals the reference interpolation.
"""
import itertools
import traceback
from hypothesis import strategies as st
from vlib.boot import boot
from vlib.runner import Outcome
from vlib import fields as FS
from vlib import shamir_ref as SR

ID = 'C12'
LEVEL = 'exploration'
RULE = ('generated: field (GF(p) small/medium/up to 2^521-1, GF(2^n) n<=128, odd-characteristic extensions) x '
        '0<=t<m<|F| (m<=24 quick/40 thorough) x 1-4 secrets x dealer coefficients (from the case, zero/extreme '
        'weighted) x ordered subset of >=t+1 shares x recombination point(s) (0/default, coordinate in or outside '
        'the subset, other element, unreduced int for GF(p), lists) x share representation x list/NumPy dealing and '
        'recombination; plus arbitrary-value interpolation on coordinates incl. 0; plus exhaustive cells '
        '(tiny fields: every secret, every coefficient vector, every subset of >=t+1 shares in index order, every '
        'point x). Oracle: independent Newton interpolation/Horner evaluation over reference field arithmetic. '
        'Non-trivial = proper subset of the shares or some x != 0 (distinct by case hash; inside exhaustive cells '
        'every (polynomial, subset, x) with proper subset or x != 0)')
ASSUMPTIONS = ['reference field arithmetic and Newton interpolation in vlib/shamir_ref.py, vlib/refmath.py',
               'precondition of the property: 0 <= t < m < |F|; share coordinates are the party numbers 1..m',
               '`mpyc.thresha.secrets` is replaced by a recorder that feeds the coefficients given in the case',
               'numpy from the offline wheelhouse (/verif/.deps) for the array variants']
CASE_TIMEOUT = 600

boot(numpy=True)
from mpyc import thresha  # noqa: E402
from mpyc.numpy import np  # noqa: E402


def budget(tier):
    return dict(shards=16, examples=220 if tier == 'quick' else 5000)


# ------------------------------------------------------------------ cases
def _exh_cost(q, t, m, ext):
    """Rough CPU seconds of an exhaustive cell (measured: polynomial arithmetic is ~20x slower than ints)."""
    npoly = q ** (t + 1)
    work = npoly * q * sum(_binom(m, k) * k for k in range(t + 1, m + 1))
    return npoly * (2.2e-3 if ext else 0.3e-3) + work * (35e-6 if ext else 1.6e-6)


def _binom(n, k):
    r = 1
    for i in range(k):
        r = r * (n - i) // (i + 1)
    return r


def enumerate_cases(tier):
    lim = 1.0 if tier == 'quick' else 25
    specs = [{'p': p} for p in (2, 3, 5, 7, 11, 13)]
    for p, n in ((2, 2), (2, 3), (3, 2), (2, 4), (5, 2), (3, 3)):
        specs.append({'p': p, 'f': list(FS.smallest_irreducible(p, n))})
    for spec in specs:
        q = FS.order(spec)
        for m in range(1, q):
            for t in range(m):
                if _exh_cost(q, t, m, 'f' in spec) <= lim:
                    yield {'mode': 'exh', 'field': spec, 't': t, 'm': m}


@st.composite
def _xs(draw, q, m, subset, prime):
    """Recombination points: form ('default' | 'int' | 'list') and the list of integer points."""
    inside = [i + 1 for i in subset]
    outside = [i + 1 for i in range(m) if i not in subset]
    pool = [st.just(0), st.integers(0, q - 1), st.just(q - 1), st.integers(0, min(q - 1, m + 3))]
    if inside:
        pool.append(st.sampled_from(inside))
    if outside:
        pool.append(st.sampled_from(outside))
    if prime:
        # GF(p)(x) reduces any int modulo p
        pool.append(st.integers(-3, 3).map(lambda k: k * q + 1 if k else -1))
    one = st.one_of(pool)
    form = draw(st.sampled_from(['default', 'int', 'int', 'list', 'list']))
    if form == 'default':
        return form, [0]
    if form == 'int':
        return form, [draw(one)]
    return form, draw(st.lists(one, min_size=1, max_size=4))


@st.composite
def _gen(draw, tier):
    spec = draw(FS.field_spec())
    q = FS.order(spec)
    prime = 'f' not in spec
    el = st.one_of(FS.elem_strategy(spec), st.just(0))
    if draw(st.integers(0, 9)) == 0 and q > 2:
        # arbitrary values on coordinates 0, 1, 2, ... (not necessarily a low-degree sharing)
        cmax = min(q - 1, 16)
        k = draw(st.integers(1, min(cmax + 1, 9)))
        coords = draw(st.permutations(range(cmax + 1)))[:k]
        n = draw(st.integers(1, 3))
        vals = [[draw(el) for _ in range(n)] for _ in range(k)]
        form, xs = draw(_xs(q, cmax, [c - 1 for c in coords if c], prime))
        return {'mode': 'lagr', 'field': spec, 'coords': list(coords), 'vals': vals, 'xform': form, 'xs': xs,
                'rep': draw(st.sampled_from(['raw', 'elt'] if prime else ['raw', 'int', 'elt', 'mixed']))}
    mmax = min(q - 1, 24 if tier == 'quick' else 40)
    m = draw(st.one_of(st.integers(1, min(mmax, 8)), st.integers(1, mmax), st.just(mmax)))
    t = draw(st.one_of(st.integers(0, m - 1), st.sampled_from([0, m - 1, (m - 1) // 2])))
    n = draw(st.integers(1, 4))
    secrets = [draw(el) for _ in range(n)]
    rnd = [draw(el) for _ in range(t * n)]
    k = draw(st.one_of(st.just(t + 1), st.integers(t + 1, m), st.just(m)))
    subset = list(draw(st.permutations(range(m)))[:k])
    if draw(st.booleans()):
        subset.sort()
    form, xs = draw(_xs(q, m, subset, prime))
    return {'mode': 'gen', 'field': spec, 't': t, 'm': m, 'secrets': secrets, 'rnd': rnd, 'subset': subset,
            'xform': form, 'xs': xs,
            'sin': draw(st.sampled_from(['elt', 'raw'])), 'nsin': draw(st.sampled_from(['array', 'ndarray'])),
            'rep': draw(st.sampled_from(['raw', 'elt'] if prime else ['raw', 'int', 'elt', 'mixed']))}


def strategy(tier):
    return _gen(tier)


# ------------------------------------------------------------------ plumbing
class Fail(Exception):
    pass


class _Stream:
    """Stand-in for the `secrets` module inside mpyc.thresha: feeds the case's coefficients, records calls."""

    def __init__(self, vals):
        self.vals = list(vals)
        self.calls = []

    def randbelow(self, n):
        i = len(self.calls)
        v = self.vals[i] % n if i < len(self.vals) else (0x9E3779B97F4A7C15 * (i + 1)) % n
        self.calls.append((n, v))
        return v


def _with_stream(vals, f, *args):
    stream = _Stream(vals)
    old = thresha.secrets
    thresha.secrets = stream
    try:
        return f(*args), stream
    finally:
        thresha.secrets = old


def _toint(spec, F, v):
    """mpyc value (int, polynomial, field element) -> canonical reference int (no reduction)."""
    if isinstance(v, F):
        v = v.value
    return int(v)


def _reduced(spec, F, v, what):
    """Canonical int of a value that must be reduced (a share as marshalled by the callers)."""
    if isinstance(v, F):
        raise Fail(f'{what}: a field element, not a raw value (callers marshal raw values)')
    if 'f' not in spec:
        if isinstance(v, bool) or not isinstance(v, (int, np.integer)):
            raise Fail(f'{what}: {v!r} of type {type(v).__name__} is not an int')
    else:
        if not isinstance(v, type(F.modulus)):
            raise Fail(f'{what}: {v!r} of type {type(v).__name__} is not a polynomial over GF({spec["p"]})')
    r = int(v)
    if not 0 <= r < FS.order(spec):
        raise Fail(f'{what}: share {v!r} is not reduced modulo the field modulus')
    return r


def _split_list(spec, F, secrets, t, m, rnd, sin):
    s = [F(x) for x in secrets] if sin == 'elt' else [F(x).value for x in secrets]
    shares, stream = _with_stream(rnd, thresha.random_split, F, s, t, m)
    n = len(secrets)
    if not (isinstance(shares, list) and len(shares) == m and all(isinstance(r, list) and len(r) == n for r in shares)):
        raise Fail(f'random_split: result is not an m x n matrix (m={m}, n={n}): {shares!r}'[:600])
    ints = [[_reduced(spec, F, v, f'random_split share of party {i + 1}') for v in row] for i, row in enumerate(shares)]
    for i, row in enumerate(shares):  # what Runtime._distribute / _reshare do with a row
        try:
            back = F.from_bytes(F.to_bytes(row))
        except Exception as e:
            raise Fail(f'random_split: row {i} cannot be marshalled with field.to_bytes: {e!r}')
        if list(back) != ints[i]:
            raise Fail(f'random_split: row {i} does not survive to_bytes/from_bytes: {back} vs {ints[i]}')
    return shares, ints, stream


def _split_np(spec, F, secrets, t, m, rnd, nsin):
    a = F.array(list(secrets))
    s = a if nsin == 'array' else a.value
    shares, stream = _with_stream(rnd, thresha.np_random_split, F, s, t, m)
    n = len(secrets)
    if not (isinstance(shares, np.ndarray) and shares.shape == (m, n)):
        raise Fail(f'np_random_split: result is not an ndarray of shape ({m}, {n}): {shares!r}'[:600])
    ints = [[_reduced(spec, F, v, f'np_random_split share of party {i + 1}') for v in row] for i, row in enumerate(shares)]
    return shares, ints, stream


def _sharing_polys(RF, ints, secrets, t, stream, who):
    """Reference: the polynomial of degree <= t behind every column; checks f(0) = secret, all m shares on f,
    and that the non-constant coefficients are the dealer's draws.  Returns one coefficient list per secret."""
    m = len(ints)
    pts = [RF.conv(i + 1) for i in range(m)]
    polys = []
    for h, s in enumerate(secrets):
        ys = [ints[i][h] for i in range(m)]
        c = SR.newton_coeffs(RF, pts[:t + 1], ys[:t + 1])
        for i in range(t + 1, m):
            if SR.horner(RF, c, pts[i]) != ys[i]:
                raise Fail(f'{who}: shares of secret #{h} are not on one polynomial of degree <= t={t}: the polynomial '
                           f'through parties 1..{t + 1} gives {SR.horner(RF, c, pts[i])} at party {i + 1}, share is {ys[i]}')
        if c[0] != RF.conv(s):
            raise Fail(f'{who}: sharing polynomial of secret #{h} has f(0) = {c[0]}, secret is {RF.conv(s)} '
                       f'(shares {ys})')
        polys.append(c)
    dealt = sorted(x for c in polys for x in c[1:])
    drawn = sorted(RF.conv(v) for _, v in stream.calls)
    if dealt != drawn:
        raise Fail(f'{who}: the non-constant coefficients of the dealt polynomials {dealt[:12]} are not the '
                   f'{len(drawn)} values drawn from secrets.randbelow {drawn[:12]} (t={t}, {len(secrets)} secrets)')
    return polys


def _rows(spec, F, orig, ints, idx, rep):
    """Share rows for `recombine` in the representation rep."""
    out = []
    for i in idx:
        if rep == 'raw':
            row = list(orig[i]) if orig is not None else [x if 'f' not in spec else F(x).value for x in ints[i]]
        elif rep == 'int':
            row = list(ints[i])
        elif rep == 'elt':
            row = [F(x) for x in ints[i]]
        else:  # mixed: marshalled ints from peers next to own raw polynomial values (Runtime.output)
            row = [x if (i + h) % 2 else F(x).value for h, x in enumerate(ints[i])]
        out.append(row)
    return out


def _call(f, F, points, form, xs):
    if form == 'default':
        return f(F, points)
    if form == 'int':
        return f(F, points, xs[0])
    return f(F, points, list(xs))


def _rec_list(spec, F, coords, rows, form, xs, rep, expect, who):
    n = len(rows[0])
    res = _call(thresha.recombine, F, [(c, r) for c, r in zip(coords, rows)], form, xs)
    if form != 'list':
        res = [res]
    if not (isinstance(res, list) and len(res) == len(xs) and all(isinstance(r, list) and len(r) == n for r in res)):
        raise Fail(f'{who}: recombine result has wrong structure for x_rs form {form}: {res!r}'[:600])
    for r, row in enumerate(res):
        for h, v in enumerate(row):
            if rep == 'elt':
                if not isinstance(v, F):
                    raise Fail(f'{who}: recombine of field elements returned {type(v).__name__}, not a field element')
                got = _toint(spec, F, v)
            else:
                got = _toint(spec, F, F(v))  # callers apply field(...) to the raw sums
            if got != expect[r][h]:
                raise Fail(f'{who}: recombine(x={xs[r]}) of secret #{h} = {got}, reference polynomial value {expect[r][h]} '
                           f'(coordinates {list(coords)}, rep {rep})')


def _rec_np(spec, F, coords, rows, form, xs, expect, who):
    n = len(rows[0])
    res = _call(thresha.np_recombine, F, [(c, r) for c, r in zip(coords, rows)], form, xs)
    shape = (n,) if form != 'list' else (len(xs), n)
    if not isinstance(res, F.array) or res.shape != shape:
        raise Fail(f'{who}: np_recombine result is not a field array of shape {shape}: {res!r}'[:600])
    val = res.value
    if form != 'list':
        val = [val]
    for r in range(len(xs)):
        for h in range(n):
            got = int(val[r][h])
            if got != expect[r][h]:
                raise Fail(f'{who}: np_recombine(x={xs[r]}) of secret #{h} = {got}, reference polynomial value '
                           f'{expect[r][h]} (coordinates {list(coords)})')


def _objarray(row):
    # (polynomials are iterable: build the object array element by element)
    return np.fromiter(row, dtype=object, count=len(row))


def _nprows(orig, ints, idx):
    return [orig[i] if isinstance(orig, np.ndarray) else _objarray(list(orig[i])) for i in idx]


# ------------------------------------------------------------------ modes
def _run_gen(case, spec, F, RF):
    t, m, secrets = case['t'], case['m'], case['secrets']
    L, Li, sL = _split_list(spec, F, secrets, t, m, case['rnd'], case['sin'])
    N, Ni, sN = _split_np(spec, F, secrets, t, m, case['rnd'], case['nsin'])
    pL = _sharing_polys(RF, Li, secrets, t, sL, 'random_split')
    pN = _sharing_polys(RF, Ni, secrets, t, sN, 'np_random_split')
    idx, form, xs, rep = case['subset'], case['xform'], case['xs'], case['rep']
    coords = [i + 1 for i in idx]
    xr = [RF.conv(x) for x in xs]
    for name, orig, ints, polys in (('list-dealt', L, Li, pL), ('numpy-dealt', N, Ni, pN)):
        expect = [[SR.horner(RF, c, x) for c in polys] for x in xr]
        _rec_list(spec, F, coords, _rows(spec, F, orig, ints, idx, rep), form, xs, rep, expect, name)
        _rec_np(spec, F, coords, _nprows(orig, ints, idx), form, xs, expect, name)
    q = FS.order(spec)
    labels = ['prime' if 'f' not in spec else ('binary' if spec['p'] == 2 else 'ext'), 'gen', 'x:' + form,
              'rep:' + rep, 'sin:' + case['sin'], 'nsin:' + case['nsin']]
    labels.append('t=0' if t == 0 else ('t=m-1' if t == m - 1 else 't-mid'))
    labels.append('k=t+1' if len(idx) == t + 1 else ('k=m' if len(idx) == m else 'k-mid'))
    if m == q - 1:
        labels.append('m=q-1')
    if m > 8:
        labels.append('m>8')
    if q > 2 ** 60:
        labels.append('bigfield')
    for x in xr:
        labels.append('x=0' if x == 0 else ('x-in-subset' if x in [RF.conv(c) for c in coords] else
                                           ('x-other-party' if 0 < x <= m else 'x-other')))
    if any(not 0 <= x < q for x in xs):
        labels.append('x-unreduced-int')
    if any(c[-1] == 0 for c in pL) and t:
        labels.append('degree<t')
    nt = len(idx) < m or any(x != 0 for x in xr)
    return Outcome(True, labels=sorted(set(labels)), nontrivial=nt)


def _run_lagr(case, spec, F, RF):
    coords, vals, form, xs, rep = case['coords'], case['vals'], case['xform'], case['xs'], case['rep']
    n = len(vals[0])
    cx = [RF.conv(c) for c in coords]
    polys = [SR.newton_coeffs(RF, cx, [RF.conv(vals[i][h]) for i in range(len(coords))]) for h in range(n)]
    expect = [[SR.horner(RF, c, RF.conv(x)) for c in polys] for x in xs]
    ints = {i: [RF.conv(v) for v in vals[i]] for i in range(len(coords))}
    idx = list(range(len(coords)))
    _rec_list(spec, F, coords, _rows(spec, F, None, ints, idx, rep), form, xs, rep, expect, 'arbitrary values')
    _rec_np(spec, F, coords, [_objarray(_rows(spec, F, None, ints, [i], 'raw')[0]) for i in idx],
            form, xs, expect, 'arbitrary values')
    labels = ['prime' if 'f' not in spec else ('binary' if spec['p'] == 2 else 'ext'), 'lagr', 'x:' + form, 'rep:' + rep]
    if 0 in coords:
        labels.append('coord0')
    return Outcome(True, labels=labels, nontrivial=True)


def _run_exh(case, spec, F, RF):
    t, m = case['t'], case['m']
    q = FS.order(spec)
    rowsL = [[] for _ in range(m)]
    rowsN = [[] for _ in range(m)]
    intsL = [[] for _ in range(m)]
    intsN = [[] for _ in range(m)]
    polysL, polysN = [], []
    for idx, (s, vec) in enumerate(itertools.product(range(q), itertools.product(range(q), repeat=t))):
        L, Li, sL = _split_list(spec, F, [s], t, m, vec, 'elt' if idx % 2 else 'raw')
        N, Ni, sN = _split_np(spec, F, [s], t, m, vec, 'ndarray' if idx % 2 else 'array')
        polysL += _sharing_polys(RF, Li, [s], t, sL, f'random_split(secret {s}, coefficients {list(vec)})')
        polysN += _sharing_polys(RF, Ni, [s], t, sN, f'np_random_split(secret {s}, coefficients {list(vec)})')
        for i in range(m):
            rowsL[i].append(L[i][0])
            rowsN[i].append(N[i][0])
            intsL[i].append(Li[i][0])
            intsN[i].append(Ni[i][0])
    if len({tuple(c) for c in polysL}) != q ** (t + 1) or len({tuple(c) for c in polysN}) != q ** (t + 1):
        raise Fail('the q^(t+1) (secret, coefficient vector) pairs do not give q^(t+1) different polynomials')
    xs = list(range(q))
    expL = [[SR.horner(RF, c, x) for c in polysL] for x in xs]
    expN = [[SR.horner(RF, c, x) for c in polysN] for x in xs]
    nsub = 0
    for k in range(t + 1, m + 1):
        for sub in itertools.combinations(range(m), k):
            nsub += 1
            coords = [i + 1 for i in sub]
            rep = ('raw', 'elt', 'int' if 'f' in spec else 'raw')[nsub % 3]
            for name, orig, ints, exp in (('list-dealt', rowsL, intsL, expL), ('numpy-dealt', rowsN, intsN, expN)):
                who = f'{name}, all polynomials as columns'
                _rec_list(spec, F, coords, _rows(spec, F, orig, ints, sub, rep), 'list', xs, rep, exp, who)
                _rec_np(spec, F, coords, _nprows(orig, ints, sub), 'list', xs, exp, who)
                _rec_list(spec, F, coords, _rows(spec, F, orig, ints, sub, rep), 'default', [0], rep, exp[:1], who)
                _rec_np(spec, F, coords, _nprows(orig, ints, sub), 'int', [q - 1], exp[q - 1:], who)
    npoly = q ** (t + 1)
    n = npoly * nsub * q
    return Outcome(True, labels=['prime' if 'f' not in spec else ('binary' if spec['p'] == 2 else 'ext'), 'exh'],
                   n=n, n_nt=n - npoly, exhaustive=True)


def run_case(case):
    spec = case['field']
    try:
        F = FS.make(spec)
    except Exception as e:
        return Outcome(False, f'GF() refused valid field {spec}: {e!r}')
    RF = SR.RefField(spec)
    saved = thresha.secrets
    try:
        return {'gen': _run_gen, 'lagr': _run_lagr, 'exh': _run_exh}[case['mode']](case, spec, F, RF)
    except Fail as e:
        return Outcome(False, f'{spec}: {e}\ncase={str(case)[:1500]}')
    except Exception:
        return Outcome(False, f'exception on valid input: {traceback.format_exc()[-1800:]}\ncase={str(case)[:1500]}')
    finally:
        thresha.secrets = saved
