"""C17: the PRF is deterministic and its outputs lie in range.

Oracle: determinism (same instance twice, fresh equal-key instance), range, exact length/shape,
scalar == n-list[0] == shape-array.flat[0], array equals list, plus an independent
re-implementation from the documented construction (shake_128 of key||input, little-endian
chunks reduced modulo bound) as a differential reference.
"""
from hashlib import shake_128
from hypothesis import strategies as st
from vlib.boot import boot
from vlib.runner import Outcome

ID = 'C17'
LEVEL = 'exploration'
RULE = ('generated (key 0-64 bytes, bound in {1,2,2^k,2^k±1,random<2^300}, input bytes, n in None/0/1/.., '
        'shape); non-trivial = bound>2 and n>=2 or a shape with >=2 entries; distinct by case hash')
ASSUMPTIONS = ['numpy 2.5.3 from the offline wheelhouse is used for the shape/array variant']

boot(numpy=True)
from mpyc import thresha  # noqa: E402
from mpyc.numpy import np  # noqa: E402


def budget(tier):
    return dict(shards=16, examples=400 if tier == 'quick' else 8000)


@st.composite
def _bound(draw):
    k = draw(st.integers(0, 300))
    kind = draw(st.sampled_from(['pow2', 'pow2m1', 'pow2p1', 'rand', 'small']))
    if kind == 'pow2':
        return 1 << k
    if kind == 'pow2m1':
        return max(1, (1 << k) - 1)
    if kind == 'pow2p1':
        return (1 << k) + 1
    if kind == 'small':
        return draw(st.integers(1, 20))
    return draw(st.integers(1, 1 << 300))


def strategy(tier):
    shape = st.lists(st.integers(0, 5), min_size=1, max_size=3)
    return st.fixed_dictionaries(dict(
        key=st.binary(max_size=64).map(bytes.hex),
        bound=_bound(),
        s=st.binary(max_size=40).map(bytes.hex),
        n=st.one_of(st.none(), st.integers(0, 3), st.integers(0, 200)),
        shape=shape))


def ref_prf(key, bound, s, n):
    """Independent reference from the documented construction."""
    l = ((bound - 1).bit_length() + 7) // 8
    if bound & (bound - 1):
        l += len(key)
    if n == 0:
        return []
    if l == 0:
        return [0] * n
    dk = shake_128(key + s).digest(n * l)
    return [int.from_bytes(dk[i:i + l], 'little') % bound for i in range(0, n * l, l)]


def run_case(case):
    key, s = bytes.fromhex(case['key']), bytes.fromhex(case['s'])
    bound, n, shape = case['bound'], case['n'], tuple(case['shape'])
    labels = ['pow2' if not bound & (bound - 1) else 'nonpow2', f'n={"None" if n is None else min(n, 3)}']
    try:
        F = thresha.PRF(key, bound)
        G = thresha.PRF(bytes(key), bound)
        scalar = F(s)
        if scalar != F(s) or scalar != G(s):
            return Outcome(False, f'scalar output not deterministic: {case}')
        if not (isinstance(scalar, int) and 0 <= scalar < bound):
            return Outcome(False, f'scalar {scalar!r} not in range({bound})')
        size = 1
        for d in shape:
            size *= d
        nn = 1 if n is None else n
        want = ref_prf(key, bound, s, max(nn, size, 1))
        if scalar != want[0]:
            return Outcome(False, f'scalar {scalar} differs from reference {want[0]}')
        if n is not None:
            lst = F(s, n)
            if lst != F(s, n) or lst != G(s, n):
                return Outcome(False, 'list output not deterministic')
            if not isinstance(lst, list) or len(lst) != n:
                return Outcome(False, f'asked {n} values, got {len(lst)}')
            if any(not (0 <= v < bound) for v in lst):
                return Outcome(False, f'value out of range({bound}) in {lst[:5]}')
            if lst != want[:n]:
                return Outcome(False, f'list differs from reference: {lst[:3]} vs {want[:3]}')
            if n >= 1 and lst[0] != scalar:
                return Outcome(False, f'F(s,n)[0]={lst[0]} != F(s)={scalar}')
        arr = F(s, shape)
        if not isinstance(arr, np.ndarray) or arr.shape != shape:
            return Outcome(False, f'shape {shape} requested, got {getattr(arr, "shape", None)}')
        flat = [int(v) for v in arr.reshape(-1)]
        if flat != F(s, size):
            return Outcome(False, 'array variant differs from list variant')
        if flat != want[:size]:
            return Outcome(False, 'array differs from reference')
        if size and flat[0] != scalar:
            return Outcome(False, 'array.flat[0] differs from scalar')
        if any(not (0 <= v < bound) for v in flat):
            return Outcome(False, 'array value out of range')
        arr2 = G(s, shape)
        if [int(v) for v in arr2.reshape(-1)] != flat:
            return Outcome(False, 'array output not deterministic')
    except Exception as e:  # valid inputs: any exception is a failure of the code under test
        import traceback
        return Outcome(False, f'exception on valid input {case}: {traceback.format_exc()[-1500:]}')
    nt = bound > 2 and ((n or 0) >= 2 or size >= 2)
    return Outcome(True, labels=labels, nontrivial=nt)
