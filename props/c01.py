"""C01: secure integer operations are exact in every party configuration."""
from hypothesis import strategies as st
from vlib import progs
from vlib.runner import Outcome

ID = 'C01'
LEVEL = 'exploration'
RULE = ('generated (m,t,PRSS,l) x constructive straight-line programs over SecInt(l) (all ops of the '
        'statement, inputs from generated senders, extremes weighted) run in the in-process m-party '
        'simulator and compared node-by-node with Python int arithmetic at every party; non-trivial = '
        'm>=3, t>=1, some input dealt by a party and an op that reshares/opens; distinct by case hash')
ASSUMPTIONS = ['sec_param k=30: probabilistic zero test may err with probability <= 2^-30 per use (only for l/2 > k)',
               'comparison operands generated with differences inside l bits (implicit precondition of sgn)']


TIMEOUT_INCONCLUSIVE = True  # hangs are decided by quiescence in the simulator, not by the wall clock


def budget(tier):
    return dict(shards=16, examples=100 if tier == 'quick' else 600)


@st.composite
def _case(draw, tier):
    m, t, prss = draw(progs.config())
    ls = [2, 3, 4, 5, 6, 8, 8, 10, 12, 16] + ([24, 32, 64] if tier == 'thorough' else [])
    l = draw(st.sampled_from(ls))
    heavy = draw(st.integers(0, 3)) == 0 and l <= 8 and m <= 5
    nodes = draw(progs.int_program(m, l, max_nodes=8 if tier == 'quick' else 20, heavy=heavy))
    sched = draw(progs.schedule(m, rich=draw(st.integers(0, 2)) == 0))  # a third of the cases under adversarial schedules
    return dict(m=m, t=t, prss=prss, l=l, seed=draw(st.integers(0, 2**20)), nodes=nodes, sched=sched,
                cli_t=draw(progs.cli_threshold(m, t)))


def strategy(tier):
    return _case(tier)


def run_case(case):
    if not progs.is_valid(case['nodes'], case['l']):
        return Outcome(True, skipped=True, nontrivial=False, labels=['invalid-program'])
    sim, res, ref = progs.run_int_case(case)
    feats = progs.program_features(case['nodes'], case['m'], case['t'])
    labels = [f"m={case['m']}", f"t={case['t']}", f"prss={case['prss']}", f"l={case['l']}"] + feats['ops']
    if res.inconclusive:
        return Outcome(True, inconclusive=True, labels=labels, nontrivial=False)
    if not res.all_done:
        return Outcome(False, f'run did not complete: {res.describe()}\ncase={case}', labels=labels)
    for i, v in enumerate(res.values):
        msg = progs.compare(case['nodes'], ref, v['outs'])
        if msg:
            return Outcome(False, f'party {i}: {msg}\ncase={case}', labels=labels)
    if any(v['outs'] != res.values[0]['outs'] for v in res.values) and not _only_gcdext_differs(case, res):
        return Outcome(False, f'parties disagree: {[v["outs"] for v in res.values]}', labels=labels)
    nt = case['m'] >= 3 and case['t'] >= 1 and feats['reshaping'] and bool(feats['senders'])
    return Outcome(True, labels=labels, nontrivial=nt)


def _only_gcdext_differs(case, res):
    # all parties run the same deterministic protocol on the same opened values: outputs are equal
    return False
