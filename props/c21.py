"""C21: field square roots and quadratic-residue tests are correct."""
from hypothesis import strategies as st
from vlib.boot import boot
from vlib.runner import Outcome
from vlib import fields as FS, refmath as R

ID = 'C21'
LEVEL = 'exploration'
RULE = ('fields: GF(p) with p=3 mod 4, p=1 mod 4 (incl. p=1 mod 8, high 2-adicity like 12289, 40961, 65537), '
        'GF(p^n) with q=1,3 mod 4, GF(2^n); all elements exhaustively for q<=1024 (quick) / 5000 (thorough) with '
        'a brute-force square set as oracle, generated elements beyond (Euler criterion as oracle); '
        'non-trivial = a is a nonzero square (sqrt and inverse sqrt both exercised)')
ASSUMPTIONS = ['large fields: oracle for squareness is Euler\'s criterion computed with Python pow / reference field']

boot(numpy=False)
CASE_TIMEOUT = 60


def budget(tier):
    return dict(shards=16, examples=150 if tier == 'quick' else 3000)


def enumerate_cases(tier):
    lim = 1024 if tier == 'quick' else 5000
    for p in FS.SMALL_PRIMES + [257, 769, 1009, 1013, 1021, 4093, 4099]:
        if p <= lim:
            yield {'mode': 'exh', 'field': {'p': p}}
    for p, n in FS.SMALL_EXT:
        if n >= 2 and p ** n <= lim:
            for f in FS.some_irreducibles(p, n, 2):
                yield {'mode': 'exh', 'field': {'p': p, 'f': list(f)}}


@st.composite
def _case(draw):
    spec = draw(FS.field_spec())
    q = FS.order(spec)
    xs = draw(st.lists(FS.elem_strategy(spec), min_size=1, max_size=4))
    return {'mode': 'gen', 'field': spec, 'xs': xs}


def strategy(tier):
    return _case()


def _check(spec, F, rf, ia, is_square):
    a = F(ia)
    if bool(a.is_sqr()) != is_square:
        return f'is_sqr({ia}) = {a.is_sqr()}, expected {is_square}'
    if not is_square:
        return None
    r = a.sqrt()
    if not isinstance(r, F) or r * r != a:
        return f'sqrt({ia})^2 = {r * r} != {a}'
    if ia % FS.order(spec) == 0 or not a:
        try:
            a.sqrt(INV=True)
        except ZeroDivisionError:
            return None
        return 'sqrt(0, INV=True) did not raise ZeroDivisionError'
    s = a.sqrt(INV=True)
    if not isinstance(s, F) or s * s * a != F(1):
        return f'sqrt({ia}, INV=True)^2 * a = {s * s * a} != 1'
    # s is the inverse of a square root of a
    if (s * r) not in (F(1), -F(1)):
        return f'sqrt({ia},INV)*sqrt({ia}) = {s * r} is not +-1'
    return None


def run_case(case):
    spec = case['field']
    F = FS.make(spec)
    q = FS.order(spec)
    p = spec['p']
    rf = FS.ref(spec)
    label = 'prime' if 'f' not in spec else ('binary' if p == 2 else 'ext')
    label += '' if q % 2 == 0 else f':q%8={q % 8}'
    try:
        if case['mode'] == 'exh':
            squares = set()
            for x in range(q):
                e = F(x)
                squares.add(int((e * e).value) if 'f' not in spec else int(e * e))
            # independent square set: via reference arithmetic
            if 'f' in spec:
                refsq = {R.pto_int(rf.mul(e, e), p) for e in rf.elems()}
            else:
                refsq = {x * x % p for x in range(p)}
            nt = 0
            for x in range(q):
                msg = _check(spec, F, rf, x, x in refsq)
                if msg:
                    return Outcome(False, f'{spec}: {msg}', labels=[label])
                nt += (x in refsq and x != 0)
            return Outcome(True, labels=[label, 'exh'], n=q, n_nt=nt, exhaustive=True)
        nt = False
        for x in case['xs']:
            if 'f' not in spec:
                sq = p == 2 or x % p == 0 or pow(x, (p - 1) // 2, p) == 1
            else:
                e = rf.red(R.pfrom_int(x, p))
                sq = q % 2 == 0 or not e or rf.pow(e, (q - 1) // 2) == (1,)
            msg = _check(spec, F, rf, x, sq)
            if msg:
                return Outcome(False, f'{spec}: {msg}\ncase={case}', labels=[label])
            nt = nt or (sq and x % q != 0)
        return Outcome(True, labels=[label, 'gen'], nontrivial=nt)
    except Exception:
        import traceback
        return Outcome(False, f'exception on valid input: {traceback.format_exc()[-1500:]}\ncase={case}', labels=[label])
