"""C34: secure statistics agree with Python's statistics module.

A case is one data set (plus an optional second data set y and optional xbar/mu arguments) of secure
integers, secure fixed-point numbers (or, for the error paths, secure field elements), dealt as genuine
sharings by generated senders in the m-party simulator, and 1-4 calls of functions of mpyc.statistics on
it.  Every opened result is compared with Python's statistics module evaluated on exact Fractions:

* secure integers: mean, variance, pvariance, covariance, the even-length median and every quantile cut
  point lie within 1/2 of the exact value ("rounded to the nearest integer", either tie direction);
  stdev/pstdev equal isqrt(v) for an integer v within 1/2 of the exact variance; median_low/high and odd
  medians are the exact order statistics; mode is the first most common value (Python's rule and the
  docstring); correlation and linear_regression raise TypeError (fixed-point only, explicit in the code).
* secure fixed-point numbers: order statistics and mode are exact; every other result must lie in the
  interval obtained by evaluating the formula stated/implied by the module (mean = sum/n, variance =
  sum (x-mean)^2/(n-c), stdev = sqrt, covariance, correlation, regression) in an error-tracking interval
  arithmetic with the per-operation tolerances of the fixed-point contract (C02): sums exact, secure
  product +-1 unit (dot product of n terms: n units), public float factor 2(1+|x|) units, secure division
  16(1+|x|)max(1,1/|y|) units (relative bound), square root: sqrt(a +- (e_a+1 unit)) +- 2 units.  The
  interval always contains Python's exact result.  If an intermediate interval leaves the representable
  range or a secure divisor may be below one unit the result is unconstrained (counted, not checked).
* exceptions: StatisticsError exactly where Python raises it from the public shape of the call (empty or
  too short data, unequal lengths, n < 1), ValueError for an unknown method, TypeError for secure field
  elements.  Constant x (Python raises from the *values*) cannot be mirrored on secret data: unconstrained.
* plain (non-secure) data: the call must behave exactly like the same function of Python's module.
"""
import math
import statistics as pst
import sys
import traceback
from fractions import Fraction as Fr
from hypothesis import strategies as st
from vlib.boot import boot
boot(numpy=False)
from vlib import sim as simmod          # noqa: E402
from vlib.runner import Outcome         # noqa: E402
from mpyc import statistics as mst      # noqa: E402
from mpyc import sectypes as _sectypes  # noqa: E402

ID = 'C34'
LEVEL = 'exploration'
RULE = ('generated data sets of size 0..12 (duplicates, negatives, constant, two-point, clustered, extreme values, '
        'sample ranges 2^k-1 and 2^k for mode, one/two-point sets whose squared deviations nearly fill the type range; '
        'second data set independent / linearly related / constant) of SecInt(16..64) and SecFxp((16,8)..(64,32), '
        'also l>2f) with uniform integral flags, dealt by generated senders under (m,t,PRSS) configurations (m=1 '
        'about half, else m=2..5 mostly t>=1), 1-4 calls per case of mean, median, median_low, median_high, quantiles '
        '(n in 1..8, both methods), mode, variance, stdev, pvariance, pstdev (xbar/mu absent, secure, the secure mean, '
        'public int for integers), covariance, correlation, linear_regression, data passed as list or iterator; plus '
        'fixed cells (all functions x 2 data sets x 3 configurations, full quantiles grid), plain-data relay cases '
        'and shape/type error cases. Oracle: Python statistics on exact Fractions; integers '
        'within 1/2 (isqrt of an admissible variance for stdev), order statistics and mode exact, fixed point within '
        'the propagated interval of the error-tracking reference arithmetic. Non-trivial = secure data with n>=2 (or '
        'an explicit mu) and at least one numerically constrained result compared; distinct by case hash')
ASSUMPTIONS = [
    'reference: Python statistics (3.11+ formulas: variance(data, xbar) = sum (x-xbar)^2/(n-1)) on exact Fractions; '
    'covariance/correlation/regression by the textbook rational formulas (Python returns floats there)',
    'per-operation fixed-point tolerances are those of property C02 (division: the relative bound of finding F6); '
    'a dot product of n terms is allowed n units',
    'xbar/mu for secure data is a secure number of the same type (or a public int for secure integers); all '
    'elements of a fixed-point data set carry the same integral flag, and integral=True only for whole values',
    'intermediates in range: |x| bounded so that sum (x-c)^2 (fixed point) resp. n^2 sum (x-mean)^2 (integers) stays inside the type range',
    'constant x in correlation/linear_regression and intermediates outside the type range are unconstrained',
    'sec_param=30: probabilistic comparisons/truncations fail with probability <= 2^-30 per operation',
]
CASE_TIMEOUT = 600

SINGLE = ('mean', 'median', 'median_low', 'median_high', 'mode')
SPREAD = ('variance', 'stdev', 'pvariance', 'pstdev')
REL = ('covariance', 'correlation', 'linear_regression')
INT_L = [32, 16, 64, 24, 32, 48, 16, 32]
FXP_T = [[32, 16], [16, 8], [64, 32], [24, 12], [48, 24], [32, 16], [32, 16], [32, 8], [24, 8], [40, 16]]
FLD_P = 101


def budget(tier):
    return dict(shards=16, examples=60 if tier == 'quick' else 700)


def enumerate_cases(tier):
    """Deterministic cells: every function on two fixed data sets for both types under three configurations,
    and the complete quantiles grid n=1..8 x both methods x data sizes 2..7 (m=1)."""
    xi = [[7, -3, 7, 12, -9], [-6, 4, 4, 9, 15, -6]]
    yi = [[2, 5, -8, 11, 0], [-3, 8, 1, 1, -12, 6]]
    seed = 0
    for m, t, prss in ((1, 0, True), (3, 1, True), (3, 1, False)):
        for x, y in zip(xi, yi):
            for stype in ('int', 'fxp'):
                sc = 1 if stype == 'int' else 1 << 16
                off = 0 if stype == 'int' else 12345
                for fns in (['mean', 'median', 'median_low', 'median_high'], ['mode', 'variance', 'stdev'],
                            ['pvariance', 'pstdev', 'covariance'], ['correlation', 'linear_regression']):
                    calls = []
                    for fn in fns:
                        c = {'fn': fn}
                        if fn in SPREAD:
                            c['mu'] = 'none'
                        if fn not in REL:
                            c['it'] = False
                        calls.append(c)
                    seed += 1
                    integral = stype == 'fxp' and 'mode' in fns
                    case = dict(kind='sec', st=stype, m=m, t=t, prss=prss, seed=seed, sx=0, sy=m - 1, l=32,
                                x=[v * sc + (0 if integral else off) for v in x],
                                y=[v * sc - (0 if integral else off) for v in y], calls=calls)
                    if stype == 'fxp':
                        case.update(f=16, integral=integral)
                    yield case
    # one/two-point data whose variance lies in the upper half of the type range (square roots near the top)
    for stype, l, f in (('int', 16, 0), ('int', 32, 0), ('fxp', 16, 8), ('fxp', 32, 16), ('fxp', 64, 32), ('fxp', 32, 8)):
        R = 1 << (l - 1 + f)
        for frac in (60, 95):
            D1 = math.isqrt(frac * R // 100)
            D2 = math.isqrt(2 * frac * R // 100) // 2 * 2
            for x, calls in (([-(D1 // 2)], [{'fn': 'pstdev', 'mu': 'sec', 'it': False, 'muval': D1 - D1 // 2, 'smu': 0},
                                             {'fn': 'pvariance', 'mu': 'sec', 'it': False, 'muval': D1 - D1 // 2, 'smu': 0}]),
                             ([D2 // 2 + 1, 1 - D2 // 2], [{'fn': 'stdev', 'mu': 'sec', 'it': False, 'muval': 1, 'smu': 0},
                                                           {'fn': 'variance', 'mu': 'sec', 'it': True, 'muval': 1, 'smu': 0}] +
                              ([{'fn': 'stdev', 'mu': 'none', 'it': False}] if stype == 'fxp' else []))):
                seed += 1
                case = dict(kind='sec', st=stype, m=1, t=0, prss=True, seed=seed, sx=0, sy=0, l=l, top=True, x=x, calls=calls)
                if stype == 'fxp':
                    case.update(f=f, integral=False)
                yield case
    for stype in ('int', 'fxp'):
        for ld in range(2, 8):
            x = [(5 * i * i - 17 * i) % 23 - 11 for i in range(ld)]
            for method in ('inclusive', 'exclusive'):
                for ns in ([1, 2, 3, 4], [5, 6, 7, 8]):
                    seed += 1
                    case = dict(kind='sec', st=stype, m=1, t=0, prss=True, seed=seed, sx=0, sy=0, l=32,
                                x=[v if stype == 'int' else v * 65536 + 4321 * v for v in x],
                                calls=[{'fn': 'quantiles', 'n': n, 'method': method, 'it': False} for n in ns])
                    if stype == 'fxp':
                        case.update(f=16, integral=False)
                    yield case


# ------------------------------------------------------------------------------------------ bounds
def int_bound(l, n):
    """|x| <= B guarantees n (2nB)^2 < 2^(l-1): every intermediate of the integer formulas is an l-bit integer."""
    return math.isqrt(15 * (1 << (l - 7)) // max(1, n) ** 3)


def fxp_bound(l, f, n):
    """Bound on |raw x| so that sum (x-c)^2 < 2^(l-f-1) (the type range) for |c| <= bound."""
    return math.isqrt(15 * (1 << (l + f - 7)) // max(1, n))


def invalid(case):
    """Reason why the case violates the preconditions (None if valid): every documented intermediate
    (sums, sums of squared deviations, interpolation products) must fit the secure type."""
    stype, m, t = case['st'], case['m'], case['t']
    x, y, calls = case['x'], case.get('y', []), case['calls']
    n = len(x)
    if not (0 <= case['sx'] < m and 0 <= case['sy'] < m) or (m > 1 and 2 * t >= m):
        return 'configuration'
    vals = list(x) + list(y) + [c['muval'] for c in calls if 'muval' in c]
    if stype == 'fld':
        return None if m == 1 and all(abs(v) <= FLD_P // 2 for v in vals) else 'field data'
    l, f = case['l'], case.get('f', 0)
    top = Fr(97, 100) * (1 << (l - 1))          # raw values
    top2 = Fr(97, 100) * (1 << (l - 1 + f))     # raw products before truncation by 2^f
    if any(abs(v) >= 1 << (l - 2) for v in vals) or max(n, len(y)) * max([abs(v) for v in vals] + [0]) >= top:
        return 'values/sums out of range'
    if stype == 'fxp' and case['integral'] and any(v % (1 << f) for v in vals):
        return 'integral flag on non-whole value'

    def ss(d, c=None):
        c = Fr(sum(d), len(d)) if c is None else c
        return sum((v - c) ** 2 for v in d)
    for c in calls:
        fn = c['fn']
        if shape_error(c, n, len(y)):
            continue
        if fn in SPREAD:
            if c['mu'] in ('sec', 'pub'):
                bad = ss(x, c['muval']) > top2
            elif c['mu'] == 'smean' or stype == 'fxp':
                bad = ss(x) + n * (1 << f) > top2
            else:
                bad = n * n * ss(x) > top2
            if bad:
                return 'sum of squared deviations out of range'
        elif fn in REL:
            k = n * n if stype == 'int' else 1
            if k * ss(x) > top2 or k * ss(y) > top2:
                return 'sum of squared deviations out of range'
        elif fn == 'quantiles' and c['method'] in ('inclusive', 'exclusive'):
            if (2 * (max(x) - min(x)) + 1) * c['n'] >= top:
                return 'interpolation product out of range'
        elif fn == 'mode' and max(x) - min(x) > 255 << f:
            return 'mode: sample range too large for this harness'
    return None


# ------------------------------------------------------------------------------------------ generator
def _values(draw, n, B, step, small):
    """n raw values in [-B, B], multiples of step; shapes weighted toward duplicates and extremes."""
    Bs = B // step
    if Bs < 1:
        return [0] * n
    shape = draw(st.sampled_from(['uniform', 'uniform', 'narrow', 'narrow', 'constant', 'two', 'extreme', 'cluster']))
    wmax = min(Bs, 31) if small else Bs
    if small and 2 * Bs > 32 and draw(st.integers(0, 5)) == 0:
        # sample range exactly 2^k - 1 or 2^k: boundaries of mode()'s histogram length
        k = draw(st.sampled_from([k for k in (5, 5, 6, 6, 7) if 2 * Bs > 1 << k]))
        rng = (1 << k) - draw(st.sampled_from([1, 1, 0]))
        lo = draw(st.integers(-Bs, Bs - rng))
        vals = [lo + draw(st.sampled_from([0, rng, rng, rng - 1, 1, draw(st.integers(0, rng))])) for _ in range(n)]
    elif shape == 'constant':
        c = draw(st.integers(-Bs, Bs))
        vals = [c] * n
    elif shape == 'two':
        a, b = draw(st.integers(-Bs, Bs)), draw(st.integers(-Bs, Bs))
        if small and abs(a - b) > 2 * wmax:
            b = a + (2 * wmax if a <= 0 else -2 * wmax)
        vals = [draw(st.sampled_from([a, b])) for _ in range(n)]
    elif shape == 'extreme' and not small:
        vals = [draw(st.sampled_from([-Bs, Bs, Bs - 1, 1 - Bs, 0, Bs])) for _ in range(n)]
    else:
        if shape == 'narrow':
            w = min(wmax, draw(st.sampled_from([1, 1, 2, 2, 3, 5])))
        elif shape == 'cluster':
            w = min(wmax, draw(st.sampled_from([1, 2, 8])))
        else:
            w = min(wmax, draw(st.sampled_from([wmax, wmax, max(1, wmax // 7), 20, 100])))
        c = draw(st.integers(-(Bs - w), Bs - w)) if shape != 'narrow' or draw(st.booleans()) else 0
        c = max(-(Bs - w), min(Bs - w, c))
        vals = [c + draw(st.integers(-w, w)) for _ in range(n)]
    return [v * step for v in vals]


def first_mode(vals):
    """Python's rule: the first encountered among the most common values."""
    cnt = {}
    for v in vals:
        cnt[v] = cnt.get(v, 0) + 1
    top = max(cnt.values())
    for v in vals:
        if cnt[v] == top:
            return v, min(k for k in cnt if cnt[k] == top), sum(1 for k in cnt if cnt[k] == top)


@st.composite
def _call(draw, stype):
    fn = draw(st.sampled_from(list(SINGLE) + ['quantiles', 'quantiles', 'mode'] + list(SPREAD) + list(REL)))
    c = {'fn': fn}
    if fn == 'quantiles':
        c['n'] = draw(st.sampled_from([1, 2, 3, 4, 4, 5, 6, 7, 8, 1, 2, 3, 4, 5, 6, 7, 8, 0, -1]))
        c['method'] = draw(st.sampled_from(['inclusive', 'exclusive'] * 12 + ['bogus']))
    if fn in SPREAD:
        c['mu'] = draw(st.sampled_from(['none', 'none', 'none', 'smean', 'sec', 'sec'] +
                                       (['pub'] if stype == 'int' else [])))
    if fn not in REL:
        c['it'] = draw(st.sampled_from([False, False, True]))
    return c


@st.composite
def _secure_case(draw, tier):
    stype = draw(st.sampled_from(['int'] * 8 + ['fxp'] * 11 + ['fld']))
    if draw(st.integers(0, 99)) < 50 or stype == 'fld':
        m, t = 1, 0
    else:
        m = draw(st.sampled_from([2, 3, 3, 3, 3, 4, 5]))
        tmax = (m - 1) // 2
        t = draw(st.sampled_from([tmax, tmax, tmax, 0]))
    prss = draw(st.booleans())
    n = draw(st.sampled_from([0, 1, 1, 2, 2, 2, 3, 3, 4, 4, 5, 5, 6, 6, 7, 8, 8, 9, 10, 11, 12, 12]))
    calls = draw(st.lists(_call(stype), min_size=1, max_size=4 if m < 4 else 2))   # cost cap for m >= 4
    fns = {c['fn'] for c in calls}
    small = 'mode' in fns
    case = dict(kind='sec', st=stype, m=m, t=t, prss=prss, seed=draw(st.integers(0, 2**30)),
                sx=draw(st.integers(0, m - 1)), sy=draw(st.integers(0, m - 1)))
    if stype == 'int':
        l = draw(st.sampled_from(INT_L))
        if l > 32 and (m >= 4 or (m >= 2 and len(calls) > 2)):
            l = 32                                # cost cap: wide types with many parties/calls
        B, step, f, integral = int_bound(l, n), 1, 0, None
        case.update(l=l)
    elif stype == 'fxp':
        l, f = draw(st.sampled_from(FXP_T if not fns & {'correlation', 'linear_regression'} else FXP_T[:7]))
        if l > 32 and (m >= 4 or (m >= 2 and len(calls) > 2)):
            l, f = 32, 16                         # cost cap: wide types with many parties/calls
        B = fxp_bound(l, f, n)
        integral = B >= 2 << f and draw(st.sampled_from([False, False, True] if not small else [True, True, False]))
        whole = integral or (B >= 2 << f and draw(st.integers(0, 9)) == 0)   # whole values, flag possibly False
        step = 1 << f if whole else 1
        case.update(l=l, f=f, integral=bool(integral))
    else:
        B, step, f, integral = FLD_P // 2, 1, 0, None
    x = _values(draw, n, B, step, small)
    if n and draw(st.integers(0, 9)) < 3:       # exact mean representable (ties, exact xbar)
        for _ in range((sum(x) // step) % n):
            i = max(range(n), key=lambda j: (x[j], j))
            x[i] -= step
    if 'mode' in fns and n:
        fm, mn, k = first_mode(x)
        if fm != mn and draw(st.integers(0, 9)) < 7:      # mostly stay out of the F10 class
            i = x.index(mn)
            x[0], x[i] = x[i], x[0]
    if fns & set(SPREAD) and stype != 'fld' and draw(st.integers(0, 5)) == 0:
        # top of the range: one or two points whose sum of squared deviations nearly fills the type
        n = draw(st.sampled_from([1, 2, 2]))
        R = 1 << (l - 1 + f)
        T = draw(st.integers((55 if draw(st.integers(0, 3)) else 30) * R // 100, 96 * R // 100))
        calls = [c for c in calls if c['fn'] in SPREAD + ('mean', 'median', 'median_high')]
        fns = {c['fn'] for c in calls}
        sh = draw(st.integers(-3, 3)) * step
        if n == 1:
            D = math.isqrt(T) // step * step
            x = [-(D // 2) // step * step + sh]
            mu, muval = 'sec', x[0] + D
        else:
            D = math.isqrt(2 * T) // (2 * step) * (2 * step)
            x = [-(D // 2) + sh, -(D // 2) + sh + D]
            mu, muval = ('sec', x[0] + D // 2) if stype == 'int' or draw(st.booleans()) else ('none', None)
            if draw(st.booleans()):
                x.reverse()
        for c in calls:
            if c['fn'] in SPREAD:
                c['mu'] = mu
                c.pop('muval', None)
                if mu == 'sec':
                    c['muval'] = muval
        case['top'] = True
    case['x'] = x
    if fns & set(REL):
        ny = n if draw(st.integers(0, 19)) else draw(st.integers(0, 12))
        rel = draw(st.sampled_from(['indep', 'indep', 'linear', 'same', 'neg', 'const']))
        if rel == 'indep' or ny != n:
            y = _values(draw, ny, B, step, False)
        elif rel == 'same':
            y = list(x)
        elif rel == 'neg':
            y = [-v for v in x]
        elif rel == 'const':
            y = [draw(st.integers(-(B // step), B // step)) * step] * n
        else:
            a = draw(st.sampled_from([1, -1, 2, -2, 3]))
            Bs = B // step
            b = draw(st.integers(-(Bs // 4), Bs // 4))
            noise = draw(st.sampled_from([0, 0, 1, 3]))
            y = [max(-Bs, min(Bs, a * (v // step) // 2 + b + draw(st.integers(-noise, noise)))) * step for v in x]
        case['y'] = y
    for c in calls:
        mu = c.get('mu')
        if case.get('top'):
            if mu == 'sec':
                c['smu'] = draw(st.integers(0, m - 1))
            continue
        if mu in ('sec', 'pub'):
            ustep = 1 if stype != 'fxp' else step
            if mu == 'pub':
                ustep = 1
            if c['fn'] in ('variance', 'stdev') or draw(st.integers(0, 3)) == 0:
                # xbar "should be the mean of data": exact mean when representable, else absent
                if n and sum(x) % (n * ustep) == 0:
                    c['muval'] = sum(x) // n
                else:
                    c['mu'] = 'none'
            else:
                c['muval'] = draw(st.integers(-(B // ustep), B // ustep)) * ustep
            if c['mu'] != 'none':
                c['smu'] = draw(st.integers(0, m - 1))
    case['calls'] = calls
    return case


@st.composite
def _plain_case(draw, tier):
    fn = draw(st.sampled_from(list(SINGLE) + ['median_low', 'median_high', 'quantiles'] + list(SPREAD) + list(REL)))
    n = draw(st.sampled_from([0, 1, 2, 3, 4, 5, 6, 7, 8]))
    frac = draw(st.booleans())
    den = draw(st.sampled_from([2, 3, 4, 10])) if frac else 1
    x = [draw(st.integers(-20, 20)) for _ in range(n)]
    if fn in ('median_low', 'median_high') and n % 2 == 0 and n and draw(st.integers(0, 9)) < 8:
        x = x[:-1]                                 # mostly stay out of the F34a class
    c = dict(kind='plain', fn=fn, x=x, den=den, it=draw(st.booleans()) and fn not in REL)
    if fn in REL:
        ny = len(x) if draw(st.integers(0, 9)) else draw(st.integers(0, 8))
        c['y'] = [draw(st.integers(-20, 20)) for _ in range(ny)]
    if fn == 'quantiles':
        c['n'] = draw(st.integers(0, 8))
        c['method'] = draw(st.sampled_from(['inclusive', 'exclusive', 'inclusive', 'exclusive', 'bogus']))
    if fn in SPREAD and draw(st.booleans()):
        c['muval'] = draw(st.integers(-20, 20))
    return c


@st.composite
def _case(draw, tier):
    if draw(st.integers(0, 11)) == 11:
        return draw(_plain_case(tier))
    return draw(_secure_case(tier))


def strategy(tier):
    return _case(tier)


# ------------------------------------------------------------------------------------------ intervals
class Iv:
    """Closed interval of Fractions containing the value a correct implementation may have computed."""
    __slots__ = ('lo', 'hi')

    def __init__(self, lo, hi=None):
        self.lo = Fr(lo)
        self.hi = Fr(lo if hi is None else hi)

    def mag(self):
        return max(abs(self.lo), abs(self.hi))

    def mig(self):
        return Fr(0) if self.lo <= 0 <= self.hi else min(abs(self.lo), abs(self.hi))

    def __add__(self, o):
        return Iv(self.lo + o.lo, self.hi + o.hi)

    def __sub__(self, o):
        return Iv(self.lo - o.hi, self.hi - o.lo)

    def widen(self, e):
        return Iv(self.lo - e, self.hi + e)

    def scale(self, q):
        a, b = self.lo * q, self.hi * q
        return Iv(min(a, b), max(a, b))

    def mul(self, o):
        if self is o:
            if self.lo <= 0 <= self.hi:
                return Iv(0, self.mag() ** 2)
            return Iv(self.mig() ** 2, self.mag() ** 2)
        ps = [self.lo * o.lo, self.lo * o.hi, self.hi * o.lo, self.hi * o.hi]
        return Iv(min(ps), max(ps))

    def quo(self, o):
        qs = [self.lo / o.lo, self.lo / o.hi, self.hi / o.lo, self.hi / o.hi]
        return Iv(min(qs), max(qs))

    def has(self, v):
        return self.lo <= v <= self.hi


_P = 96


def sqrt_lo(q):
    return Fr(math.isqrt(math.floor(q * (1 << 2 * _P))), 1 << _P)


def sqrt_hi(q):
    return Fr(math.isqrt(math.ceil(q * (1 << 2 * _P))) + 1, 1 << _P)


class Unconstrained(Exception):
    pass


class ReferenceBug(Exception):
    """The check's own reference disagrees with Python: a harness error, never a violation."""


class FX:
    """Error-tracking reference arithmetic for SecFxp(l, f) (tolerances in units u = 2^-f)."""

    def __init__(self, l, f):
        self.u = Fr(1, 1 << f)
        self.lim = Fr(1 << (l - f - 1))

    def chk(self, a):
        if a.mag() >= self.lim:
            raise Unconstrained('intermediate may leave the type range')
        return a

    def prod(self, a, b):
        return self.chk(a.mul(b).widen(self.u))

    def inprod(self, xs, ys):
        s = Iv(0)
        for a, b in zip(xs, ys):
            s = s + a.mul(b)
        return self.chk(s.widen(len(xs) * self.u))

    def pubf(self, a, b, beta):
        """a * (public float b), ideal factor beta."""
        e = 2 * (1 + a.mag()) * self.u + a.mag() * abs(Fr(b) - beta)
        return self.chk(a.scale(beta).widen(e))

    def divpub(self, a, d):
        return self.pubf(a, 1 / d, Fr(1, d))

    def div(self, a, b):
        if b.mig() < self.u:
            raise Unconstrained('secure divisor may be below one unit')
        e = 16 * (1 + a.mag()) * max(Fr(1), 1 / b.mig()) * self.u
        return self.chk(a.quo(b).widen(e))

    def sqrt(self, a):
        lo = max(Fr(0), sqrt_lo(max(Fr(0), a.lo - self.u)) - 2 * self.u)
        hi = sqrt_hi(max(Fr(0), a.hi) + self.u) + 2 * self.u
        return self.chk(Iv(lo, hi))

    def mean(self, xs):
        n = len(xs)
        s = self.chk(sum(xs, Iv(0)))
        e = n.bit_length() - 1
        c1 = self.pubf(s, 2**e / n, Fr(2**e, n))
        return self.pubf(c1, 2**-e, Fr(1, 2**e))

    def var(self, xs, mu, corr):
        n = len(xs)
        if mu is None:
            mu = self.mean(xs)
        ys = [self.chk(a - mu) for a in xs]
        return self.divpub(self.inprod(ys, ys), n - corr)

    def centered(self, xs):
        n = len(xs)
        bar = self.divpub(self.chk(sum(xs, Iv(0))), n)
        return bar, [self.chk(a - bar) for a in xs]


# ------------------------------------------------------------------------------------------ reference
def exact_var(x, mu, corr):
    n = len(x)
    if mu is None:
        mu = sum(x, Fr(0)) / n
    return sum(((a - mu) ** 2 for a in x), Fr(0)) / (n - corr)


def exact_rel(x, y):
    n = len(x)
    xb, yb = sum(x, Fr(0)) / n, sum(y, Fr(0)) / n
    sxy = sum(((a - xb) * (b - yb) for a, b in zip(x, y)), Fr(0))
    sxx = sum(((a - xb) ** 2 for a in x), Fr(0))
    syy = sum(((b - yb) ** 2 for b in y), Fr(0))
    return xb, yb, sxy, sxx, syy


def _xcheck(case, fn, x, y, *vals):
    """Tie the rational formulas to Python's own (float) results where floats are accurate enough."""
    if case['l'] > 32:
        return
    r = getattr(pst, fn)(x, y)
    r = list(r) if isinstance(r, tuple) else [r]
    for a, b in zip(r, vals):
        if abs(a - float(b)) > 1e-3 * (1 + abs(float(b))):
            raise ReferenceBug(f'reference formula for {fn} disagrees with Python: {a} vs {float(b)}')


def shape_error(call, nx, ny):
    """Exception Python raises from the public shape of the call (None if none)."""
    fn = call['fn']
    if fn in SINGLE:
        return 'StatisticsError' if nx == 0 else None
    if fn in ('variance', 'stdev'):
        return 'StatisticsError' if nx < 2 else None
    if fn in ('pvariance', 'pstdev'):
        return 'StatisticsError' if nx < 1 else None
    if fn == 'quantiles':
        if call['n'] < 1 or nx < 2:
            return 'StatisticsError'
        return None
    return 'StatisticsError' if nx != ny or nx < 2 else None


def _py_call(fn, x, y, call, mu):
    f = getattr(pst, fn)
    if fn in REL:
        return f(x, y)
    if fn == 'quantiles':
        return f(x, n=call['n'], method=call['method'])
    if fn in SPREAD and mu is not None:
        return f(x, mu)
    return f(x)


def expected(case, call, mbar):
    """Specification of the admissible results of one call on secure data (see module docstring).

    Returns a tuple: ('exc', name) | ('exact', v) | ('near', v) | ('isqrt', v) | ('iv', Iv) | ('unc', why)
    | ('list', [spec, ...]) | ('mode', first, minimum, number_of_modes);  values are Fractions.
    """
    stype, fn = case['st'], call['fn']
    xr, yr = case['x'], case.get('y', [])
    nx, ny = len(xr), len(yr)
    err = shape_error(call, nx, ny)
    if err:
        if sys.version_info < (3, 13):   # the rule above is Python's own behaviour
            try:
                _py_call(fn, [Fr(v) for v in xr], [Fr(v) for v in yr], dict(call, method='inclusive'), None)
                raise ReferenceBug(f'reference rule disagrees with Python: {fn} did not raise on {nx},{ny}')
            except pst.StatisticsError:
                pass
        return ('exc', err)
    if fn == 'quantiles' and call['method'] not in ('inclusive', 'exclusive'):
        return ('exc', 'TypeError' if stype == 'fld' else 'ValueError')
    if stype == 'fld':
        return ('exc', 'TypeError')
    if stype == 'int' and fn in ('correlation', 'linear_regression'):
        return ('exc', 'TypeError')
    if stype == 'fxp' and fn == 'mode' and not case['integral']:
        return ('exc', 'ValueError')
    sc = 1 if stype == 'int' else 1 << case['f']
    x = [Fr(v, sc) for v in xr]
    y = [Fr(v, sc) for v in yr]
    mu = None
    if fn in SPREAD:
        if call['mu'] in ('sec', 'pub'):
            mu = Fr(call['muval'], 1 if call['mu'] == 'pub' else sc)
        elif call['mu'] == 'smean':
            mu = Fr(mbar, sc)
    xs = sorted(x)
    # exact order statistics / mode
    if fn == 'median_low':
        return ('exact', pst.median_low(x))
    if fn == 'median_high':
        return ('exact', pst.median_high(x))
    if fn == 'mode':
        fm, mn, k = first_mode(x)
        assert fm == pst.mode(x)
        return ('mode', fm, mn, k)
    if fn == 'median' and nx % 2:
        return ('exact', pst.median(x))
    if stype == 'int':
        if fn == 'mean':
            return ('near', pst.mean(x))
        if fn == 'median':
            return ('near', pst.median(x))
        if fn == 'quantiles':
            return ('list', [('near', q) for q in pst.quantiles(x, n=call['n'], method=call['method'])])
        if fn in SPREAD:
            v = exact_var(x, mu, fn in ('variance', 'stdev'))
            if sys.version_info >= (3, 11):
                assert v == (pst.variance(x, mu) if fn in ('variance', 'stdev') else pst.pvariance(x, mu))
            return ('near', v) if fn.endswith('variance') else ('isqrt', v)
        xb, yb, sxy, sxx, syy = exact_rel(x, y)
        return ('near', sxy / (nx - 1))
    # fixed point
    fx = FX(case['l'], case['f'])
    X = [Iv(v) for v in x]
    Y = [Iv(v) for v in y]
    try:
        if fn == 'mean':
            r, v = fx.mean(X), pst.mean(x)
        elif fn == 'median':
            r, v = fx.pubf(Iv(xs[nx // 2 - 1] + xs[nx // 2]), 0.5, Fr(1, 2)), pst.median(x)
        elif fn == 'quantiles':
            nq, res = call['n'], []
            ref = pst.quantiles(x, n=nq, method=call['method'])
            for i in range(1, nq):
                if call['method'] == 'inclusive':
                    j, delta = divmod(i * (nx - 1), nq)
                    lo, hi = xs[j], xs[min(j + 1, nx - 1)]
                else:
                    j = i * (nx + 1) // nq
                    j = 1 if j < 1 else nx - 1 if j > nx - 1 else j
                    delta = i * (nx + 1) - j * nq
                    lo, hi = xs[j - 1], xs[j]
                try:
                    if delta == 0:
                        q = Iv(lo)
                    elif delta == nq and call['method'] == 'exclusive':
                        q = Iv(hi)
                    else:
                        q = Iv(lo) + fx.divpub(fx.chk(Iv((hi - lo) * delta)), nq)
                    assert q.has(ref[i - 1])
                    res.append(('iv', q))
                except Unconstrained as e:
                    res.append(('unc', str(e)))
            return ('list', res)
        elif fn in SPREAD:
            corr = fn in ('variance', 'stdev')
            a = fx.var(X, None if mu is None else Iv(mu), corr)
            v = exact_var(x, mu, corr)
            assert a.has(v)
            if fn.endswith('variance'):
                r = a
            else:
                r = fx.sqrt(a)
                assert r.lo ** 2 <= v <= r.hi ** 2
                v = None
        else:
            xb, yb, sxy, sxx, syy = exact_rel(x, y)
            XB, XX = fx.centered(X)
            YB, YY = fx.centered(Y)
            SXY = fx.inprod(XX, YY)
            if fn == 'covariance':
                r, v = fx.divpub(SXY, nx - 1), sxy / (nx - 1)
                _xcheck(case, fn, x, y, v)
            elif fn == 'correlation':
                if sxx == 0 or syy == 0:
                    return ('unc', 'constant input (Python raises StatisticsError from the values)')
                den = fx.prod(fx.sqrt(fx.inprod(XX, XX)), fx.sqrt(fx.inprod(YY, YY)))
                r, v = fx.div(SXY, den), None
                q = sxy ** 2 / (sxx * syy)
                clo, chi = (sqrt_lo(q), sqrt_hi(q)) if sxy >= 0 else (-sqrt_hi(q), -sqrt_lo(q))
                assert r.lo <= clo and chi <= r.hi
                _xcheck(case, fn, x, y, (clo + chi) / 2)
            else:
                if sxx == 0:
                    return ('unc', 'constant x (Python raises StatisticsError from the values)')
                slope = fx.div(SXY, fx.inprod(XX, XX))
                icpt = fx.chk(YB - fx.prod(slope, XB))
                assert slope.has(sxy / sxx) and icpt.has(yb - sxy / sxx * xb)
                _xcheck(case, fn, x, y, sxy / sxx, yb - sxy / sxx * xb)
                return ('list', [('iv', slope), ('iv', icpt)])
        assert v is None or r.has(v)
        return ('iv', r)
    except Unconstrained as e:
        return ('unc', str(e))


# ------------------------------------------------------------------------------------------ running
def _program(case):
    stype, calls = case['st'], case['calls']
    m = case['m']

    async def prog(mpc, pid):
        if stype == 'int':
            T = mpc.SecInt(case['l'])
            mk = lambda v, snd: T(v if pid == snd else None)
        elif stype == 'fxp':
            T = mpc.SecFxp(case['l'], case['f'])
            mk = lambda v, snd: T(T.field(v) if pid == snd else None, integral=case['integral'])
        else:
            T = mpc.SecFld(FLD_P)
            mk = lambda v, snd: T(v % FLD_P if pid == snd else None)
        x = mpc.input([mk(v, case['sx']) for v in case['x']], senders=case['sx']) if case['x'] else []
        y = mpc.input([mk(v, case['sy']) for v in case['y']], senders=case['sy']) if case.get('y') else []
        out = []
        for c in calls:
            fn = c['fn']
            f = getattr(mst, fn)
            extra = None
            try:
                d = iter(x) if c.get('it') else x
                if fn in REL:
                    r = f(x, y)
                elif fn == 'quantiles':
                    r = f(d, n=c['n'], method=c['method'])
                elif fn in SPREAD and c['mu'] != 'none' and shape_error(c, len(x), 0) is None:
                    if c['mu'] == 'smean':
                        mu = mst.mean(x)
                        extra = int(await mpc.output(mu, raw=True))
                    elif c['mu'] == 'pub':
                        mu = c['muval']
                    else:
                        mu = mpc.input(mk(c['muval'], c['smu']), senders=c['smu'])
                    r = f(d, mu)
                else:
                    r = f(d)
            except Exception as e:      # synchronous exceptions of the call are results
                out.append(['exc', type(e).__name__, str(e)[:200]])
                continue
            if isinstance(r, (list, tuple)):
                rs = list(r)
                tyok = all(type(a) is T for a in rs) and (fn != 'linear_regression' or
                                                          (type(r).__name__ == 'LinearRegression' and
                                                           r.slope is rs[0] and r.intercept is rs[1]))
                vals = [int(a) for a in await mpc.output(rs, raw=True)] if rs else []
                out.append(['val', vals, tyok, extra])
            else:
                tyok = type(r) is T
                if not isinstance(r, _sectypes.SecureObject):
                    out.append(['plainresult', repr(r)[:100], False, extra])
                    continue
                out.append(['val', int(await mpc.output(r, raw=True)), tyok, extra])
        return out
    return prog


def _judge(spec, got, sc):
    """(ok, constrained, message, tightness) for one opened value/list against its specification."""
    kind = spec[0]
    if kind == 'unc':
        return True, False, '', None
    if kind == 'list':
        if not isinstance(got, list) or len(got) != len(spec[1]):
            return False, True, f'result has wrong shape: {got} for {len(spec[1])} expected values', None
        con, tight = False, None
        for s, g in zip(spec[1], got):
            ok, c, msg, tg = _judge(s, g, sc)
            if not ok:
                return False, True, msg, None
            con = con or c
            tight = tg if tight is None else tight
        return True, con, '', tight
    if isinstance(got, list):
        return False, True, f'list result {got} where a single value was expected', None
    r = Fr(got, sc)
    if kind == 'exact':
        return r == spec[1], True, f'got {r}, exact value {spec[1]}', None
    if kind == 'near':
        return abs(r - spec[1]) <= Fr(1, 2), True, f'got {r}, exact value {spec[1]} = {float(spec[1]):.4f} (not within 1/2)', None
    if kind == 'isqrt':
        v = spec[1]
        lo, hi = math.ceil(v - Fr(1, 2)), math.floor(v + Fr(1, 2))
        ok = r >= 0 and r.denominator == 1 and max(lo, int(r) ** 2) <= min(hi, (int(r) + 1) ** 2 - 1)
        return ok, True, f'got {r}, not isqrt of an integer within 1/2 of the exact variance {v} = {float(v):.4f}', None
    if kind == 'iv':
        iv = spec[1]
        hw = (iv.hi - iv.lo) / 2 * sc
        tight = 'bound<=16u' if hw <= 16 else 'bound<=1024u' if hw <= 1024 else 'bound<=2^16u' if hw <= 65536 else 'bound>2^16u'
        return iv.has(r), True, (f'got {r} = {float(r):.9g} ({got} units), admissible interval '
                                 f'[{float(iv.lo):.9g}, {float(iv.hi):.9g}] = [{float(iv.lo * sc):.1f}, '
                                 f'{float(iv.hi * sc):.1f}] units'), tight
    raise AssertionError(kind)


def _run_secure(case):
    stype, m, t = case['st'], case['m'], case['t']
    calls = case['calls']
    nx = len(case['x'])
    labels = [f'type={stype}', f'm={m}', f't={t}', 'prss' if case['prss'] else 'noprss',
              'n=' + ('0' if nx == 0 else '1' if nx == 1 else '2' if nx == 2 else '3-6' if nx <= 6 else '7-12')]
    if stype == 'fxp':
        labels += [f'fxp=({case["l"]},{case["f"]})', 'integral' if case['integral'] else 'nonintegral']
    elif stype == 'int':
        labels.append(f'int={case["l"]}')
    why = invalid(case)
    if why:
        return Outcome(True, f'case violates the preconditions ({why})', labels=['invalid-case'], skipped=True,
                       nontrivial=False)
    sim = simmod.Sim(m, t, prss=case['prss'], seed=case['seed'], schedule={'mode': 'fast'}, sec_param=30)
    try:
        res = sim.run_programs(_program(case))
    finally:
        sim.close()
    if res.inconclusive:
        return Outcome(True, inconclusive=True, labels=labels, nontrivial=False, n=len(calls))
    if any('CaseTimeout' in e for _, e in res.errors):
        from vlib.runner import CaseTimeout      # the watchdog fired inside a party's event loop step
        raise CaseTimeout()
    if not res.all_done:
        return Outcome(False, f'run did not complete (exception inside a protocol coroutine or deadlock): '
                       f'{res.describe()[:1500]}\ncase={case}', labels=labels, n=len(calls))
    if any(v != res.values[0] for v in res.values):
        return Outcome(False, f'parties obtained different results: {res.values}\ncase={case}', labels=labels)
    sc = 1 << case['f'] if stype == 'fxp' else 1
    constrained = False
    fails, known = [], []
    for c, got in zip(calls, res.values[0]):
        fn = c['fn']
        labels.append('fn=' + fn)
        if fn == 'quantiles':
            labels.append(f'quantiles:n={c["n"]}:{c["method"]}')
        if fn in SPREAD:
            labels.append('mu=' + c['mu'])
        if c.get('it'):
            labels.append('iterator')
        mbar = got[3] if got[0] == 'val' else None
        spec = expected(case, c, mbar)
        tag = f'{fn}({", ".join(f"{k}={v}" for k, v in c.items() if k != "fn")})'
        if spec[0] == 'exc':
            labels.append('expect=' + spec[1])
            if got[0] != 'exc' or got[1] != spec[1]:
                fails.append(f'{tag}: expected {spec[1]}, got {got}')
            continue
        if got[0] == 'exc':
            fails.append(f'{tag}: exception on valid input: {got[1]}: {got[2]}')
            continue
        if got[0] != 'val':
            fails.append(f'{tag}: result is not a secure object: {got[1]}')
            continue
        if not got[2]:
            fails.append(f'{tag}: result is not of the secure type of the data')
            continue
        if c.get('mu') == 'smean':
            # the secure mean handed in as xbar/mu must itself be an admissible mean
            ok, _, msg, _ = _judge(expected(case, {'fn': 'mean'}, None), mbar, sc)
            if not ok:
                fails.append(f'{tag}: mean(x) used as xbar: {msg}')
                continue
        if spec[0] == 'mode':
            _, fm, mn, k = spec
            r = Fr(got[1], sc)
            cls = 'unimodal' if k == 1 else 'multimodal-first-is-min' if fm == mn else 'F10-class'
            labels.append('mode:' + cls)
            constrained = constrained or nx >= 2
            if r != fm:
                msg = (f'{tag}: got {r}, first most common value (Python, docstring) is {fm}; '
                       f'smallest most common value is {mn}; {k} modes')
                if cls == 'F10-class' and r == mn:
                    known.append(msg)
                else:
                    fails.append(msg)
            continue
        ok, con, msg, tight = _judge(spec, got[1], sc)
        if spec[0] == 'unc' or (spec[0] == 'list' and any(s[0] == 'unc' for s in spec[1])):
            labels.append('unconstrained:' + fn)
        if tight:
            labels.append(f'{fn}:{tight}')
        constrained = constrained or (con and (nx >= 2 or c.get('mu') in ('sec', 'pub')))
        if not ok:
            fails.append(f'{tag}: {msg}')
    if fails:
        return Outcome(False, 'secure statistics disagree with Python:\n  ' + '\n  '.join(fails) + f'\ncase={case}',
                       labels=labels, n=len(calls))
    if known:
        return Outcome(False, 'F10: ' + '; '.join(known) + f'\ncase={case}', labels=labels, known='F10', n=len(calls))
    return Outcome(True, labels=labels, nontrivial=constrained, n=len(calls))


def _run_plain(case):
    fn = case['fn']
    den = case['den']
    conv = (lambda v: v) if den == 1 else (lambda v: Fr(v, den))
    x = [conv(v) for v in case['x']]
    y = [conv(v) for v in case.get('y', [])]
    labels = ['kind=plain', 'fn=' + fn, 'fractions' if den != 1 else 'ints']

    def call(mod):
        f = getattr(mod, fn)
        d = iter(list(x)) if case.get('it') else list(x)
        try:
            if fn in REL:
                r = f(list(x), list(y))
            elif fn == 'quantiles':
                r = f(d, n=case['n'], method=case['method'])
            elif 'muval' in case:
                r = f(d, conv(case['muval']))
            else:
                r = f(d)
        except Exception as e:
            return ('exc', type(e).__name__)
        return ('val', type(r).__name__, repr(r))
    want, got = call(pst), call(mst)
    if want == got:
        return Outcome(True, labels=labels + [want[0]], nontrivial=False)
    msg = f'plain data: mpyc.statistics.{fn} gives {got}, statistics.{fn} gives {want}\ncase={case}'
    if fn in ('median_low', 'median_high') and len(x) % 2 == 0 and len(x) >= 2:
        if got == ('val', type(pst.median(x)).__name__, repr(pst.median(x))):
            return Outcome(False, 'F34a: ' + msg, labels=labels + ['F34a-class'], known='F34a', nontrivial=False)
    return Outcome(False, msg, labels=labels)


def run_case(case):
    try:
        if case['kind'] == 'plain':
            return _run_plain(case)
        return _run_secure(case)
    except simmod.HarnessError:
        raise
    except (AssertionError, ReferenceBug):
        raise
    except Exception:
        return Outcome(False, f'exception on valid input: {traceback.format_exc()[-2500:]}\ncase={case}')
