"""C02: secure fixed-point arithmetic stays within its rounding bounds.

Cases are lists of independent operation records over SecFxp(l, f) (see vlib/fxp.py, vlib/fxpgen.py) run in
the in-process m-party simulator; every operand is an exact multiple of 2^-f dealt as a fresh input by a
generated sender, every secure value created is opened with raw=True and compared with the exact rational
reference under the literal tolerance of the statement's clause (compositions: interval propagation of the
same per-operation tolerances).  Known classes F6 (|y| < 1 divisors) and F7 (sin/cos of |a| > 32) are matched
only when the error is also inside the explained tolerance.
"""
from vlib.boot import boot
from vlib import fxpgen

ID = 'C02'
LEVEL = 'exploration'
RULE = ('generated (m,t,PRSS) [35% m=1 for value-space bulk; else progs.config(): m 2..7 weighted to 3..5, mostly t>=1 up to '
        '(m-1)//2, also t=0, PRSS on/off] x SecFxp(l,f), every f in 2..16 (thorough: ..32), l in 2f, 2f+1 (55%), 2f+2..4f, 40 '
        '(thorough: 64) x 1..12 independent records within a cost budget: + - neg, six comparisons (secure / public int / '
        'public float operand; equal, adjacent and range-end differences), * (secure x secure, a*a, x public int, x public '
        'float: random, k/2^j with 0..f+3 fractional bits, whole, tiny, huge, 0.0), x/y, c/y, 1/y (types with f=l//2; '
        'divisors >= 1 incl. at/next to powers of two, 1/8 in the |y|<1 class F6), x/public, sin cos sincos (|a|<=32 incl. '
        'multiples of pi/4; 1/8 in the |a|>32 class F7), trunc by 2^k (k=f default and 1..f, scalar/list), x**n (n 0..6, '
        'thorough ..10), and 2-3 operation compositions (arithmetic, with division, with sin/cos, with comparison/abs/min/'
        'if_else); operands log-uniform with extremes (0, +-1 unit, +-1.0, +-max, min, around 2^k), whole and non-whole, '
        'flagged or not, from generated senders, kept in range by construction; plus deterministic grids for every f: '
        'divisors 2^k-1, 2^k, 2^k+1 with the largest fitting numerator, sin/cos at multiples of pi/4 and at |a|=32; '
        'mpc.prod of 3-4 factors in every mixed whole/non-whole pattern. '
        'Oracle: exact Fractions; tolerance = literal clause of the statement on exact operands (1 unit; 2(1+|x|); '
        '16(1+|x|); 4 units vs exact sin/cos; floor-or-ceiling; n(1+|x|)^(n-1)), interval-propagated through compositions; '
        'every created secure value is opened (raw) and all parties must agree. non-trivial = t>=1 and at least one '
        'probabilistic truncation of a non-multiple of 2^f; distinct by case hash')
ASSUMPTIONS = ['sec_param k=30: statistical masking only; probabilistic zero test (only for l/2 > 30) errs with probability <= 2^-30',
               'operands and results (value +- tolerance) inside [-2^(l-f-1), 2^(l-f-1)); comparison operands with differences in range',
               'division only for types with f = l//2 (SecFxp docstring: l =~ 2f), divisors |y| >= 2^-f; the reciprocal itself may exceed the range as long as the quotient fits',
               'public float operands of + - and comparisons are exact multiples of 2^-f; public float divisors get the float rounding of 1/c (one ulp of 1/c times |x|) added to the tolerance',
               'sin/cos reference: 256-bit fixed-point Taylor evaluation with Machin pi (error < 2^-140), not math.sin',
               'x**n for public n >= 0 (negative exponents are reciprocals, covered by the division clause)']
CASE_TIMEOUT = 900  # wall-clock watchdog for hangs only; the heaviest cases take seconds on an idle machine

boot(numpy=False)

WEIGHTS = {'add': 3, 'neg': 1, 'cmp': 4, 'mul': 6, 'mulint': 3, 'mulfloat': 5, 'div': 5, 'divp': 2, 'sincos': 3,
           'trunc': 4, 'pow': 4, 'comp': 4, 'comp_div': 2, 'comp_sin': 1, 'comp_cmp': 2}


def budget(tier):
    return dict(shards=16, examples=300 if tier == "quick" else 2000)


def enumerate_cases(tier):
    """Deterministic grids (not exhaustive): for EVERY f, divisors at / next to powers of two with the largest
    numerator that fits (the normalised divisor is then at the ends of [1/2, 1], where the Newton start value is
    worst), and sin/cos at multiples of pi/4 (+-1 unit) and at the |a| = 32 class boundary."""
    from fractions import Fraction as Fr
    from vlib import fxp
    fmax = 16 if tier == 'quick' else 32
    for f in range(2, fmax + 1):
        one = 1 << f
        for l in (2 * f, 2 * f + 1):
            B = (1 << (l - 1)) - 1
            recs = []
            for k in sorted({f, f + 1, f + 2, l - 2}):
                if not f <= k <= l - 2:
                    continue
                for dy in (-1, 0, 1):
                    y = (1 << k) + dy
                    if not one <= y <= B:
                        continue
                    for sy, sx in ((1, 1), (-1, 1)):
                        r = fxpgen.fit(['div', ['s', sx * B, 0, False], ['s', sy * y, 0, False]], l, f)
                        if r is not None:
                            recs.append(r)
            for i in range(0, len(recs), 12):
                yield dict(m=1, t=0, prss=True, l=l, f=f, seed=f, recs=recs[i:i + 12])
            if recs:
                yield dict(m=3, t=1, prss=bool(f % 2), l=l, f=f, seed=f, recs=recs[:2] + recs[-2:])
        l = max(2 * f, f + 7)
        B = (1 << (l - 1)) - 1
        pi = Fr(fxp.pi_scaled(), 1 << 256)
        vals = []
        for k in range(-8, 9):
            a = round(k * pi / 4 * one)
            vals += [a, a + 1] if k % 2 else [a - 1, a]
        vals += [32 * one, -32 * one, 32 * one - 1, 1 - 32 * one]
        vals = [v for v in vals if -B <= v <= B and abs(v) <= 32 * one]
        recs = [['sincos', ['s', v, 0, False]] for v in vals]
        for i in range(0, len(recs), 16):
            yield dict(m=1, t=0, prss=False, l=l, f=f, seed=f, recs=recs[i:i + 16])
        yield dict(m=3, t=1, prss=bool(f % 2), l=l, f=f, seed=f, recs=recs[:1] + recs[len(recs) // 2:len(recs) // 2 + 1])


    # wide types (l > 2*sec_param): equality goes through the probabilistic zero test (Runtime._is_zero), which
    # opens a degree-2t product; exact comparisons at m >= 3, t >= 1 with and without PRSS
    for l, f in ((64, 32), (80, 40), (62, 20)):
        one = 1 << f
        B = (1 << (l - 1)) - 1
        vals = [0, one, -one, 3 * one + 1, B, -B - 1, 5, -7 * one - 3]
        recs = []
        for i, a in enumerate(vals):
            for b in (a, vals[(i + 3) % len(vals)]):
                if abs(a - b) <= B:
                    for rel in ('eq', 'ne', 'lt', 'ge'):
                        recs.append(['cmp', rel, ['s', a, i % 3, False], ['s', b, (i + 1) % 3, False]])
        for i in range(0, len(recs), 16):
            yield dict(m=3, t=1, prss=bool((i // 16) % 2), l=l, f=f, seed=l + i, recs=recs[i:i + 16])
        yield dict(m=5, t=2, prss=True, l=l, f=f, seed=l, recs=recs[::9])

    # mpc.prod of 3 and 4 factors, every whole/non-whole pattern with both kinds present (whole factors carry the
    # integral flag): the pairwise tree keeps a flag per partial product and must truncate every non-whole one
    import itertools
    for f in (4, 8, 13):
        one = 1 << f
        l = 4 * f
        recs = []
        for k in (3, 4):
            for pat in itertools.product((True, False), repeat=k):
                if all(pat) or not any(pat):
                    continue
                fac = [['s', (2 + i % 2) * one, i % 3, True] if w else ['s', (-1) ** i * ((one * 7) // 10 + 3 * i + 1), i % 3, False]
                       for i, w in enumerate(pat)]
                recs.append(['prod', ['list'] + fac])
        for i in range(0, len(recs), 10):
            yield dict(m=1, t=0, prss=True, l=l, f=f, seed=f + i, recs=recs[i:i + 10])
        yield dict(m=3, t=1, prss=bool(f % 2), l=l, f=f, seed=f, recs=recs[1::4])


def strategy(tier):
    return fxpgen.case(tier, WEIGHTS, whole_bias=0.2, m1_share=0.35, div_share=0.55)


def run_case(case):
    return fxpgen.run_case(case, 'C02')
