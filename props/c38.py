"""C38: secure polynomial arithmetic (mpyc/secpols.py) agrees with plain gfpx polynomial arithmetic.

A case = party configuration (m, t, PRSS) x prime p x a short list of independent operation records, all
evaluated in ONE program run of the in-process m-party simulator.  Every record carries its secret operands
as coefficient lists of a public length (the "length bound": trailing, i.e. leading-coefficient, zeros are
generated on purpose, including the all-zero polynomial and length 0) dealt by a generated sender, and is
evaluated TWICE in the same run, on two different secret value sets of the same public lengths:

* oracle 1 (differential): after `mpc.output`, every result equals the result of the same operator / method
  of `mpyc.gfpx` applied to the plain polynomials over the same prime field (gfpx itself is the subject of
  C23/C24 and is the oracle the statement names); all parties must obtain the same value;
* oracle 2 (metamorphic, "only the length bound is public"): `len(result.share)` must be identical for the two
  secret value sets, because it may depend on public information only (operator, public parameters, operand
  lengths), and must be large enough to hold the gfpx result.

Operators/methods: + - * (operator, static, with a public gfpx polynomial on either side), unary -, +, copy,
<< >> ** (public n), truncate, [k], evaluation at a public / secret point, if_else / if_swap (secret or public
condition), == != < <= > >=, degree, monic, reverse (None / public d / secret d as secfld or secint),
// % divmod (operator, reflected, static mod), gcd, gcdext, invert, powmod (n in -3..6), is_irreducible,
input/output with receiver subsets.

Preconditions constructed (never filtered): divisors / moduli nonzero in both value sets, invert / negative powmod
only for coprime pairs, secret reverse degree in -1..len-1, and -- "for certain operations, p must be
sufficiently large compared to the (public upper bound on the) degree" (module docstring, enforced by asserts in
`_degree` / `to_bits`) -- every operation that uses the secret degree is generated only for p >= 61 (length
bounds <= 8, intermediate lengths <= 15); ring operations are generated for every prime p > m (p = 2, 3, 5, ...).
"""
import random
import traceback
from hypothesis import strategies as st
from vlib.boot import boot
from vlib.runner import Outcome

boot(numpy=True)
from mpyc.numpy import np  # noqa: E402
from mpyc.gfpx import GFpX  # noqa: E402
from mpyc.secpols import secpoly  # noqa: E402
from vlib import sim as simmod, progs, refmath  # noqa: E402

ID = 'C38'
LEVEL = 'exploration'
RULE = ('generated (m,t,PRSS) x prime p (2..13 for ring operations, 61..65537 and 2^31-1, 2^61-1, 2^64-59, 2^127-1 '
        'otherwise) x 1-5 operation records over secret polynomials of public length 0..8 with generated zero leading '
        'coefficients (incl. zero polynomial), each evaluated on two secret value sets in one simulator run; oracle = '
        'same operator/method of mpyc.gfpx after output, all parties equal, len() of every result identical for the '
        'two value sets and >= gfpx length; non-trivial = m>=3 and t>=1 and a record whose operand has a secret zero '
        'leading coefficient or that uses the secret degree (div/mod/gcd/compare/...); distinct by case hash')
ASSUMPTIONS = ['mpyc.gfpx is the oracle (verified by C23/C24); evaluation at a point uses an independent Horner reference (F23c)', 'sec_param k=30',
               'numpy 2.5.3 from the offline wheelhouse',
               'degree-dependent operations only for p >= 61 (documented precondition "p sufficiently large '
               'compared to the degree bound"); is_irreducible only for p <= 257 (cost: p-th powers)']
CASE_TIMEOUT = 300

SMALL_P = [2, 3, 5, 7, 11, 13]
MED_P = [61, 67, 101, 127, 251, 257, 65537]
BIG_P = [2**31 - 1, 2**61 - 1, 2**63 - 25, 2**64 - 59, 2**65 - 49, 2**127 - 1]
for _p in SMALL_P + MED_P + BIG_P:
    GFpX(_p)   # cached classes: created once at import (the primality test behind GFpX draws from `random`)


def budget(tier):
    return dict(shards=16, examples=45 if tier == "quick" else 800)


# ------------------------------------------------------------------------------------------ operations
class X:
    """Operand environment: the same op lambda runs on secure operands (secpoly) and on gfpx polynomials."""
    __slots__ = ('cls', 'a', 'b', 'pb', 'n', 'k', 'x', 'c', 'd', 'sx', 'secure', 'poly')


def _if_else(X_):
    if X_.secure:
        return secpoly.if_else(X_.c, X_.a, X_.b)
    return X_.a if X_.c else X_.b


def _if_swap(X_):
    if X_.secure:
        return list(secpoly.if_swap(X_.c, X_.a, X_.b))
    return [X_.b, X_.a] if X_.c else [X_.a, X_.b]


def _call_secret(X_):
    return X_.a(X_.sx)


def _copy(X_):
    return X_.a.copy() if X_.secure else X_.a   # gfpx polynomials are immutable: copy is the identity


# name -> (signature, category, function).  Signatures: see _gen_record.  Category: 'ring' (any p), 'deg' (p >= 61),
# 'heavy' (p >= 61, at most one per case, shorter operands), 'irr' (61 <= p <= 257).
OPS = {
    'neg': ('u', 'ring', lambda X_: -X_.a),
    'pos': ('u', 'ring', lambda X_: +X_.a),
    'copy': ('u', 'ring', _copy),
    'add': ('bin', 'ring', lambda X_: X_.a + X_.b),
    'sub': ('bin', 'ring', lambda X_: X_.a - X_.b),
    'mul': ('bin', 'ring', lambda X_: X_.a * X_.b),
    'add_pub': ('binp', 'ring', lambda X_: X_.a + X_.pb),
    'radd_pub': ('binp', 'ring', lambda X_: X_.pb + X_.a),
    'sub_pub': ('binp', 'ring', lambda X_: X_.a - X_.pb),
    'rsub_pub': ('binp', 'ring', lambda X_: X_.pb - X_.a),
    'mul_pub': ('binp', 'ring', lambda X_: X_.a * X_.pb),
    'rmul_pub': ('binp', 'ring', lambda X_: X_.pb * X_.a),
    's_add': ('bin', 'ring', lambda X_: X_.cls.add(X_.a, X_.b)),
    's_sub': ('bin', 'ring', lambda X_: X_.cls.sub(X_.a, X_.b)),
    's_mul': ('bin', 'ring', lambda X_: X_.cls.mul(X_.a, X_.b)),
    'lshift': ('un', 'ring', lambda X_: X_.a << X_.n),
    'rshift': ('un', 'ring', lambda X_: X_.a >> X_.n),
    'pow': ('upow', 'ring', lambda X_: X_.a ** X_.n),
    'truncate': ('un', 'ring', lambda X_: X_.a.truncate(X_.n)),
    'getitem': ('un', 'ring', lambda X_: X_.a[X_.n]),
    'call_pub': ('ux', 'ring', lambda X_: X_.a(X_.x)),
    'call_sec': ('ux', 'ring', _call_secret),
    'if_else': ('binc', 'ring', _if_else),
    'if_swap': ('binc', 'ring', _if_swap),
    'eq': ('bin', 'ring', lambda X_: X_.a == X_.b),
    'ne': ('bin', 'ring', lambda X_: X_.a != X_.b),
    'eq_pub': ('binp', 'ring', lambda X_: X_.a == X_.pb),
    'mul_sub': ('bin', 'ring', lambda X_: X_.a * X_.b - X_.b * X_.a + X_.a),   # secret zero result padded in
    'io': ('uio', 'ring', lambda X_: X_.a),
    'degree': ('u', 'deg', lambda X_: X_.a.degree()),
    'monic': ('u', 'deg', lambda X_: X_.a.monic()),
    'reverse': ('u', 'deg', lambda X_: X_.a.reverse()),
    'reverse_pub': ('ud', 'deg', lambda X_: X_.a.reverse(X_.n)),
    'reverse_sec': ('usd', 'deg', lambda X_: X_.a.reverse(X_.d)),
    'lt': ('bin', 'deg', lambda X_: X_.a < X_.b),
    'le': ('bin', 'deg', lambda X_: X_.a <= X_.b),
    'gt': ('bin', 'deg', lambda X_: X_.a > X_.b),
    'ge': ('bin', 'deg', lambda X_: X_.a >= X_.b),
    'lt_pub': ('binp', 'deg', lambda X_: X_.a < X_.pb),
    'ge_pub': ('binp', 'deg', lambda X_: X_.a >= X_.pb),
    'floordiv': ('div', 'deg', lambda X_: X_.a // X_.b),
    'mod': ('div', 'deg', lambda X_: X_.a % X_.b),
    'divmod': ('div', 'deg', lambda X_: list(divmod(X_.a, X_.b))),
    's_mod': ('div', 'deg', lambda X_: X_.cls.mod(X_.a, X_.b)),
    'floordiv_pub': ('divp', 'deg', lambda X_: X_.a // X_.pb),
    'mod_pub': ('divp', 'deg', lambda X_: X_.a % X_.pb),
    'divmod_pub': ('divp', 'deg', lambda X_: list(divmod(X_.a, X_.pb))),
    'rfloordiv_pub': ('rdivp', 'deg', lambda X_: X_.pb // X_.a),
    'rmod_pub': ('rdivp', 'deg', lambda X_: X_.pb % X_.a),
    'rdivmod_pub': ('rdivp', 'deg', lambda X_: list(divmod(X_.pb, X_.a))),
    'gcd': ('gcd', 'heavy', lambda X_: X_.cls.gcd(X_.a, X_.b)),
    'gcdext': ('gcd', 'heavy', lambda X_: list(X_.cls.gcdext(X_.a, X_.b))),
    'invert': ('inv', 'heavy', lambda X_: X_.cls.invert(X_.a, X_.b)),
    'powmod': ('powmod', 'heavy', lambda X_: X_.cls.powmod(X_.a, X_.n, X_.b)),
    'is_irreducible': ('irr', 'irr', lambda X_: X_.cls.is_irreducible(X_.a)),
}
DEGREE_USERS = {n for n, (_, cat, _) in OPS.items() if cat != 'ring'}
F38B_OPS = {'eq', 'ne', 'eq_pub', 'lt', 'le', 'gt', 'ge', 'lt_pub', 'ge_pub', 'gcdext'}
DIV_OPS = {n for n, (sig, _, _) in OPS.items() if sig in ('div', 'divp', 'rdivp', 'powmod', 'irr')}


# ------------------------------------------------------------------------------------------ known findings
def _deg(c):
    d = len(c) - 1
    while d >= 0 and not c[d]:
        d -= 1
    return d


def _in_f38c(rec):
    return rec['op'] == 'powmod' and rec['n'] == 1 and \
        any(_deg(rec['a'][k]) >= _deg(rec['b'][k]) for k in ('c', 'alt'))


def _in_f38e(p, c):
    d = _deg(c)
    if not 1 <= d <= (len(c) - 1) // 2:
        return False
    poly = GFpX(p)
    return bool(poly.is_irreducible(poly(list(c[:d + 1]))))


def _in_f38j(rec):
    n = len(rec['a']['c'])
    return n >= 1 and any(x >= 2**63 or (n >= 2 and x >= 2 and x ** (n - 1) >= 2**63) for x in rec['x'])


def known_class(rec, p=None):
    """Id of the known finding whose class this record belongs to (None otherwise).

    F38a  f[k] with k >= len(f.share): IndexError inside the np_getitem task instead of 0
    F38b  == != < <= > >= / gcdext where BOTH operands have length bound 0
    F38c  powmod(a, 1, b) with deg a >= deg b: a is returned unreduced
    F38d  is_irreducible(a) for a secret ZERO polynomial a of length bound >= 2: assertion in _div (division by 0)
    F38e  is_irreducible(a) for an irreducible a of degree 1 <= d <= (len-1)//2 (enough secret zero leading
          coefficients): the loop runs up to i = (len-1)//2 >= d, where X^(p^d) - X = 0 mod a, and 0 is returned
    F38g  // % divmod mod powmod for a prime p > 2^63 (always for 64-bit p, with probability about (2^64/p)^len for
          larger p): `np.array(u)` in secpoly._div (no dtype=object) turns the Python ints of the public inverse into
          float64/uint64 when none of them needs more than 64 bits -> wrong quotient (usually 0)
    F38i  (outcome-defined, see _run_case) gcdext returns the right monic gcd and a VALID Bezout pair u*a + v*b = g that
          is not the reduced pair gfpx returns (deg u = deg(b/g) instead of < deg(b/g)); everything else of such a case
          is still checked
    F38j  evaluation f(x) at a PUBLIC int x with x^(len-1) >= 2^63: __call__ builds np.vander(np.array([x]), n) in int64
          (silent overflow -> wrong value) or, for x >= 2^63, in uint64/float64 (TypeError in the matmul)
    F38h  == with a public gfpx polynomial over GF(2): secpoly(<gfpx polynomial>) calls value._to_list(value), which for
          GF(2)[x] yields polynomial objects instead of ints; indexing a single entry (np.all -> np_prod -> a[0]) fails
    F38f  monic() of a secret zero polynomial of length >= 1, gcd/gcdext of two secret zero polynomials: 1/0 in
          _monic -> Runtime.reciprocal never terminates (docstring: "Zero polynomial remains unchanged")
    """
    name = rec['op']
    if name == 'getitem' and rec['n'] >= len(rec['a']['c']):
        return 'F38a'
    if name in F38B_OPS and not rec['a']['c']:
        other = rec['b']['c'] if 'b' in rec else rec['pb']
        if not other:
            return 'F38b'
    if _in_f38c(rec):
        return 'F38c'
    if name == 'is_irreducible' and len(rec['a']['c']) >= 2 and not (any(rec['a']['c']) and any(rec['a']['alt'])):
        return 'F38d'
    if name == 'is_irreducible' and p is not None and any(_in_f38e(p, rec['a'][k]) for k in ('c', 'alt')):
        return 'F38e'
    if name == 'monic' and rec['a']['c'] and not (any(rec['a']['c']) and any(rec['a']['alt'])):
        return 'F38f'
    if name in ('gcd', 'gcdext') and (rec['a']['c'] or rec['b']['c']) and \
            any(not any(rec['a'][k]) and not any(rec['b'][k]) for k in ('c', 'alt')):
        return 'F38f'
    if name == 'eq_pub' and p == 2 and rec['pb']:
        return 'F38h'
    if name == 'call_pub' and _in_f38j(rec):
        return 'F38j'
    if name in DIV_OPS and p is not None and 64 <= p.bit_length() <= 72 and not (name == 'powmod' and rec['n'] in (0, 1)):
        return 'F38g'
    return None


# ------------------------------------------------------------------------------------------ generation
def _coef(p):
    return st.one_of(st.sampled_from([0, 1, p - 1, 2 % p]), st.integers(0, p - 1))


@st.composite
def _coefs(draw, p, n, nonzero=False):
    c = draw(st.lists(_coef(p), min_size=n, max_size=n))
    if n:
        z = draw(st.sampled_from([0, 0, 0, 1, 1, 2, 3, n]))  # secret zero leading coefficients
        for i in range(max(0, n - z), n):
            c[i] = 0
    if nonzero and not any(c):
        c[draw(st.integers(0, n - 1))] = 1 + draw(st.integers(0, p - 2))
    return c


@st.composite
def _spoly(draw, p, minlen=0, maxlen=8, nonzero=False):
    n = draw(st.integers(max(minlen, 1 if nonzero else 0), maxlen))
    return {'c': draw(_coefs(p, n, nonzero)), 'alt': draw(_coefs(p, n, nonzero)), 's': draw(st.integers(0, 6))}


@st.composite
def _ppoly(draw, p, maxlen=8, nonzero=False):
    """Public polynomial: coefficient list without trailing zeros."""
    n = draw(st.integers(1 if nonzero else 0, maxlen))
    c = draw(_coefs(p, n, nonzero))
    while c and not c[-1]:
        c.pop()
    return c


def _gcd_is_one(p, a, b):
    poly = GFpX(p)
    return poly.gcd(poly(list(a)), poly(list(b))) == 1


def _make_coprime(p, a, b):
    """Change the constant/low coefficients of a (deterministically) until gcd(a, b) = 1; b nonzero, len(a) >= 1."""
    a = list(a)
    for j in range(len(a)):
        for k in range(min(p, 40)):
            if _gcd_is_one(p, a, b):
                return a
            a[j] = (a[j] + 1) % p
    return None


@st.composite
def _gen_record(draw, p, m, allowed, small_len):
    # uniform choice of the operation: PRNG seeded by a drawn integer (sampled_from favours the first entries)
    name = random.Random(draw(st.integers(0, 2**64 - 1))).choice(allowed)
    if name == 'eq_pub' and p == 2:
        name = 'eq'     # F38h (emitted alone by _known_case)
    sig = OPS[name][0]
    mx = 5 if small_len else 8
    rec = {'op': name}
    if sig in ('u', 'un', 'ux', 'uio', 'ud', 'usd'):
        rec['a'] = draw(_spoly(p, maxlen=mx, nonzero=(name == 'monic' and draw(st.integers(0, 9)) > 0)))
        if name == 'monic' and rec['a']['c'] and not (any(rec['a']['c']) and any(rec['a']['alt'])):
            rec['a'] = draw(_spoly(p, maxlen=mx, nonzero=True))   # secret zero polynomial: F38f
    if sig == 'upow':
        rec['a'] = draw(_spoly(p, maxlen=4))
        rec['n'] = draw(st.integers(0, 4))
    if sig == 'un':
        rec['n'] = draw(st.integers(0, 10))
        if name == 'getitem':
            if not rec['a']['c']:
                rec['a'] = draw(_spoly(p, minlen=1, maxlen=mx))
            rec['n'] = draw(st.integers(0, len(rec['a']['c']) - 1))   # beyond the length bound: F38a
    if sig == 'ud':
        rec['n'] = draw(st.integers(-1, 10))
    if sig == 'usd':
        n = len(rec['a']['c'])
        rec['d'] = [draw(st.integers(-1, n - 1)), draw(st.integers(-1, n - 1))]
        rec['dt'] = draw(st.sampled_from(['fld', 'int']))
        rec['ds'] = draw(st.integers(0, 6))
    if sig == 'ux':
        rec['x'] = [draw(_coef(p)), draw(_coef(p))]
        rec['xs'] = draw(st.integers(0, 6))
        if name == 'call_pub' and _in_f38j(rec):
            n = len(rec['a']['c'])
            lim = int((2**63 - 1) ** (1 / max(n - 1, 1))) - 1 if n >= 2 else 2**63 - 1   # F38j beyond
            rec['x'] = [min(x, lim, p - 1) for x in rec['x']]
    if sig == 'uio':
        rec['recv'] = draw(st.lists(st.integers(0, 6), min_size=1, max_size=3))
    if sig in ('bin', 'binc'):
        rec['a'] = draw(_spoly(p, maxlen=mx))
        rec['b'] = draw(_spoly(p, maxlen=mx))
        if draw(st.integers(0, 3)) == 0:   # equal lengths: fast paths; equal values: == / <= boundaries
            rec['b'] = {'c': list(rec['a']['c']), 'alt': draw(_coefs(p, len(rec['a']['c']))),
                        's': rec['b']['s']}
    if sig == 'bin' and name in F38B_OPS and not rec['a']['c'] and not rec['b']['c']:
        rec['b'] = draw(_spoly(p, minlen=1, maxlen=mx))
    if sig == 'binc':
        rec['c'] = [draw(st.integers(0, 1)), draw(st.integers(0, 1))]
        rec['ct'] = draw(st.sampled_from(['sec', 'sec', 'pub']))
        if rec['ct'] == 'pub':
            rec['c'][1] = rec['c'][0]       # public information is the same for both value sets
        rec['cs'] = draw(st.integers(0, 6))
    if sig == 'binp':
        rec['a'] = draw(_spoly(p, maxlen=mx))
        rec['pb'] = draw(_ppoly(p, maxlen=mx))
        if draw(st.integers(0, 4)) == 0:
            c = list(rec['a']['c'])
            while c and not c[-1]:
                c.pop()
            rec['pb'] = c
        if name in F38B_OPS and not rec['a']['c'] and not rec['pb']:
            rec['a'] = draw(_spoly(p, minlen=1, maxlen=mx))
    if sig == 'div':
        rec['a'] = draw(_spoly(p, maxlen=mx))
        rec['b'] = draw(_spoly(p, maxlen=mx, nonzero=True))
    if sig == 'divp':
        rec['a'] = draw(_spoly(p, maxlen=mx))
        rec['pb'] = draw(_ppoly(p, maxlen=mx, nonzero=True))
    if sig == 'rdivp':
        rec['a'] = draw(_spoly(p, maxlen=mx, nonzero=True))
        rec['pb'] = draw(_ppoly(p, maxlen=mx))
    if sig == 'gcd':
        mg = 4 if small_len else 6
        rec['a'] = draw(_spoly(p, maxlen=mg))
        rec['b'] = draw(_spoly(p, maxlen=mg))
        mode = draw(st.sampled_from(['free', 'full', 'full', 'planted']))
        if mode == 'full':
            # equal public lengths, full secret degrees, generic coefficients: needs all 2d-1 division steps
            n = draw(st.integers(1, mg))
            for r in ('a', 'b'):
                rec[r] = {'s': rec[r]['s']}
                for key in ('c', 'alt'):
                    c = draw(st.lists(st.integers(0, p - 1), min_size=n, max_size=n))
                    if draw(st.integers(0, 5)) > 0:
                        c[-1] = c[-1] or 1
                    rec[r][key] = c
        if name == 'gcdext' and not rec['a']['c'] and not rec['b']['c']:
            rec['b'] = draw(_spoly(p, minlen=1, maxlen=mg))
        if mode == 'planted' and len(rec['a']['c']) and len(rec['b']['c']):
            # plant a common factor so that the gcd is non-trivial
            poly = GFpX(p)
            g = draw(_coefs(p, draw(st.integers(1, 3)), nonzero=True))
            for key in ('c', 'alt'):
                for r in ('a', 'b'):
                    L = len(rec[r][key])
                    prod = [int(x) for x in poly(list(g)) * poly(list(rec[r][key]))]
                    prod = (prod + [0] * L)[:L]   # keep the public length; truncation keeps a valid polynomial
                    rec[r][key] = prod
        for key in ('c', 'alt'):   # both operands zero: F38f
            if not any(rec['a'][key]) and not any(rec['b'][key]):
                r = 'a' if rec['a'][key] else 'b'
                if rec[r][key]:
                    rec[r][key][0] = 1
    if sig in ('inv', 'powmod'):
        mg = 4 if small_len else 6
        rec['a'] = draw(_spoly(p, minlen=1, maxlen=mg))
        rec['b'] = draw(_spoly(p, minlen=2 if sig == 'inv' else 1, maxlen=mg, nonzero=True))
        if sig == 'powmod':
            rec['n'] = draw(st.sampled_from([0, 1, 2, 3, 4, 5, 6, -1, -2, -3]))
        if sig == 'powmod' and rec['n'] == 1 and _in_f38c(rec):
            rec['n'] = 2
        if sig == 'inv' or rec['n'] < 0:
            for key in ('c', 'alt'):
                a = _make_coprime(p, rec['a'][key], rec['b'][key])
                if a is None:   # cannot happen for nonzero b unless b | everything; fall back to b = 1
                    rec['b'][key] = [1] + [0] * (len(rec['b'][key]) - 1)
                    a = rec['a'][key]
                rec['a'][key] = a
    if sig == 'irr':
        rec['a'] = draw(_spoly(p, maxlen=4 if small_len else 5))
        if len(rec['a']['c']) >= 2:   # secret zero polynomial: F38d
            rec['a'] = draw(_spoly(p, minlen=2, maxlen=4 if small_len else 5, nonzero=True))
        if draw(st.booleans()):
            # irreducible polynomials are rare among random ones: take monic x^d + low part, search upward
            poly = GFpX(p)
            for key in ('c', 'alt'):
                c = rec['a'][key]
                d = len(c) - 1
                while d >= 1 and not c[d]:
                    d -= 1
                if d >= 1:
                    f = poly(c[:d + 1])
                    for _ in range(60):
                        if poly.is_irreducible(f):
                            break
                        f = f + 1
                    if f.degree() == d:
                        rec['a'][key] = ([int(x) for x in f] + [0] * len(c))[:len(c)]
        for key in ('c', 'alt'):
            if _in_f38e(p, rec['a'][key]):
                rec['a'][key][-1] = 1   # irreducible of degree <= (len-1)//2: F38e
    return rec


@st.composite
def _config(draw):
    """m=1 for the bulk of the value space, a solid share of m>=3 with t>=1, PRSS on and off."""
    m, t = draw(st.sampled_from([(1, 0)] * 9 + [(2, 0)] + [(3, 1)] * 6 + [(3, 0), (4, 1), (4, 1), (5, 2), (5, 1), (7, 3)]))
    return m, t, draw(st.booleans())


@st.composite
def _known_case(draw, p):
    """A single record inside a known-finding class (kept out of the main search, counted separately)."""
    if p == 2:
        which = 'F38h'
    elif p < 61:
        which = draw(st.sampled_from(['F38a', 'F38j']))
    elif p <= 257:
        which = draw(st.sampled_from(['F38a', 'F38b', 'F38c', 'F38d', 'F38e', 'F38f', 'F38j']))
    else:
        which = draw(st.sampled_from(['F38a', 'F38b', 'F38c', 'F38f', 'F38j']))
    e = {'c': [], 'alt': [], 's': 0}
    if which == 'F38h':
        return {'op': 'eq_pub', 'a': draw(_spoly(p, maxlen=4)), 'pb': draw(_ppoly(p, maxlen=4, nonzero=True))}
    if which == 'F38j':
        n = draw(st.integers(2, 5))
        a = draw(_spoly(p, minlen=n, maxlen=n))
        x = min(p - 1, 2**62) if p > 2**40 else p - 1
        n_needed = 2
        while x >= 2 and x ** (n_needed - 1) < 2**63:
            n_needed += 1
        if x < 2 or n_needed > 8:
            return {'op': 'getitem', 'a': a, 'n': len(a['c'])}     # class F38j is empty for this p: F38a instead
        a = draw(_spoly(p, minlen=n_needed, maxlen=n_needed))
        return {'op': 'call_pub', 'a': a, 'x': [x, draw(_coef(p))], 'xs': 0}
    if which == 'F38a':
        a = draw(_spoly(p, maxlen=5))
        return {'op': 'getitem', 'a': a, 'n': len(a['c']) + draw(st.integers(0, 3))}
    if which == 'F38b':
        name = draw(st.sampled_from(sorted(F38B_OPS)))
        if OPS[name][0] == 'binp':
            return {'op': name, 'a': e, 'pb': []}
        return {'op': name, 'a': e, 'b': dict(e)}
    if which == 'F38e':
        n = draw(st.integers(3, 5))
        a = draw(_spoly(p, minlen=n, maxlen=n))
        a['c'] = [draw(st.integers(0, p - 1)), draw(st.integers(1, p - 1))] + [0] * (n - 2)   # linear: irreducible
        return {'op': 'is_irreducible', 'a': a}
    if which == 'F38f':
        a = draw(_spoly(p, minlen=1, maxlen=4))
        k = draw(st.sampled_from(['c', 'alt']))
        a[k] = [0] * len(a['c'])
        name = draw(st.sampled_from(['monic', 'gcd', 'gcdext']))
        if name == 'monic':
            return {'op': 'monic', 'a': a}
        b = draw(_spoly(p, minlen=0, maxlen=4))
        b[k] = [0] * len(b['c'])
        return {'op': name, 'a': a, 'b': b}
    if which == 'F38d':
        a = draw(_spoly(p, minlen=2, maxlen=4))
        a[draw(st.sampled_from(['c', 'alt']))] = [0] * len(a['c'])
        return {'op': 'is_irreducible', 'a': a}
    b = draw(_spoly(p, minlen=1, maxlen=4, nonzero=True))
    a = draw(_spoly(p, minlen=len(b['c']), maxlen=5, nonzero=True))
    a['c'][-1] = a['c'][-1] or 1
    return {'op': 'powmod', 'a': a, 'b': b, 'n': 1}


@st.composite
def _case(draw, tier):
    m, t, prss = draw(_config())
    lo = m + 1 if t > 0 else 2
    kind = draw(st.sampled_from(['small', 'med', 'med', 'med', 'big']))
    if kind == 'small':
        p = draw(st.sampled_from([q for q in SMALL_P if q >= lo]))
    elif kind == 'med':
        p = draw(st.sampled_from(MED_P))
    else:
        p = draw(st.sampled_from(BIG_P))
    seed = draw(st.integers(0, 2**32))
    if m <= 3 and draw(st.integers(0, 99)) == 0:
        return {'m': m, 't': t, 'prss': prss, 'seed': seed, 'p': p, 'ops': [draw(_known_case(p))]}
    small_len = m >= 3
    ring = [n for n, v in OPS.items() if v[1] == 'ring']
    deg = [n for n, v in OPS.items() if v[1] == 'deg']
    heavy = [n for n, v in OPS.items() if v[1] == 'heavy']
    if 64 <= p.bit_length() <= 72:   # F38g: operations built on secpoly._div are kept apart for these primes
        if draw(st.integers(0, 3)) == 0:
            name = draw(st.sampled_from(sorted(DIV_OPS - {'is_irreducible'})))
            return {'m': m, 't': t, 'prss': prss, 'seed': seed, 'p': p, 'ops': [draw(_gen_record(p, m, [name], True))]}
        deg = [n for n in deg if n not in DIV_OPS]
        heavy = [n for n in heavy if n not in DIV_OPS]
    nops = draw(st.integers(1, 5 if m < 3 else 2))
    ops = []
    if p < 61:
        for _ in range(nops):
            ops.append(draw(_gen_record(p, m, ring, small_len)))
    else:
        pool = deg + deg + ring
        for _ in range(nops):
            ops.append(draw(_gen_record(p, m, pool, small_len)))
        extra = draw(st.sampled_from(['none', 'none', 'heavy', 'heavy', 'irr']))
        if extra == 'heavy' and (m <= 3 or (kind == 'med' and m <= 5)):
            ops.append(draw(_gen_record(p, m, heavy, small_len or kind == 'big')))
        elif extra == 'irr' and p <= 257 and m <= 3:
            ops.append(draw(_gen_record(p, m, ['is_irreducible'], small_len)))
    clean = [r for r in ops if known_class(r, p) is None]
    ops = clean or ops[:1]      # records of a known-finding class never share a case with other records
    return {'m': m, 't': t, 'prss': prss, 'seed': seed, 'p': p, 'ops': ops}


def strategy(tier):
    return _case(tier)


# ------------------------------------------------------------------------------------------ evaluation
def _trim(c):
    c = list(c)
    while c and not c[-1]:
        c.pop()
    return c


def _ref_eval(p, rec, key):
    """Expected results (gfpx) for value set key: list of ('poly', coeffs) / ('elt', int)."""
    poly = GFpX(p)
    k = 0 if key == 'c' else 1
    X_ = X()
    X_.secure = False
    X_.cls = poly
    X_.poly = poly
    for r in ('a', 'b'):
        setattr(X_, r, poly(_trim(rec[r][key])) if r in rec else None)
    X_.pb = poly(list(rec['pb'])) if 'pb' in rec else None
    X_.n = rec.get('n')
    X_.x = rec['x'][k] if 'x' in rec else None
    X_.sx = X_.x
    X_.c = rec['c'][k] if 'c' in rec else None
    X_.d = rec['d'][k] if 'd' in rec else None
    if rec['op'] in ('call_pub', 'call_sec'):
        # evaluation: independent Horner reference (gfpx's binary representation is known to be wrong at even points,
        # finding F23c of C23, so gfpx cannot serve as oracle for p = 2 here)
        return [('elt', refmath.peval(_trim(rec['a'][key]), X_.x % p, p))]
    r = OPS[rec['op']][2](X_)
    items = r if isinstance(r, list) else [r]
    out = []
    for it in items:
        if isinstance(it, poly):
            out.append(('poly', [int(x) % p for x in it]))
        else:
            out.append(('elt', int(it) % p))
    return out


def _check_record(p, rec):
    """Preconditions of a record (defensive: generated records satisfy them by construction)."""
    name = rec['op']
    sig = OPS[name][0]
    for r in ('a', 'b'):
        if r in rec and len(rec[r]['c']) != len(rec[r]['alt']):
            return 'length mismatch'
    if OPS[name][1] != 'ring' and p < 61:
        return 'degree-dependent operation for small p'
    if sig == 'div' and not (any(rec['b']['c']) and any(rec['b']['alt'])):
        return 'zero divisor'
    if sig == 'divp' and not any(rec['pb']):
        return 'zero divisor'
    if sig == 'rdivp' and not (any(rec['a']['c']) and any(rec['a']['alt'])):
        return 'zero divisor'
    if sig in ('inv', 'powmod'):
        if not (any(rec['b']['c']) and any(rec['b']['alt'])):
            return 'zero modulus'
        if sig == 'inv' or rec['n'] < 0:
            for key in ('c', 'alt'):
                if not _gcd_is_one(p, _trim(rec['a'][key]), _trim(rec['b'][key])):
                    return 'not invertible'
    if sig == 'usd':
        n = len(rec['a']['c'])
        if not all(-1 <= d <= n - 1 for d in rec['d']):
            return 'secret degree out of range'
    return None


def _make_prog(case):
    p, m = case['p'], case['m']

    async def prog(mpc, pid):
        secfld = mpc.SecFld(p)
        poly = GFpX(p)

        def inp_poly(spec, key):
            s = spec['s'] % m
            c = spec[key]
            if pid == s:
                f = secpoly(np.array(c, dtype=object) if c else np.array([], dtype=int), secfld)
            else:
                f = secpoly(None, secfld, shape=(len(c),))
            return mpc.input(f, senders=s)

        def inp_elt(v, s, stype=None):
            stype = stype or secfld
            s = s % m
            return mpc.input(stype(v if pid == s else None), senders=s)

        results = []
        for rec in case['ops']:
            per_key = []
            for k, key in enumerate(('c', 'alt')):
                X_ = X()
                X_.secure = True
                X_.cls = secpoly
                X_.poly = poly
                X_.a = inp_poly(rec['a'], key) if 'a' in rec else None
                X_.b = inp_poly(rec['b'], key) if 'b' in rec else None
                X_.pb = poly(list(rec['pb'])) if 'pb' in rec else None
                X_.n = rec.get('n')
                X_.x = rec['x'][k] if 'x' in rec else None
                X_.sx = inp_elt(rec['x'][k], rec['xs']) if rec['op'] == 'call_sec' else None
                X_.c = None
                if 'c' in rec:
                    X_.c = inp_elt(rec['c'][k], rec['cs']) if rec['ct'] == 'sec' else bool(rec['c'][k])
                X_.d = None
                if 'd' in rec:
                    if rec['dt'] == 'fld':
                        X_.d = inp_elt(rec['d'][k] % p, rec['ds'])
                    else:
                        X_.d = inp_elt(rec['d'][k], rec['ds'], mpc.SecInt(16))
                r = OPS[rec['op']][2](X_)
                items = r if isinstance(r, list) else [r]
                recv = None
                if 'recv' in rec:
                    recv = sorted({x % m for x in rec['recv']})
                out = []
                for it in items:
                    if isinstance(it, secpoly):
                        ln = len(it.share)
                        v = await mpc.output(it, receivers=recv)
                        if v is None:
                            out.append(['none', ln, None])
                        else:
                            if not isinstance(v, poly):
                                out.append(['badtype', ln, repr(type(v))])
                            else:
                                out.append(['poly', ln, [int(x) % p for x in v]])
                    else:
                        v = await mpc.output(it, receivers=recv)
                        out.append(['elt', None, None if v is None else int(v) % p])
                per_key.append(out)
            results.append(per_key)
        return results

    return prog


def _labels(case):
    m, t, p = case['m'], case['t'], case['p']
    lb = [f'm={m}', f't={t}', 'prss' if case['prss'] else 'noprss',
          'p:small' if p < 61 else ('p:med' if p <= 65537 else 'p:big')]
    lb += ['op:' + r['op'] for r in case['ops']]
    return lb


def _nontrivial(case):
    if not (case['m'] >= 3 and case['t'] >= 1):
        return False
    for rec in case['ops']:
        if rec['op'] in DEGREE_USERS:
            return True
        for r in ('a', 'b'):
            if r in rec and any(len(rec[r][k]) and not rec[r][k][-1] for k in ('c', 'alt')):
                return True
    return False


def run_case(case):
    out = _run_case(case)
    classes = {known_class(rec, case['p']) for rec in case['ops']}
    if classes != {None}:
        out.labels.append('known-class')
        out.nontrivial = False
    if not out.ok and len(classes) == 1 and None not in classes:
        # every record of the case lies in ONE known-finding class (the generator emits such records only alone)
        fid = next(iter(classes))
        if fid in ('F38a', 'F38b', 'F38d'):
            manner = 'run did not complete' in out.detail and ('IndexError' in out.detail or 'AssertionError' in out.detail)
        elif fid == 'F38e':
            manner = out.detail.startswith('is_irreducible') and 'got 0, gfpx gives 1' in out.detail
        elif fid == 'F38f':
            manner = out.detail.startswith('does not terminate')
        elif fid == 'F38j':
            manner = out.detail.startswith('call_pub') or ('run did not complete' in out.detail and 'TypeError' in out.detail)
        elif fid == 'F38h':
            manner = 'run did not complete' in out.detail and 'TypeError' in out.detail
        elif fid == 'F38g':
            manner = 'gfpx gives' in out.detail or 'run did not complete' in out.detail
        else:
            manner = out.detail.startswith('powmod') and 'gfpx gives' in out.detail
        if manner:
            out.known = fid
    return out


def _run_case(case):
    p, m, t = case['p'], case['m'], case['t']
    labels = _labels(case)
    if not (2 * t < m or (m == 1 and t == 0)) or (t > 0 and p <= m):
        return Outcome(True, 'invalid configuration', labels=['skipped'], nontrivial=False, skipped=True)
    for rec in case['ops']:
        why = _check_record(p, rec)
        if why:
            return Outcome(True, f'precondition: {why}', labels=['skipped'], nontrivial=False, skipped=True)
    try:
        expected = [[_ref_eval(p, rec, key) for key in ('c', 'alt')] for rec in case['ops']]
    except Exception:
        return Outcome(True, f'reference raised (invalid record): {traceback.format_exc()[-600:]}',
                       labels=['skipped'], nontrivial=False, skipped=True)
    sim = simmod.Sim(m, t, prss=case['prss'], seed=case['seed'], schedule={'mode': 'fast'}, sec_param=30,
                     numpy=True)
    f38f = any(known_class(rec, p) == 'F38f' for rec in case['ops'])
    sim.MAX_STEPS = 60_000 if f38f else 1_000_000
    try:
        res = sim.run_programs(_make_prog(case))
    except Exception:
        return Outcome(False, f'exception on valid input: {traceback.format_exc()[-2000:]}\ncase={case}', labels=labels)
    finally:
        sim.close()
    if res.inconclusive:
        if f38f:
            return Outcome(False, f'does not terminate ({sim.MAX_STEPS} simulator steps; 1/0 in _monic loops in '
                           f'Runtime.reciprocal): ops={[r["op"] for r in case["ops"]]}', labels=labels)
        return Outcome(True, 'step cap', labels=labels + ['inconclusive'], inconclusive=True, nontrivial=False)
    if not res.all_done:
        err = ('\n'.join(e[-1500:] for _, e in res.errors[:1])) if res.errors else ''
        return Outcome(False, f'run did not complete: {res.describe()}\n{err}\nops={[r["op"] for r in case["ops"]]}',
                       labels=labels)
    soft = None
    poly = GFpX(p)
    for i, rec in enumerate(case['ops']):
        recv = sorted({x % m for x in rec['recv']}) if 'recv' in rec else list(range(m))
        for k, key in enumerate(('c', 'alt')):
            exp = expected[i][k]
            for pid in range(m):
                got = res.values[pid][i][k]
                if rec['op'] == 'gcdext' and len(got) == 3 and all(x[0] == 'poly' for x in got) and \
                        got[0][2] == exp[0][1] and [x[2] for x in got[1:]] != [x[1] for x in exp[1:]]:
                    # F38i: correct gcd, Bezout coefficients differ from gfpx's: a valid but unreduced pair?
                    g, u, v = (poly(list(x[2])) for x in got)
                    a_, b_ = poly(_trim(rec['a'][key])), poly(_trim(rec['b'][key]))
                    if u * a_ + v * b_ == g and all(x[1] >= len(x[2]) for x in got):
                        soft = soft or (f'gcdext [{key}]: Bezout coefficients ({got[1][2]}, {got[2][2]}) satisfy u*a + v*b = g but '
                                        f'differ from gfpx ({exp[1][1]}, {exp[2][1]}); rec={rec} p={p} m={m} t={t}')
                        continue
                if rec['op'] == 'invert' and len(got) == 1 and got[0][0] == 'poly' and got[0][2] != exp[0][1]:
                    u = poly(list(got[0][2]))
                    a_, b_ = poly(_trim(rec['a'][key])), poly(_trim(rec['b'][key]))
                    if (u * a_ - 1) % b_ == 0 and got[0][1] >= len(got[0][2]):
                        soft = soft or (f'invert [{key}]: {got[0][2]} is an inverse of a modulo b but not the reduced one gfpx '
                                        f'returns {exp[0][1]} (same root as gcdext); rec={rec} p={p} m={m} t={t}')
                        continue
                if len(got) != len(exp):
                    return Outcome(False, f'{rec["op"]}: {len(got)} results, expected {len(exp)}; rec={rec}', labels=labels)
                for j, ((kind, val), (gk, ln, gv)) in enumerate(zip(exp, got)):
                    if pid not in recv:
                        if gv is not None:
                            return Outcome(False, f'{rec["op"]}: non-receiver {pid} obtained {gv}; rec={rec}', labels=labels)
                        continue
                    if gk != kind:
                        return Outcome(False, f'{rec["op"]} [{key}] result {j}: kind {gk} ({gv}), expected {kind}; '
                                       f'rec={rec} p={p}', labels=labels)
                    if gv != val:
                        return Outcome(False, f'{rec["op"]} [{key}] result {j} at party {pid}: got {gv}, gfpx gives {val}; '
                                       f'rec={rec} p={p} m={m} t={t}', labels=labels)
                    if kind == 'poly' and ln < len(val):
                        return Outcome(False, f'{rec["op"]}: len {ln} < {len(val)}', labels=labels)
        # metamorphic: public length of every result identical for the two secret value sets
        l0 = [x[1] for x in res.values[0][i][0]]
        l1 = [x[1] for x in res.values[0][i][1]]
        if l0 != l1:
            return Outcome(False, f'{rec["op"]}: len() of results depends on secret values: {l0} vs {l1}; rec={rec} p={p}',
                           labels=labels)
    if soft:
        return Outcome(False, soft, labels=labels + ['F38i'], known='F38i')
    return Outcome(True, labels=labels, nontrivial=_nontrivial(case))
