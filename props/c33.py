"""C33: the secure random functions of mpyc.random stay in range/shape and are exactly uniform.

Oracle A (shape and range, generated): (m,t,PRSS) x secure type x function x arguments, run in the
in-process simulator; every party opens the result; all parties must see the same value and the value
must have the documented shape: getrandbits in [0,2^k) (bits: k bits, little endian), randrange in
range(start,stop,step), randint in [a,b], choice/choices elements of the population (never an element
of weight 0), sample a sub-multiset of the population (k items), shuffle/random_permutation a
rearrangement, random_derangement a rearrangement without fixed point, random_unit_vector n bits with
exactly one 1, random in [0,1), uniform between a and b on the 2^-f grid.  Documented exceptions
(randrange empty range -> ValueError, choice of empty sequence -> IndexError, choices with both kinds
of weights -> TypeError / wrong number of weights -> ValueError, random/uniform on a type without
fractional part -> TypeError) are expected results.

Oracle B (exact uniformity given uniformly random secret bits, enumerated cells): one party,
synchronous runtime.  `runtime.random_bits` AS SEEN BY mpyc/random.py (the module global `runtime` of
random.py is wrapped; the runtime's own internal uses, e.g. inside comparisons, are untouched) is
replaced by a feeder that hands out a prescribed bit prefix and aborts the call when more bits are
requested.  The harness explores the binary tree of bit outcomes, heaviest (shortest) prefixes first:
a completed run with a prefix of length L is a leaf of mass 2^-L (exact Fractions) whose opened
result is the outcome; an aborted run asking for j more bits is expanded into its 2^j children.  When
the run budget is used up (or the unexplored mass U drops below 2^-12) every outcome o must satisfy
      explored_mass(o) <= documented_probability(o) <= explored_mass(o) + U
and no outcome outside the documented support may occur at any leaf.  Whatever the unexplored part of
the tree does, a correct implementation satisfies this (no statistics, no false alarms); a biased one
violates it as soon as the bias exceeds U.  `_randbelow` over a field of the same order as n draws
from runtime._random (no bits): only Oracle A applies there.
"""
import heapq
import itertools
import math
import traceback
from fractions import Fraction
from hypothesis import strategies as st
from vlib.boot import boot
from vlib.runner import Outcome

boot(numpy=False)
from vlib import sim as simmod  # noqa: E402
import mpyc.random as mrandom  # noqa: E402
from mpyc.sectypes import SecureObject  # noqa: E402

ID = 'C33'
LEVEL = 'exploration'
CASE_TIMEOUT = 3000   # a cell is up to 40000 sequential runs; the watchdog is for non-termination only
RULE = ('Oracle A: generated (m,t,PRSS) x type (SecInt, SecFxp, prime/binary SecFld) x all 12 functions of the '
        'statement x ranges/steps/populations (public, secret, mixed, duplicates)/k/weights/cum_weights incl. the '
        'documented exceptions; result opened at every party, equal everywhere and of the documented shape. '
        'Oracle B: enumerated cells (function, type, arguments), m=1: complete binary tree of the secret random bits '
        'consumed by mpyc/random.py explored heaviest-first with exact Fraction masses up to a run budget '
        '(unexplored mass U reported per cell); every outcome o: explored(o) <= documented probability <= '
        'explored(o)+U, support exact. non-trivial: A = m>=3,t>=1 with a result that has more than one possible '
        'value; B = cell with at least 2 outcomes and U <= 1/32')
ASSUMPTIONS = ['Oracle B models the secret random bits handed to mpyc/random.py as independent fair bits (that '
               'runtime.random_bits delivers such bits is C30/C18 territory) and treats the public zero tests used '
               'by sample(range)/random_derangement as exact (error probability <= 1/field order per test)',
               'uniform(a,b): a and b on the 2^-f grid; documented distribution read as uniform on the grid points '
               'of [a,b) (what a + (b-a)*random() gives) or of [a,b]; both accepted',
               'random_derangement: argument free of duplicates and of length != 1 (documented assumption; no '
               'derangement of one item exists)']


# F33a..F33e are fixed in /repo: their input classes are generated freely again
AVOID_KNOWN = False


def budget(tier):
    return dict(shards=16, examples=110 if tier == 'quick' else 1500)


# ------------------------------------------------------------------------------------------------
# types: public description

class T:
    def __init__(self, typ):
        self.typ = typ
        self.kind = typ[0]
        self.f = 0
        if self.kind == 'int':
            self.l = typ[1]
            self.lo, self.hi = -2**(self.l - 1), 2**(self.l - 1) - 1
            self.nmax = 2**(self.l - 1)          # largest n for _randbelow (k <= l-1 bits)
        elif self.kind == 'fxp':
            self.l, self.f = typ[1], typ[2]
            self.lo, self.hi = -2**(self.l - self.f - 1), 2**(self.l - self.f - 1) - 1   # whole numbers
            self.nmax = 2**(self.l - self.f - 1)
        else:
            self.order = typ[1]
            self.binary = self.order & (self.order - 1) == 0 and self.order > 2
            self.lo, self.hi = 0, self.order - 1
            self.nmax = self.order
        self.ordered = self.kind != 'fld'
        self.arith = not (self.kind == 'fld' and (self.binary or self.order == 2))  # integer arithmetic meaningful

    def mk(self, mpc):
        if self.kind == 'int':
            return mpc.SecInt(self.l)
        if self.kind == 'fxp':
            return mpc.SecFxp(self.l, self.f)
        return mpc.SecFld(self.order)


TYPES = [['int', 8], ['int', 16], ['int', 32], ['fxp', 8, 4], ['fxp', 16, 8], ['fxp', 32, 16],
         ['fld', 11], ['fld', 101], ['fld', 2**31 - 1], ['fld', 16], ['fld', 256], ['fld', 2]]

FUNCS = ['getrandbits', 'randrange', 'randint', 'choice', 'choices', 'sample', 'shuffle', 'random_permutation',
         'random_derangement', 'random_unit_vector', 'random', 'uniform']


# ------------------------------------------------------------------------------------------------
# calling a function and opening its result (inside a party program)

class _Plain(Exception):
    """A public Python number came back where a secure object is documented."""


def _elem(ST, tt, e, mine=True):
    """Population element [form, v]: 'pub' -> Python number, 'sec' -> secure number (whole numbers only)."""
    form, v = e
    if form == 'pub':
        return v
    if tt.kind == 'fxp':
        return ST(v, integral=True)
    return ST(v)


async def _open(mpc, ST, tt, x, allow_plain=False):
    """Open x (secure number, list or list of lists) -> ints (fixed point: raw, scaled by 2^f)."""
    if isinstance(x, (list, tuple)):
        if x and all(isinstance(a, SecureObject) for a in x):
            for a in x:
                if type(a) is not ST:
                    raise TypeError(f'result item of type {type(a).__name__}, expected {ST.__name__}')
            if tt.kind == 'fxp':
                return [int(a) for a in await mpc.output(list(x), raw=True)]
            return [int(a) for a in await mpc.output(list(x))]
        return [await _open(mpc, ST, tt, a, allow_plain) for a in x]
    if isinstance(x, SecureObject):
        if type(x) is not ST:
            raise TypeError(f'result of type {type(x).__name__}, expected {ST.__name__}')
        if tt.kind == 'fxp':
            return int(await mpc.output(x, raw=True))
        return int(await mpc.output(x))
    if allow_plain and isinstance(x, int) and not isinstance(x, bool):
        return x << tt.f
    raise _Plain(f'{type(x).__name__} {x!r}')


async def _call(mpc, ST, tt, case):
    """Run the function of the case once; returns the opened result (or raises)."""
    fn, a = case['fn'], case['args']
    R = mrandom
    if fn == 'getrandbits':
        r = R.getrandbits(ST, a['k'], bits=True) if a.get('bits') else R.getrandbits(ST, a['k'])
        return await _open(mpc, ST, tt, r, allow_plain=True)   # k = 0: plain 0 / [] (docstring does not say secret)
    if fn == 'randrange':
        r = R.randrange(ST, *a['range'])
        return await _open(mpc, ST, tt, r)
    if fn == 'randint':
        return await _open(mpc, ST, tt, R.randint(ST, a['a'], a['b']))
    if fn == 'random_unit_vector':
        return await _open(mpc, ST, tt, R.random_unit_vector(ST, a['n']))
    if fn == 'random':
        return await _open(mpc, ST, tt, R.random(ST))
    if fn == 'uniform':
        # a, b are raw grid points; pass floats (exactly representable)
        f = a['f']
        return await _open(mpc, ST, tt, R.uniform(ST, a['a'] / 2**f, a['b'] / 2**f))
    if fn == 'choice':
        seq = [_elem(ST, tt, e) for e in a['pop']]
        if a.get('tuple'):
            seq = tuple(seq)
        return await _open(mpc, ST, tt, R.choice(ST, seq))
    if fn == 'choices':
        pop = [_elem(ST, tt, e) for e in a['pop']]
        kw = {'k': a['k']}
        if a.get('weights') is not None:
            kw['weights'] = list(a['weights'])
        if a.get('cum_weights') is not None:
            kw['cum_weights'] = list(a['cum_weights'])
        r = R.choices(ST, pop, **kw)
        if not isinstance(r, list) or len(r) != a['k']:
            raise TypeError(f'choices returned {type(r).__name__} of length {len(r) if hasattr(r, "__len__") else "?"}')
        return [await _open(mpc, ST, tt, x) for x in r]
    if fn == 'sample':
        if 'range' in a:
            pop = range(*a['range'])
        else:
            pop = [_elem(ST, tt, e) for e in a['pop']]
        r = R.sample(ST, pop, a['k'])
        if not isinstance(r, list) or len(r) != a['k']:
            raise TypeError('sample did not return a list of k items')
        return await _open(mpc, ST, tt, r) if r else []
    if fn == 'shuffle':
        if a.get('rows'):
            x = [[_elem(ST, tt, e) for e in row] for row in a['pop']]
        else:
            x = [_elem(ST, tt, e) for e in a['pop']]
        ret = R.shuffle(ST, x)
        if ret is not None:
            raise TypeError('shuffle returned a value')
        if len(x) != len(a['pop']):
            raise TypeError('shuffle changed the length of the list')
        return await _open(mpc, ST, tt, x) if x else []
    if fn in ('random_permutation', 'random_derangement'):
        g = getattr(R, fn)
        if 'n' in a:
            r = g(ST, a['n'])
        else:
            r = g(ST, [_elem(ST, tt, e) for e in a['pop']])
        if not isinstance(r, list):
            raise TypeError(f'{fn} returned {type(r).__name__}')
        return await _open(mpc, ST, tt, r) if r else []
    raise ValueError(fn)


# ------------------------------------------------------------------------------------------------
# the documented distribution of a call: dict outcome -> Fraction (outcomes hashable, opened representation)

def _key(x):
    return tuple(_key(a) for a in x) if isinstance(x, list) else x


def _vals(tt, pop):
    """Opened representation of population values (whole numbers; fixed point scaled)."""
    return [v << tt.f for _, v in pop]


def expected_error(case):
    """Documented exception for these arguments (name) or None."""
    fn, a = case['fn'], case['args']
    tt = T(case['typ'])
    if fn == 'randrange' and len(range(*a['range'])) == 0:
        return 'ValueError'
    if fn == 'randint' and a['b'] < a['a']:
        return 'ValueError'
    if fn == 'choice' and not a['pop']:
        return 'IndexError'
    if fn == 'choices':
        if a.get('weights') is not None and a.get('cum_weights') is not None:
            return 'TypeError'
        w = a.get('weights') if a.get('weights') is not None else a.get('cum_weights')
        if w is not None and len(w) != len(a['pop']):
            return 'ValueError'
        if w is None and not a['pop'] and a['k'] > 0:
            return 'IndexError'
    if fn in ('random', 'uniform') and tt.f == 0:
        return 'TypeError'
    return None


def distribution(case):
    """-> dict {outcome: Fraction}.  Outcomes in the opened representation produced by _call (lists -> tuples)."""
    fn, a = case['fn'], case['args']
    tt = T(case['typ'])
    one = Fraction(1)
    f = tt.f
    if fn == 'getrandbits':
        k = a['k']
        if a.get('bits'):
            return {tuple(((v >> i) & 1) << f for i in range(k)): one / 2**k for v in range(2**k)}
        return {v << f: one / 2**k for v in range(2**k)}
    if fn == 'randrange':
        rg = range(*a['range'])
        return {v << f: one / len(rg) for v in rg}
    if fn == 'randint':
        n = a['b'] - a['a'] + 1
        return {v << f: one / n for v in range(a['a'], a['b'] + 1)}
    if fn == 'random_unit_vector':
        n = a['n']
        return {tuple(int(i == j) << f for i in range(n)): one / n for j in range(n)}
    if fn == 'random':
        return {v: one / 2**f for v in range(2**f)}
    if fn == 'uniform':
        lo, hi = a['a'], a['b']
        n = abs(hi - lo)
        s = 1 if hi >= lo else -1
        return {lo + s * j: one / n for j in range(n)} if n else {lo: one}
    if fn == 'choice':
        vals = _vals(tt, a['pop'])
        d = {}
        for v in vals:
            d[v] = d.get(v, 0) + one / len(vals)
        return d
    if fn == 'choices':
        vals = _vals(tt, a['pop'])
        if a.get('weights') is not None:
            w = list(a['weights'])
        elif a.get('cum_weights') is not None:
            cw = list(a['cum_weights'])
            w = [cw[0]] + [cw[i] - cw[i - 1] for i in range(1, len(cw))]
        else:
            w = [1] * len(vals)
        tot = sum(w)
        single = {}
        for v, wi in zip(vals, w):
            if wi:
                single[v] = single.get(v, 0) + Fraction(wi, tot)
        d = {}
        for combo in itertools.product(single.items(), repeat=a['k']):
            key = tuple(v for v, _ in combo)
            pr = one
            for _, q in combo:
                pr *= q
            d[key] = d.get(key, 0) + pr
        return d
    if fn == 'sample':
        vals = [v << f for v in range(*a['range'])] if 'range' in a else _vals(tt, a['pop'])
        n, k = len(vals), a['k']
        d = {}
        cnt = math.perm(n, k)
        for pos in itertools.permutations(range(n), k):
            key = tuple(vals[i] for i in pos)
            d[key] = d.get(key, 0) + one / cnt
        return d
    if fn in ('shuffle', 'random_permutation', 'random_derangement'):
        if 'n' in a:
            vals = [v << f for v in range(a['n'])]
        elif a.get('rows'):
            vals = [tuple(_vals(tt, row)) for row in a['pop']]
        else:
            vals = _vals(tt, a['pop'])
        n = len(vals)
        perms = [p for p in itertools.permutations(range(n))
                 if fn != 'random_derangement' or all(p[i] != i for i in range(n))]
        d = {}
        for p in perms:
            key = tuple(vals[i] for i in p)
            d[key] = d.get(key, 0) + one / len(perms)
        return d
    raise ValueError(fn)


def shape_error(case, out):
    """Oracle A on one opened result: None or a message (does not enumerate the support: works for large ranges)."""
    fn, a = case['fn'], case['args']
    tt = T(case['typ'])
    f = tt.f
    unit = 1 << f

    def whole(v):
        return isinstance(v, int) and v % unit == 0

    if fn == 'getrandbits':
        k = a['k']
        if a.get('bits'):
            if not (isinstance(out, list) and len(out) == k and all(b in (0, unit) for b in out)):
                return f'not a list of {k} bits: {out}'
            return None
        if not (whole(out) and 0 <= out >> f < 2**k):
            return f'{out} (scaled by 2^{f}) is not a nonnegative {k}-bit integer'
        return None
    if fn == 'randrange':
        rg = range(*a['range'])
        if not (whole(out) and (out >> f) in rg):
            return f'{out} (scaled by 2^{f}) not in {rg}'
        return None
    if fn == 'randint':
        if not (whole(out) and a['a'] <= out >> f <= a['b']):
            return f'{out} (scaled by 2^{f}) not in [{a["a"]}, {a["b"]}]'
        return None
    if fn == 'random_unit_vector':
        if not (isinstance(out, list) and len(out) == a['n'] and all(b in (0, unit) for b in out)
                and sum(out) == unit):
            return f'not a unit vector of length {a["n"]}: {out}'
        return None
    if fn == 'random':
        if not (isinstance(out, int) and 0 <= out < unit):
            return f'raw value {out} not in [0, 2^{f})'
        return None
    if fn == 'uniform':
        lo, hi = min(a['a'], a['b']), max(a['a'], a['b'])
        if not (isinstance(out, int) and lo <= out <= hi):
            return f'raw value {out} not between {lo} and {hi} (a <= N <= b violated; scaled by 2^{f})'
        return None
    if fn == 'choice':
        if out not in _vals(tt, a['pop']):
            return f'{out} is not an element of the sequence {_vals(tt, a["pop"])}'
        return None
    if fn == 'choices':
        vals = _vals(tt, a['pop'])
        if a.get('weights') is not None:
            w = list(a['weights'])
        elif a.get('cum_weights') is not None:
            cw = list(a['cum_weights'])
            w = [cw[0]] + [cw[i] - cw[i - 1] for i in range(1, len(cw))]
        else:
            w = [1] * len(vals)
        ok = {v for v, wi in zip(vals, w) if wi}
        if not (isinstance(out, list) and len(out) == a['k'] and all(v in ok for v in out)):
            return f'{out}: not {a["k"]} elements of positive weight of {vals} (weights {w})'
        return None
    if fn == 'sample':
        vals = [v << f for v in range(*a['range'])] if 'range' in a else _vals(tt, a['pop'])
        if not (isinstance(out, list) and len(out) == a['k']):
            return f'not a list of {a["k"]} items: {out}'
        rest = list(vals)
        for v in out:
            if v not in rest:
                return f'{out} is not a selection without replacement from {vals}'
            rest.remove(v)
        return None
    if fn in ('shuffle', 'random_permutation', 'random_derangement'):
        if 'n' in a:
            vals = [v << f for v in range(a['n'])]
        elif a.get('rows'):
            vals = [_vals(tt, row) for row in a['pop']]
        else:
            vals = _vals(tt, a['pop'])
        if not (isinstance(out, list) and len(out) == len(vals)
                and sorted(map(_key, out), key=repr) == sorted(map(_key, vals), key=repr)):
            return f'{out} is not a rearrangement of {vals}'
        if fn == 'random_derangement' and any(x == y for x, y in zip(out, vals)):
            return f'{out} has a fixed point (argument {vals})'
        return None
    return f'unknown function {fn}'


# ------------------------------------------------------------------------------------------------
# known-finding classes (precise predicates over cases)

def finding_class(case):
    """-> (finding id, symptom predicate on (kind, text)) or (None, None)."""
    fn, a = case['fn'], case['args']
    tt = T(case['typ'])
    # F33a: empty sequences raise IndexError (Python's shuffle([]) / sample([], 0) work)
    empty = False
    if fn in ('shuffle', 'random_permutation', 'random_derangement'):
        empty = (a.get('n') == 0) if 'n' in a else len(a['pop']) == 0
    if fn == 'sample' and 'pop' in a and len(a['pop']) == 0 and a['k'] == 0:
        empty = True
    if empty:
        return 'F33a', lambda kind, text: kind == 'exc' and 'IndexError' in text
    # F33b: uniform(a, b) with a == b draws a bit: result a or a + 2^-f
    if fn == 'uniform' and tt.f and a['a'] == a['b']:
        return 'F33b', lambda kind, text: kind == 'shape' and 'a <= N <= b violated' in text
    # F33c: a single possible value: _randbelow(sectype, 1) is the Python int 0
    single = False
    if fn == 'randrange' and len(range(*a['range'])) == 1:
        single = True
    if fn == 'randint' and a['a'] == a['b']:
        single = True
    if fn == 'uniform' and tt.f and abs(a['a'] - a['b']) == 1:
        single = True
    if single:
        return 'F33c', lambda kind, text: kind == 'plain'
    if fn == 'sample' and 'range' in a and len(range(*a['range'])) == 1 and a['k'] == 1:
        # the one-item sample is the plain int of randrange (asynchronous runtime: it lands in a placeholder)
        return 'F33c', lambda kind, text: kind == 'plain' or (kind == 'exc' and "'int' object has no attribute" in text)
    if fn == 'choices' and expected_error(case) is None and a['k'] > 0:
        w = a.get('weights') if a.get('weights') is not None else a.get('cum_weights')
        if w is not None:
            if a.get('cum_weights') is not None:
                w = [w[0]] + [w[i] - w[i - 1] for i in range(1, len(w))]
            if sum(1 for x in w if x) == 1:
                return 'F33c', lambda kind, text: kind == 'exc' and 'AttributeError' in text
            # F33e: weighted choices over fixed-point numbers: the public 1 in the step-function difference
            # is not scaled by 2^f, the selected "unit vector" is wrong
            if tt.kind == 'fxp' and len(a['pop']) >= 2:
                return 'F33e', lambda kind, text: kind == 'shape'
    # F33d: sample from a population mixing public and secret items (documented: "public and/or secret")
    if fn == 'sample' and 'pop' in a and len({e[0] for e in a['pop']}) == 2:
        return 'F33d', lambda kind, text: kind == 'exc' and ('AttributeError' in text or 'TypeError' in text)
    return None, None


# ------------------------------------------------------------------------------------------------
# Oracle A: one generated call at a generated configuration

def _labels(case):
    tt = T(case['typ'])
    return [f'fn={case["fn"]}', f'type={tt.kind}']


def run_shape(case):
    m, t = case['m'], case['t']
    tt = T(case['typ'])
    labels = _labels(case) + [f'm={m}', f't={t}', f'prss={case["prss"]}']
    if case.get('avoided'):
        labels.append('generator-avoided-known-class')
    want_exc = expected_error(case)
    fid, symptom = finding_class(case)
    if fid:
        labels.append('in-class:' + fid)
    no_async = bool(case.get('no_async')) and m == 1

    async def prog(mpc, pid):
        ST = tt.mk(mpc)
        try:
            return ('ok', await _call(mpc, ST, tt, case))
        except _Plain as e:
            return ('plain', str(e))
        except Exception as e:
            return ('exc', type(e).__name__, traceback.format_exc()[-1800:])

    sim = simmod.Sim(m, t, prss=case['prss'], seed=case['seed'], schedule={'mode': 'fast'}, sec_param=30,
                     options={'no_async': True} if no_async else None)
    try:
        res = sim.run_programs(prog)
    except Exception:
        return Outcome(False, f'exception outside the party programs: {traceback.format_exc()[-2000:]}\ncase={case}',
                       labels=labels)
    finally:
        sim.close()
    if res.inconclusive:
        return Outcome(True, inconclusive=True, nontrivial=False, labels=labels)

    def fail(kind, text):
        known = fid if (fid and symptom(kind, text)) else None
        return Outcome(False, f'{text}\ncase={case}', labels=labels, known=known)

    if not res.all_done:
        txt = ' '.join(x for _, x in res.errors[:2])
        return fail('exc', f'run did not complete: {res.describe()} {txt[-1500:]}')
    if res.errors:
        # e.g. the body of a coroutine failed after its (empty) list of placeholders had been handed out
        txt = ' '.join(x for _, x in res.errors[:2])
        return fail('exc', f'exception inside an MPyC coroutine (reported to the event loop): {txt[-1500:]}')
    v0 = res.values[0]
    if any(v[:2] != v0[:2] for v in res.values):
        return fail('disagree', f'parties disagree: {[v[:2] for v in res.values]}')
    if want_exc:
        labels.append('documented-exception')
        if v0[0] == 'exc' and v0[1] == want_exc:
            return Outcome(True, labels=labels, nontrivial=False)
        return fail('noexc', f'expected {want_exc}, got {v0[:2]}')
    if v0[0] == 'plain':
        return fail('plain', f'public Python number returned where a secure number is documented: {v0[1]}')
    if v0[0] == 'exc':
        return fail('exc', f'exception on valid input: {v0[2]}')
    err = shape_error(case, v0[1])
    if err:
        return fail('shape', f'{case["fn"]}: {err}')
    multi = case['fn'] not in ('random_unit_vector',) or case['args'].get('n', 2) > 1
    return Outcome(True, labels=labels, nontrivial=m >= 3 and t >= 1 and multi)


# ------------------------------------------------------------------------------------------------
# Oracle B: exact exploration of the bit tree

class _NeedBits(Exception):
    def __init__(self, k):
        super().__init__(k)
        self.k = k


class _Feeder:
    """Stands in for `runtime` inside mpyc/random.py: random_bits follows a prescribed prefix."""

    def __init__(self, inner, tt):
        object.__setattr__(self, '_inner', inner)
        object.__setattr__(self, '_tt', tt)
        object.__setattr__(self, 'prefix', ())
        object.__setattr__(self, 'pos', 0)
        object.__setattr__(self, 'calls', 0)

    def __getattr__(self, name):
        return getattr(object.__getattribute__(self, '_inner'), name)

    def __setattr__(self, name, value):
        if name in ('prefix', 'pos', 'calls'):
            object.__setattr__(self, name, value)
        else:
            setattr(object.__getattribute__(self, '_inner'), name, value)

    def random_bits(self, sftype, n, signed=False):
        if signed or not (isinstance(sftype, type) and issubclass(sftype, SecureObject)):
            raise RuntimeError('feeder: unexpected kind of random_bits request from mpyc/random.py')
        self.calls += 1
        have = len(self.prefix) - self.pos
        if have < n:
            raise _NeedBits(n - have)
        bits = self.prefix[self.pos:self.pos + n]
        self.pos += n
        if sftype.frac_length:
            return [sftype(b, integral=True) for b in bits]
        return [sftype(b) for b in bits]


def run_tree(case):
    tt = T(case['typ'])
    labels = _labels(case) + ['tree']
    fid, symptom = finding_class(case)
    try:
        dist = distribution(case)
    except Exception:
        return Outcome(True, skipped=True, nontrivial=False, labels=['invalid-cell'])
    max_runs = case['max_runs']
    target = Fraction(1, 2**12)
    state = {}

    async def prog(mpc, pid):
        ST = tt.mk(mpc)
        feeder = _Feeder(mrandom.runtime, tt)
        saved = mrandom.runtime
        mrandom.runtime = feeder
        masses = {}
        heap = [(0, 0)]     # (length, bits packed little-endian into an int): heaviest prefixes first
        explored = Fraction(0)
        runs = 0
        try:
            while heap and runs < max_runs and 1 - explored > target:
                L, packed = heapq.heappop(heap)
                P = tuple((packed >> j) & 1 for j in range(L))
                feeder.prefix, feeder.pos = P, 0
                runs += 1
                try:
                    out = await _call(mpc, ST, tt, case)
                except _NeedBits as nb:
                    if nb.k > 16:
                        state['err'] = ('harness', f'request for {nb.k} bits at once')
                        return
                    for ext in range(1 << nb.k):
                        heapq.heappush(heap, (L + nb.k, packed | (ext << L)))
                    continue
                except _Plain as e:
                    state['err'] = ('plain', f'public Python number returned where a secure number is '
                                    f'documented: {e} (bits {list(P)})')
                    return
                except Exception:
                    state['err'] = ('exc', f'exception on valid input (bits {list(P)}): '
                                    f'{traceback.format_exc()[-1800:]}')
                    return
                if feeder.pos != len(P):
                    state['err'] = ('harness', f'run finished with {len(P) - feeder.pos} prescribed bits unused')
                    return
                err = shape_error(case, out)
                if err:
                    state['err'] = ('shape', f'{case["fn"]}: {err} (bits {list(P)})')
                    return
                key = _key(out)
                masses[key] = masses.get(key, 0) + Fraction(1, 2**L)
                explored += Fraction(1, 2**L)
        finally:
            mrandom.runtime = saved
        state.update(masses=masses, U=1 - explored, runs=runs, bitcalls=feeder.calls)

    sim = simmod.Sim(1, 0, prss=True, seed=case.get('seed', 0), schedule={'mode': 'fast'}, sec_param=30,
                     options={'no_async': True})
    try:
        res = sim.run_programs(prog)
    except Exception:
        return Outcome(False, f'exception outside the party program: {traceback.format_exc()[-2000:]}\ncase={case}',
                       labels=labels)
    finally:
        sim.close()
    if not res.all_done:
        return Outcome(False, f'exploration program did not complete: {res.describe()} {res.errors[:1]}\ncase={case}',
                       labels=labels)
    if 'err' in state:
        kind, text = state['err']
        if kind == 'harness':
            raise RuntimeError(f'C33 tree harness: {text} case={case}')
        known = fid if (fid and symptom(kind, text)) else None
        return Outcome(False, f'{text}\ncase={case}', labels=labels + (['in-class:' + fid] if fid else []),
                       known=known)
    masses, U, runs = state['masses'], state['U'], state['runs']
    for o in masses:
        if o not in dist:
            return Outcome(False, f'{case["fn"]}: outcome {o} outside the documented support\ncase={case}',
                           labels=labels)
    # uniform(): the closed grid [a,b] is an acceptable reading too
    dists = [dist]
    if case['fn'] == 'uniform' and len(dist) > 1:
        a = case['args']
        s = 1 if a['b'] >= a['a'] else -1
        n = abs(a['b'] - a['a'])
        dists.append({a['a'] + s * j: Fraction(1, n + 1) for j in range(n + 1)})
    bad = None
    for d in dists:
        bad = None
        for o, e in d.items():
            p = masses.get(o, Fraction(0))
            if not (p <= e <= p + U):
                bad = (o, p, e)
                break
        if bad is None:
            break
    ub = 'U=0' if U == 0 else 'U<=2^-12' if U <= target else 'U<=1/32' if U <= Fraction(1, 32) else 'U>1/32'
    labels += [ub, f'outcomes={min(len(dist), 1000)}' if len(dist) in (1, 2) else 'outcomes>2']
    if bad is not None:
        o, p, e = bad
        return Outcome(False, f'{case["fn"]}: outcome {o} has explored probability {p} (= {float(p):.6f}), documented '
                       f'{e} (= {float(e):.6f}), unexplored mass {U} (= {float(U):.6f}) after {runs} runs: '
                       f'explored <= documented <= explored + unexplored violated\ncase={case}', labels=labels)
    nt = len(dist) >= 2 and U <= Fraction(1, 32)
    return Outcome(True, labels=labels, n=runs, n_nt=runs if nt else 0, exhaustive=True)


def run_case(case):
    if case.get('mode') == 'tree':
        return run_tree(case)
    return run_shape(case)


# ------------------------------------------------------------------------------------------------
# enumerated cells for Oracle B

def _pop(vals, form='sec'):
    return [[form if isinstance(form, str) else form[i % len(form)], v] for i, v in enumerate(vals)]


def enumerate_cases(tier):
    big = tier != 'quick'
    runs = 4000 if not big else 40000
    cells = []

    def cell(fn, typ, args, r=None):
        cells.append(dict(mode='tree', fn=fn, typ=typ, args=args, max_runs=r or runs, seed=len(cells)))

    I8, I16, X84, X168, F11, F101, F16, F2 = (['int', 8], ['int', 16], ['fxp', 8, 4], ['fxp', 16, 8], ['fld', 11],
                                             ['fld', 101], ['fld', 16], ['fld', 2])
    # getrandbits: no rejection, the tree is complete (U = 0)
    for k in range(0, 8 if not big else 11):
        cell('getrandbits', I16, dict(k=k))
        cell('getrandbits', I16 if k % 2 else X168, dict(k=min(k, 6), bits=True))
    for k in (1, 3, 4):
        cell('getrandbits', F16, dict(k=k))
        cell('getrandbits', F101, dict(k=k))
        cell('getrandbits', X84, dict(k=min(k, 3)))
    # _randbelow via randrange(n): every n up to 40 (+ 2^k-1, 2^k, 2^k+1 and some large n)
    ns = list(range(2, 41)) + [47, 48, 49, 63, 64, 65, 96, 100, 127]
    if big:
        ns += [128, 129, 200, 255, 256, 257, 500, 1000]
    for n in ns:
        cell('randrange', I16, dict(range=[n]))
    for n in (2, 3, 5, 6, 7, 9, 10):
        cell('randrange', F11, dict(range=[n]))
        cell('randrange', X84 if n <= 8 else X168, dict(range=[n]))
    for n in (3, 12, 33, 100):
        cell('randrange', F101, dict(range=[n]))
    for rg in ([2, 9], [-5, 5], [0, 30, 7], [10, 0, -3], [-7, -20, -4], [5, 12, 3], [100, 40, -7]):
        cell('randrange', I8 if max(map(abs, rg)) < 100 else I16, dict(range=rg))
    for a, b in ((0, 1), (1, 6), (-3, 3), (10, 20), (-128, -120)):
        cell('randint', I16, dict(a=a, b=b))
    cell('randint', X84, dict(a=-3, b=3))
    cell('randint', F11, dict(a=2, b=8))
    # random_unit_vector
    for n in list(range(1, 21)) + [31, 32, 33] + ([63, 64, 65] if big else []):
        cell('random_unit_vector', I8 if n % 3 else (X84 if n % 2 else F16), dict(n=n))
    for n in (2, 3, 5, 6, 7):
        cell('random_unit_vector', F2, dict(n=n))
        cell('random_unit_vector', F11, dict(n=n))
    # choice / choices
    for n in range(1, 8):
        cell('choice', I8, dict(pop=_pop([3 * i - 5 for i in range(n)], ['sec', 'pub'])))
    cell('choice', I8, dict(pop=_pop([4, 4, 7, 4, 9], 'sec')))
    cell('choice', X84, dict(pop=_pop([-2, 0, 3], ['pub', 'sec'])))
    cell('choice', F16, dict(pop=_pop([1, 9, 15, 6, 2], 'sec')))
    cell('choice', F11, dict(pop=_pop([1, 9, 10], 'pub'), tuple=True))
    for n, k in ((2, 1), (3, 1), (3, 2), (5, 2), (2, 3), (6, 1)):
        cell('choices', I8, dict(pop=_pop(list(range(10, 10 + n)), ['pub', 'sec']), k=k))
    cell('choices', I8, dict(pop=_pop([1, 2, 3]), weights=[1, 2, 3], k=1))
    cell('choices', I8, dict(pop=_pop([1, 2, 3]), weights=[2, 0, 4], k=2))
    cell('choices', I8, dict(pop=_pop([5, 6, 7, 8], 'pub'), cum_weights=[1, 1, 4, 5], k=1))
    cell('choices', I16, dict(pop=_pop([1, 2, 3]), weights=[3, 1, 1], k=1))
    cell('choices', I16, dict(pop=_pop([1, 2]), weights=[10, 30], k=2))
    # sample
    for n, k in ((1, 1), (2, 1), (2, 2), (3, 2), (3, 3), (4, 2), (4, 4), (5, 3), (5, 1), (6, 2)):
        cell('sample', I8, dict(pop=_pop(list(range(20, 20 + n)), 'pub' if n % 2 else 'sec'), k=k))
    cell('sample', I8, dict(pop=_pop([7, 7, 8]), k=2))
    cell('sample', F16, dict(pop=_pop([1, 2, 3, 4]), k=2))
    cell('sample', X84, dict(pop=_pop([-1, 0, 1], 'pub'), k=2))
    for rg, k in (([4], 2), ([5], 1), ([2, 8, 2], 2), ([6], 3), ([10, 0, -3], 2), ([3], 3)):
        cell('sample', I8, dict(range=rg, k=k))
    cell('sample', F11, dict(range=[5], k=2))
    # shuffle / permutations / derangements
    for n in range(1, 6):
        cell('shuffle', I8, dict(pop=_pop(list(range(1, n + 1)), 'sec' if n % 2 else 'pub')))
        cell('random_permutation', I8 if n % 2 else F16, dict(n=n))
    cell('shuffle', I8, dict(pop=_pop([1, 1, 2])))
    cell('shuffle', X84, dict(pop=_pop([-1, 0, 2, 3], 'pub')))
    cell('shuffle', F11, dict(pop=_pop([1, 5, 9])))
    cell('shuffle', I8, dict(rows=True, pop=[_pop([1, 2]), _pop([3, 4]), _pop([5, 6])]))
    cell('shuffle', I8, dict(rows=True, pop=[_pop([1, 2, 3], 'pub'), _pop([3, 4, 5], 'pub')]))
    cell('random_permutation', I8, dict(pop=_pop([9, 8, 7, 6], 'pub')))
    cell('random_permutation', X84, dict(n=4))
    for n in (2, 3, 4) + ((5,) if big else ()):
        cell('random_derangement', I8, dict(n=n))
    cell('random_derangement', F16, dict(n=3))
    cell('random_derangement', X84, dict(n=3))
    cell('random_derangement', I8, dict(pop=_pop([5, 3, 1, 2])))
    # random / uniform
    for typ in (['fxp', 8, 4], ['fxp', 8, 2], ['fxp', 12, 6], ['fxp', 16, 8]):
        cell('random', typ, dict())
    for a, b in ((0, 16), (16, 0), (-8, 8), (3, 8), (24, 19), (-40, -33), (0, 2), (5, 105)):
        cell('uniform', X84 if abs(a) < 100 and abs(b) < 100 else ['fxp', 12, 4], dict(a=a, b=b, f=4))
    cell('uniform', X168, dict(a=-3, b=300, f=8))
    # cells are dealt to the shards round-robin: expensive kinds first, so that they spread evenly
    weight = {'random_derangement': 10, 'choices': 4, 'sample': 3, 'shuffle': 3, 'random_permutation': 3,
              'random_unit_vector': 2, 'uniform': 2, 'choice': 2}
    cells.sort(key=lambda c: -weight.get(c['fn'], 1))
    return cells


# ------------------------------------------------------------------------------------------------
# generator for Oracle A

@st.composite
def _config(draw, tier):
    c = draw(st.integers(0, 9))
    if c < 3:
        return 1, 0, draw(st.booleans()), draw(st.booleans())
    top = 5 if tier == 'quick' else 7
    m = draw(st.sampled_from([x for x in [2, 3, 3, 3, 4, 4, 5, 5, 6, 7] if x <= top]))
    tmax = (m - 1) // 2
    t = draw(st.sampled_from([tmax, tmax, tmax, 1 if tmax else 0, 0]))
    return m, t, draw(st.booleans()), False


def _whole(draw, tt, lo=None, hi=None):
    lo = tt.lo if lo is None else max(lo, tt.lo)
    hi = tt.hi if hi is None else min(hi, tt.hi)
    return draw(st.one_of(st.sampled_from([lo, hi, min(max(0, lo), hi), min(max(1, lo), hi)]), st.integers(lo, hi)))


@st.composite
def _population(draw, tt, min_size=0, max_size=6, distinct=False, forms=None):
    n = draw(st.integers(min_size, max_size))
    lo, hi = max(tt.lo, -50), min(tt.hi, 50)
    if distinct:
        n = min(n, hi - lo + 1)
        vals = draw(st.lists(st.integers(lo, hi), min_size=n, max_size=n, unique=True))
    else:
        pal = draw(st.lists(st.integers(lo, hi), min_size=1, max_size=4))
        vals = [draw(st.sampled_from(pal)) if draw(st.integers(0, 2)) else draw(st.integers(lo, hi))
                for _ in range(n)]
    kind = forms or draw(st.sampled_from(['sec', 'pub', 'mix']))
    if kind == 'mix':
        return [[draw(st.sampled_from(['sec', 'pub'])), v] for v in vals]
    return [[kind, v] for v in vals]


@st.composite
def _range(draw, tt, allow_empty=False):
    """[start, stop, step] (or shorter forms) with all values and the length inside the type."""
    nmax = min(tt.nmax, 300)
    if not tt.arith:
        # binary fields: only range(n) is meaningful (no integer arithmetic on the result)
        return [draw(st.integers(1, min(nmax, tt.hi + 1)))]
    n = draw(st.one_of(st.sampled_from([1, 2, 3, 4, 5, 7, 8, 9, 16, 17, 31, 32, 33]), st.integers(1, nmax)))
    n = max(1, min(n, nmax))
    if allow_empty and draw(st.integers(0, 11)) == 0:
        n = 0
    step = draw(st.sampled_from([1, 1, 1, 2, 3, -1, -2, 5, 7, -7]))
    if tt.kind == 'fld' and step < 0:
        step = -step
    # all of start + j*step (0 <= j < n) inside [lo, hi]
    span = (max(n, 1) - 1) * abs(step)
    if span > tt.hi - tt.lo:
        step = 1 if step > 0 else -1
        span = max(n, 1) - 1
        if span > tt.hi - tt.lo:
            n = tt.hi - tt.lo + 1
            span = n - 1
    if step > 0:
        start = _whole(draw, tt, tt.lo, tt.hi - span)
    else:
        start = _whole(draw, tt, tt.lo + span, tt.hi)
    if n == 0:
        stop = start if draw(st.booleans()) else start - (1 if step > 0 else -1) * draw(st.integers(0, 3))
    else:
        # any stop between the last element (exclusive) and one further step
        last = start + (n - 1) * step
        stop = last + (1 if step > 0 else -1) * draw(st.integers(1, abs(step)))
    if step == 1 and start == 0 and n and draw(st.booleans()):
        return [stop]
    if step == 1 and draw(st.booleans()):
        return [start, stop]
    return [start, stop, step]


@st.composite
def _args(draw, fn, tt):
    a = {}
    if fn == 'getrandbits':
        kmax = (tt.l - tt.f - 1) if tt.kind != 'fld' else (tt.order - 1).bit_length() if tt.order & (tt.order - 1) == 0 \
            else tt.order.bit_length() - 1
        a = dict(k=draw(st.integers(0, min(kmax, 20))), bits=draw(st.booleans()))
    elif fn == 'randrange':
        a = dict(range=draw(_range(tt, allow_empty=True)))
    elif fn == 'randint':
        if not tt.arith:
            a = dict(a=0, b=draw(st.integers(0, tt.hi)))
        else:
            lo = _whole(draw, tt)
            width = draw(st.one_of(st.sampled_from([0, 1, 2, 3, 7, 8]), st.integers(0, min(tt.nmax - 1, 300))))
            a = dict(a=lo, b=min(lo + width, tt.hi))
            if tt.hi - lo + 1 > tt.nmax:
                a['b'] = min(a['b'], lo + tt.nmax - 1)
    elif fn == 'random_unit_vector':
        a = dict(n=draw(st.one_of(st.sampled_from([1, 2, 3, 4, 5, 7, 8, 9, 16, 17, 33]), st.integers(1, 40))))
    elif fn == 'random':
        a = {}
    elif fn == 'uniform':
        f = tt.f
        lo_raw, hi_raw = (-2**(tt.l - 1), 2**(tt.l - 1) - 1) if tt.kind == 'fxp' else (-100, 100)
        width = draw(st.one_of(st.sampled_from([0, 1, 2, 3, 16, 17]), st.integers(0, min(hi_raw - lo_raw, 2000))))
        x = draw(st.integers(lo_raw, hi_raw - width))
        a = dict(a=x, b=x + width, f=f)
        if draw(st.booleans()):
            a['a'], a['b'] = a['b'], a['a']
    elif fn == 'choice':
        a = dict(pop=draw(_population(tt, 0 if draw(st.integers(0, 9)) == 0 else 1, 7)), tuple=draw(st.booleans()))
    elif fn == 'choices':
        pop = draw(_population(tt, 1, 5))
        a = dict(pop=pop, k=draw(st.integers(0, 4)))
        mode = draw(st.sampled_from(['none', 'none', 'w', 'w', 'cw', 'both', 'badlen']))
        if not tt.ordered and mode in ('w', 'cw'):
            mode = 'none'   # weighted choices compare secret numbers: ordered types only
        ws = [draw(st.sampled_from([0, 1, 1, 2, 3, 5, 10])) for _ in pop]
        if sum(ws) == 0:
            ws[draw(st.integers(0, len(ws) - 1))] = draw(st.integers(1, 4))
        if tt.kind != 'fld':
            tot = sum(ws)
            if tot > tt.nmax:
                ws = [1] * len(pop)
        if mode == 'w':
            a['weights'] = ws
        elif mode == 'cw':
            a['cum_weights'] = list(itertools.accumulate(ws))
        elif mode == 'both':
            a['weights'], a['cum_weights'] = ws, list(itertools.accumulate(ws))
        elif mode == 'badlen':
            a['weights'] = ws + [1] if draw(st.booleans()) else ws[:-1]
    elif fn == 'sample':
        if draw(st.booleans()) and tt.arith:
            rg = draw(_range(tt))
            n = len(range(*rg))
            a = dict(range=rg, k=draw(st.integers(0, min(n, 4))))
        else:
            pop = draw(_population(tt, 0, 6))
            a = dict(pop=pop, k=draw(st.integers(0, len(pop))))
    elif fn == 'shuffle':
        if draw(st.integers(0, 3)) == 0:
            r = draw(st.integers(1, 4))
            w = draw(st.integers(1, 3))
            form = draw(st.sampled_from(['sec', 'pub']))
            a = dict(rows=True, pop=[draw(_population(tt, w, w, forms=form)) for _ in range(r)])
        else:
            a = dict(pop=draw(_population(tt, 0, 6, forms=draw(st.sampled_from(['sec', 'pub'])))))
    else:  # random_permutation / random_derangement
        if draw(st.booleans()):
            n = draw(st.integers(0, min(6, tt.hi + 1)))
            if fn == 'random_derangement' and n == 1:
                n = 2
            a = dict(n=n)
        else:
            pop = draw(_population(tt, 0, 6, distinct=True, forms=draw(st.sampled_from(['sec', 'pub']))))
            if fn == 'random_derangement' and len(pop) == 1:
                pop = []
            a = dict(pop=pop)
    return a


@st.composite
def _case(draw, tier):
    m, t, prss, no_async = draw(_config(tier))
    typs = [x for x in TYPES if not (x[0] == 'fld' and x[1] in (16, 256) and t > 0 and m >= x[1])]
    typ = draw(st.sampled_from(typs))
    tt = T(typ)
    fn = draw(st.sampled_from(FUNCS + ['randrange', 'sample', 'choices', 'random_unit_vector']))
    if fn in ('random', 'uniform') and tt.f == 0 and draw(st.integers(0, 5)):
        typ = draw(st.sampled_from([x for x in TYPES if x[0] == 'fxp']))
        tt = T(typ)
    avoided = 0
    for attempt in range(4):
        a = draw(_args(fn, tt))
        case = dict(mode='shape', m=m, t=t, prss=prss, no_async=no_async, typ=typ, fn=fn, args=a)
        if not AVOID_KNOWN or finding_class(case)[0] is None:
            break
        # known-finding classes F33a..e: the main search stays out of them (counted); a few go through
        if attempt == 0 and draw(st.integers(0, 7)) == 0:
            break
        avoided += 1
    case['seed'] = draw(st.integers(0, 2**20))
    case['avoided'] = avoided
    return case



def strategy(tier):
    return _case(tier)
