"""C31: secure lists (mpyc.seclists.seclist) behave like Python lists under any operation history.

Model-based check.  A case is a party configuration, an element type, an initial list and a
*history*: a list of operation records drawn as data while a Python-list model is carried along
(so indices are generated relative to the current length and values can be aimed at present /
absent elements).  `run_case` re-derives the model from the data (`plan`), runs the whole
history inside ONE program in the in-process simulator, and after EVERY step opens the complete
list (and the second list register `t` when it exists) and compares it with the model; the public
length, the list type (`seclist` with the same `sectype`), the element types and the result of
the operation (get/pop value, count, contains, find, index, comparison bit) are compared as well.
Index objects handed in as unit vectors / `secindex` are re-opened after use: a list operation
does not modify its index argument.

Index forms (seclists.py: "a secret-shared index i, which is either a secure number or a secure
unit vector", plus the `secindex` class handled by every accessor):
  pub   Python int (also negative, as for lists) / slices
  num   secure number of the list's type holding the position
  uv    Python list of secure bits, length len(s) (len(s)+1 for insert)
  six   secindex(bits[off:], offset=off)
Secret items are genuine sharings dealt by a generated party ('sec') or lifted constants ('const').

Documented exceptions: `index`/`remove` of an absent value raise ValueError.  In the synchronous
1-party runtime (no_async, what the repository's tests use) the caller gets it and the history
goes on; in the asynchronous runtime the ValueError is raised inside the MPyC coroutine (the
event loop is stopped and the error reported), so such a step is only generated as the LAST step
and the accepted outcome is exactly: every party reports `ValueError: value is not in list`,
nothing else, and all earlier steps were right.

Domains (constructed, never filtered):
  * order-based operations (sort, <, <=, >, >=) only for SecInt/SecFxp with values in the half
    range, so that differences fit the bit length (precondition of runtime.sgn);
  * a 'num' index needs the position to be representable and `runtime.unit_vector`/`to_bits` to
    support the type: SecInt, integral SecFxp, binary fields and unlifted prime fields;
  * value searches over SecFld need len(s) <= field order (positions representable); `count`
    over a field is a field element, i.e. the count modulo the characteristic;
  * SecFxp lists have ONE public integral flag for all items (mixed flags are the class of the
    C03 finding F3); public numbers are only passed where flag inference gives that flag.
"""
import traceback
from hypothesis import strategies as st
from vlib.boot import boot
from vlib.runner import Outcome

boot(numpy=False)
from vlib import sim as simmod  # noqa: E402
from mpyc.seclists import seclist, secindex  # noqa: E402
from mpyc.sectypes import SecureObject  # noqa: E402

ID = 'C31'
LEVEL = 'exploration'
CASE_TIMEOUT = 900
RULE = ('generated histories (up to 10 steps quick / 16 thorough, list length <= 8 / 12) over 28 operations of '
        'seclist (get/set/del/insert/pop/s[i]+=v with public, secure-number, unit-vector and secindex indices; append, '
        'extend, +, reflected +, +=, *, reflected *, *=, remove, count, contains, find, index, sort(key, reverse), six '
        'comparisons, slices get/set/del, copy, reverse, clear, aliasing through a second list register) x element type '
        '(SecInt 4..32 bits, SecFxp with integral/non-integral flag, prime / binary / odd extension SecFld incl. lifted '
        'small primes) x (m,t,PRSS) (about half m=1 sync+async, rest m=2..5(7), t>=1 weighted) with items dealt by '
        'generated parties; oracle = Python list model compared after EVERY step on the opened contents, public length, '
        'types and operation results at every party; non-trivial = history with a secret-index del/insert/pop/set/remove '
        'followed by an opening of the whole list; distinct by case hash. Exhaustive cells: for get/set/del/insert/pop/'
        's[i]+=v x index form (secure number, unit vector, secindex with every offset) x 8 element types: every list '
        'length <= 8 (thorough 12) and every position at m=1, and every length <= 4 (6) at m=3,t=1')
ASSUMPTIONS = ['Python list semantics is the specification; ValueError of index/remove in the asynchronous runtime is '
               'accepted in the form MPyC delivers coroutine exceptions (raised in the event loop, loop stopped)',
               'sec_param k=30: comparisons/zero tests may err with probability <= 2^-30 per use',
               'order-based operations only with values in the half range of the type (sgn precondition); '
               'SecFxp lists carry one integral flag for all items (mixed flags = finding F3 of C03)',
               'count over SecFld is read modulo the characteristic (the result is a field element); positions are '
               'compared as field embeddings, -1 as the field element -1']


# F31a and F31b are fixed in /repo (12f56da, c73c57f): their input classes are generated freely again
AVOID_KNOWN = False


def budget(tier):
    return dict(shards=16, examples=220 if tier == 'quick' else 2000)


# ------------------------------------------------------------------------------------------------
# types

INT_LS = [4, 6, 8, 8, 16, 32]
FXPS = [[8, 4], [12, 4], [16, 8], [32, 16]]
FLD_ORDERS = [2, 3, 5, 7, 11, 13, 101, 257, 65537, 2**31 - 1, 2**61 - 1, 4, 8, 16, 256, 9, 25, 27]


def _pp(q):
    """q = p**d -> (p, d) by trial division (orders are tiny or listed primes)."""
    if q in (65537, 2**31 - 1, 2**61 - 1):
        return q, 1
    p = 2
    while q % p:
        p += 1
    d, r = 0, q
    while r % p == 0:
        r //= p
        d += 1
    if r != 1:
        raise ValueError('not a prime power')
    return p, d


class T:
    """Public description of the element type (pure data logic, no mpyc)."""

    def __init__(self, typ, m, t, wide):
        self.typ = typ
        self.kind = typ[0]
        self.wide = wide
        self.f = 0
        self.integral = True
        if self.kind == 'int':
            self.l = typ[1]
            self.lo, self.hi = -2**(self.l - 1), 2**(self.l - 1) - 1
            self.maxpos = self.hi
        elif self.kind == 'fxp':
            self.l, self.f, self.integral = typ[1], typ[2], bool(typ[3])
            self.lo, self.hi = -2**(self.l - 1), 2**(self.l - 1) - 1
            self.maxpos = 2**(self.l - self.f - 1) - 1
        else:
            self.order = typ[1]
            self.p, self.d = _pp(self.order)
            self.lo, self.hi = 0, self.order - 1
            self.lifted = self.d == 1 and t > 0 and m >= self.order
            self.maxpos = self.order - 1
        if self.kind != 'fld' and not wide:
            self.lo, self.hi = self.lo // 2, (self.hi + 1) // 2 - 1
        self.ordered = self.kind != 'fld' and not wide

    def val_ok(self, v):
        if not isinstance(v, int) or isinstance(v, bool) or not self.lo <= v <= self.hi:
            return False
        if self.kind == 'fxp' and self.integral and v % (1 << self.f):
            return False
        return True

    def pub_ok(self, v):
        """May v be passed as a public Python number (flag inference consistent)?"""
        if self.kind == 'fxp' and not self.integral:
            return v % (1 << self.f) != 0
        return True

    def pub(self, v):
        if self.kind == 'fxp':
            return v >> self.f if self.integral else v / 2**self.f
        return v

    def num_ok(self, maxpos):
        """Secure-number index over positions 0..maxpos supported and representable?"""
        if maxpos > self.maxpos:
            return False
        if self.kind == 'fld':
            return self.p == 2 or (self.d == 1 and not self.lifted)
        return True

    def search_ok(self, n):
        return self.kind != 'fld' or n <= self.order

    def emb(self, i):
        """Field embedding of a logical result (count, position, -1, bit) as the int that is opened."""
        if self.kind != 'fld':
            return i << self.f
        if i < 0:
            return self.p - 1 if i == -1 else None
        return i % self.p if self.d == 1 else i

    def scaled_count(self, c):
        if self.kind != 'fld':
            return c << self.f
        return c % self.p


def _mk_type(mpc, tt):
    if tt.kind == 'int':
        return mpc.SecInt(tt.l)
    if tt.kind == 'fxp':
        return mpc.SecFxp(tt.l, tt.f)
    return mpc.SecFld(tt.order)


# ------------------------------------------------------------------------------------------------
# the model interpreter: validates a history and derives everything the run must show

class Invalid(Exception):
    pass


SECRET_FORMS = ('num', 'uv', 'six')
RELS = ['lt', 'le', 'eq', 'ne', 'gt', 'ge']
_PYREL = {'lt': lambda a, b: a < b, 'le': lambda a, b: a <= b, 'eq': lambda a, b: a == b,
          'ne': lambda a, b: a != b, 'gt': lambda a, b: a > b, 'ge': lambda a, b: a >= b}


def _req(c, msg='invalid'):
    if not c:
        raise Invalid(msg)


class Plan:
    pass


def plan(case):
    """Interpret the history on the model. Returns a Plan or raises Invalid."""
    m, t = case['m'], case['t']
    _req(m >= 1 and (2 * t < m or (m == 1 and t == 0)))
    tt = T(case['typ'], m, t, bool(case.get('wide')))
    if tt.kind == 'fld' and tt.d > 1:
        _req(t == 0 or m < tt.order, 'unsupported: non-prime order <= m')
    cap = case.get('cap', 12)
    for v in case['init']:
        _req(tt.val_ok(v))
    _req(len(case['init']) <= cap)
    pl = Plan()
    pl.tt = tt
    pl.pool_v = []   # list items dealt with the list's flag
    pl.pool_i = []   # bits / positions dealt as integral items
    pl.steps = []
    s = list(case['init'])
    tl = None

    def rval(val):
        form, v = val
        _req(tt.val_ok(v))
        if form == 'pub':
            _req(tt.pub_ok(v))
            return ('pub', tt.pub(v))
        if form == 'const':
            return ('const', v)
        _req(form == 'sec')
        pl.pool_v.append(v)
        return ('slot', len(pl.pool_v) - 1)

    def rbits(bits, src):
        if src == 'const':
            return [('const', b) for b in bits]
        _req(src == 'sec')
        out = []
        for b in bits:
            pl.pool_i.append(b)
            out.append(('slot', len(pl.pool_i) - 1))
        return out

    def ridx(idx, n_pos):
        """idx over positions 0..n_pos-1 -> (python position, resolved index, expected bits)."""
        form = idx[0]
        if form == 'pub':
            i = idx[1]
            _req(isinstance(i, int))
            return i, ('pub', i), None
        i = idx[1]
        _req(isinstance(i, int) and 0 <= i < n_pos)
        if form == 'num':
            _req(tt.num_ok(n_pos - 1))
            src = idx[2]
            if src == 'const':
                return i, ('num', ('const', i)), None
            _req(src == 'sec')
            pl.pool_i.append(i)
            return i, ('num', ('slot', len(pl.pool_i) - 1)), None
        if form == 'uv':
            bits = [int(j == i) for j in range(n_pos)]
            return i, ('uv', rbits(bits, idx[2])), bits
        _req(form == 'six')
        off = idx[2]
        _req(isinstance(off, int) and 0 <= off <= i)
        bits = [int(j == i) for j in range(off, n_pos)]
        return i, ('six', off, rbits(bits, idx[3])), bits

    def rother(o):
        """Second operand -> (model list, resolved operand)."""
        form = o[0]
        if form == 'self':
            return list(s), ('self',)
        if form == 't':
            _req(tl is not None)
            return list(tl), ('t',)
        _req(form in ('seclist', 'list', 'tuple'))
        vals = [rval(v) for v in o[1]]
        return [v[1] for v in o[1]], (form, vals)

    steps = case['steps']
    for k, st_ in enumerate(steps):
        op = st_[0]
        n = len(s)
        r = dict(op=op, res=None, kind=None, bits=None, terminal=False, raises=None, finding=None, secret=False)
        if op in ('get', 'set', 'del', 'pop', 'setadd'):
            idx = st_[1]
            if op == 'pop' and idx is None:
                _req(n >= 1)
                r['idx'] = None
                r['res'], r['kind'] = s.pop(), 'elem'
            else:
                if idx[0] == 'pub':
                    _req(-n <= idx[1] < n)
                i, r['idx'], r['bits'] = ridx(idx, n)
                r['secret'] = idx[0] in SECRET_FORMS
                if op == 'get':
                    r['res'], r['kind'] = s[i], 'elem'
                elif op == 'set':
                    r['val'] = rval(st_[2])
                    s[i] = st_[2][1]
                elif op == 'setadd':
                    r['val'] = rval(st_[2])
                    nv = s[i] + st_[2][1]
                    if tt.kind == 'fld':
                        _req(tt.d == 1)
                        nv %= tt.p
                    _req(tt.val_ok(nv))
                    s[i] = nv
                elif op == 'del':
                    del s[i]
                else:
                    r['res'], r['kind'] = s.pop(i), 'elem'
        elif op == 'ins':
            idx = st_[1]
            _req(n + 1 <= cap)
            if idx[0] == 'pub':
                _req(-n - 3 <= idx[1] <= n + 3)
            i, r['idx'], r['bits'] = ridx(idx, n + 1)
            r['secret'] = idx[0] in SECRET_FORMS
            r['val'] = rval(st_[2])
            s.insert(i, st_[2][1])
        elif op == 'append':
            _req(n + 1 <= cap)
            r['val'] = rval(st_[1])
            s.append(st_[1][1])
        elif op in ('extend', 'add', 'iadd', 'radd'):
            o, r['other'] = rother(st_[1])
            _req(n + len(o) <= cap)
            if op == 'radd':
                _req(r['other'][0] == 'list')
                s = o + s
            elif op == 'add':
                _req(r['other'][0] in ('seclist', 'list', 'self', 't'))
                s = s + o
            else:
                s.extend(o)   # in place: aliases (t is s never happens: copy() makes a new list)
        elif op in ('mul', 'rmul', 'imul'):
            kk = st_[1]
            _req(isinstance(kk, int) and -1 <= kk <= 4 and n * max(kk, 0) <= cap)
            if op == 'imul':
                s *= kk
            else:
                s = s * kk
        elif op in ('count', 'contains', 'find', 'index', 'remove'):
            _req(tt.search_ok(n))
            r['val'] = rval(st_[1])
            v = st_[1][1]
            occ = s.count(v)
            if op == 'count':
                r['res'], r['kind'] = tt.scaled_count(occ), 'raw'
            elif op == 'contains':
                r['res'], r['kind'] = tt.emb(int(occ > 0)), 'raw'
                if tt.kind == 'fld' and occ > 0 and occ % tt.p == 0:
                    r['finding'] = 'F31a'
            elif op == 'find':
                r['res'], r['kind'] = tt.emb(s.index(v) if occ else -1), 'raw'
            else:
                if occ:
                    pos = s.index(v)
                    if tt.kind == 'fld' and tt.emb(pos) == tt.emb(-1):
                        r['finding'] = 'F31b'
                    if op == 'index':
                        r['res'], r['kind'] = tt.emb(pos), 'raw'
                    else:
                        _req(tt.num_ok(n - 1))
                        r['secret'] = True
                        s.remove(v)
                else:
                    r['raises'] = 'ValueError'
                    # empty list + index(): raised before the coroutine is started (synchronously)
                    r['terminal'] = not (op == 'index' and n == 0)
                    if r['terminal']:
                        _req(k == len(steps) - 1, 'raising step must be last')
        elif op == 'sort':
            _req(tt.ordered)
            key, rev = st_[1], bool(st_[2])
            _req(key in (None, 'neg'))
            if key == 'neg':
                _req(all(tt.val_ok(-a) for a in s))
            s.sort(key=(lambda a: -a) if key == 'neg' else None, reverse=rev)
            r['key'], r['rev'] = key, rev
        elif op == 'cmp':
            rel = st_[1]
            _req(rel in RELS)
            if rel not in ('eq', 'ne'):
                _req(tt.ordered)
            o, r['other'] = rother(st_[2])
            r['rel'] = rel
            r['swap'] = bool(st_[3]) if len(st_) > 3 else False
            if r['swap']:   # plain list on the left: Python dispatches to the reflected method
                _req(r['other'][0] == 'list')
                r['res'] = tt.emb(int(_PYREL[rel](o, s)))
            else:
                r['res'] = tt.emb(int(_PYREL[rel](s, o)))
            r['kind'] = 'raw'
        elif op == 'getslice':
            a, b, c, dest = st_[1], st_[2], st_[3], st_[4]
            _req(c != 0 and dest in ('s', 't'))
            r['sl'] = [a, b, c]
            if dest == 's':
                s = s[a:b:c]
            else:
                tl = s[a:b:c]
            r['dest'] = dest
        elif op == 'setslice':
            a, b = st_[1], st_[2]
            o, r['other'] = rother(st_[3])
            _req(r['other'][0] in ('seclist', 'list', 'tuple'))
            r['sl'] = [a, b, None]
            s2 = list(s)
            s2[a:b] = o
            _req(len(s2) <= cap)
            s[a:b] = o
        elif op == 'delslice':
            a, b, c = st_[1], st_[2], st_[3]
            _req(c != 0)
            r['sl'] = [a, b, c]
            del s[a:b:c]
        elif op == 'copy':
            tl = list(s)
        elif op == 'swap':
            _req(tl is not None)
            s, tl = tl, s
        elif op == 'reverse':
            s.reverse()
        elif op == 'clear':
            s.clear()
        else:
            raise Invalid(f'unknown op {op}')
        r['s'] = list(s)
        r['t'] = None if tl is None else list(tl)
        pl.steps.append(r)
    return pl


# ------------------------------------------------------------------------------------------------
# the program that replays the history on seclists

def _make_prog(case, pl, traces):
    tt = pl.tt
    sender = case['sender']
    init_sender = case['init_sender']

    async def prog(mpc, pid):
        tr = traces[pid]
        ST = _mk_type(mpc, tt)

        def sec(v, mine, integral=None):
            x = v if mine else None
            if tt.kind == 'fxp':
                flag = tt.integral if integral is None else integral
                if x is not None:
                    x = x >> tt.f if flag else x / 2**tt.f
                return ST(x, integral=flag)
            return ST(x)

        def deal(values, who, integral=None):
            if not values:
                return []
            return mpc.input([sec(v, pid == who, integral) for v in values], senders=who)

        init = deal(case['init'], init_sender)
        slots_v = deal(pl.pool_v, sender)
        # bits and positions: encoded as whole numbers, flagged integral
        slots_i = deal([b << tt.f for b in pl.pool_i], sender, integral=True)

        def val(r):
            if r[0] == 'pub':
                return r[1]
            if r[0] == 'const':
                return sec(r[1], True)
            return slots_v[r[1]]

        def ival(r):
            if r[0] == 'const':
                return sec(r[1] << tt.f, True, integral=True)
            return slots_i[r[1]]

        def index(r):
            """-> (index object to pass, list of secure bits to re-open afterwards)"""
            if r[0] == 'pub':
                return r[1], []
            if r[0] == 'num':
                return ival(r[1]), []
            if r[0] == 'uv':
                bits = [ival(b) for b in r[1]]
                return bits, bits
            bits = [ival(b) for b in r[2]]
            six = secindex(bits, offset=r[1], sectype=ST) if r[1] % 2 else secindex(bits, offset=r[1])
            return six, six.value

        async def opened(x):
            """Open a result: secure object -> int (raw/scaled for fxp), plain -> ('plain', int)."""
            if isinstance(x, SecureObject):
                if type(x) is not ST:
                    return ('badtype', type(x).__name__)
                if tt.kind == 'fxp':
                    return int(await mpc.output(x, raw=True))
                return int(await mpc.output(x))
            if isinstance(x, (bool, int)):
                return ('plain', int(x))
            return ('badtype', type(x).__name__)

        async def open_many(xs):
            if not xs:
                return []
            if tt.kind == 'fxp':
                return [int(a) for a in await mpc.output(list(xs), raw=True)]
            return [int(a) for a in await mpc.output(list(xs))]

        s = seclist(init, ST)
        t = None

        def other(r):
            if r[0] == 'self':
                return s
            if r[0] == 't':
                return t
            items = [val(v) for v in r[1]]
            if r[0] == 'seclist':
                return seclist(items, ST)
            if r[0] == 'tuple':
                return tuple(items)
            return items

        for k, r in enumerate(pl.steps):
            op = r['op']
            res = None
            bits = []
            try:
                if op in ('get', 'set', 'del', 'pop', 'setadd', 'ins'):
                    if r.get('idx') is None:
                        res = await opened(s.pop())
                    else:
                        ix, bits = index(r['idx'])
                        if op == 'get':
                            res = await opened(s[ix])
                        elif op == 'set':
                            s[ix] = val(r['val'])
                        elif op == 'setadd':
                            s[ix] += val(r['val'])
                        elif op == 'del':
                            del s[ix]
                        elif op == 'pop':
                            res = await opened(s.pop(ix))
                        else:
                            s.insert(ix, val(r['val']))
                elif op == 'append':
                    s.append(val(r['val']))
                elif op == 'extend':
                    s.extend(other(r['other']))
                elif op == 'add':
                    s = s + other(r['other'])
                elif op == 'iadd':
                    s0 = s
                    s += other(r['other'])
                    if s is not s0:
                        res = ('note', '+= returned a new object')
                elif op == 'radd':
                    s = other(r['other']) + s
                elif op == 'mul':
                    s = s * case['steps'][k][1]
                elif op == 'rmul':
                    s = case['steps'][k][1] * s
                elif op == 'imul':
                    s0 = s
                    s *= case['steps'][k][1]
                    if s is not s0:
                        res = ('note', '*= returned a new object')
                elif op == 'count':
                    res = await opened(s.count(val(r['val'])))
                elif op == 'contains':
                    res = await opened(s.contains(val(r['val'])))
                elif op == 'find':
                    res = await opened(s.find(val(r['val'])))
                elif op == 'index':
                    res = await opened(s.index(val(r['val'])))
                elif op == 'remove':
                    fut = s.remove(val(r['val']))
                    if fut is not None:
                        await fut
                elif op == 'sort':
                    kw = {}
                    if r['key'] == 'neg':
                        kw['key'] = lambda a: -a
                    if r['rev']:
                        kw['reverse'] = True
                    ret = s.sort(**kw)
                    if ret is not None:
                        res = ('note', 'sort returned a value')
                elif op == 'cmp':
                    o = other(r['other'])
                    rel = r['rel']
                    a, b = (o, s) if r['swap'] else (s, o)
                    if rel == 'lt':
                        z = a < b
                    elif rel == 'le':
                        z = a <= b
                    elif rel == 'eq':
                        z = a == b
                    elif rel == 'ne':
                        z = a != b
                    elif rel == 'gt':
                        z = a > b
                    else:
                        z = a >= b
                    res = await opened(z)
                elif op == 'getslice':
                    a, b, c = r['sl']
                    z = s[a:b:c]
                    if r['dest'] == 's':
                        s = z
                    else:
                        t = z
                elif op == 'setslice':
                    a, b, _ = r['sl']
                    s[a:b] = other(r['other'])
                elif op == 'delslice':
                    a, b, c = r['sl']
                    del s[a:b:c]
                elif op == 'copy':
                    t = s.copy()
                elif op == 'swap':
                    s, t = t, s
                elif op == 'reverse':
                    s.reverse()
                elif op == 'clear':
                    s.clear()
            except ValueError as e:
                res = ('raised', 'ValueError', str(e))
            except Exception:
                tr.append(dict(k=k, exc=traceback.format_exc()[-2500:]))
                return False
            ent = dict(k=k, res=res)
            try:
                lists = [s] + ([t] if t is not None else [])
                ent['shape'] = [[type(x) is seclist, getattr(x, 'sectype', None) is ST,
                                 all(type(a) is ST for a in x), len(x)] for x in lists]
                flat = [a for x in lists for a in x] + list(bits)
                if all(isinstance(a, SecureObject) for a in flat):
                    ent['open'] = await open_many(flat)
                else:
                    ent['open'] = None
            except Exception:
                tr.append(dict(k=k, exc='while opening the lists: ' + traceback.format_exc()[-2500:]))
                return False
            tr.append(ent)
        return True

    return prog


# ------------------------------------------------------------------------------------------------
# comparing a party's trace with the plan

def _check_trace(pl, tr, no_async):
    """-> (error string or None, finding id or None)."""
    tt = pl.tt
    for k, r in enumerate(pl.steps):
        if k >= len(tr):
            # a flagged index/remove step may die with the (wrong) ValueError inside its coroutine:
            # run_case decides whether the reported errors match the class
            return f'step {k} ({r["op"]}) not reached', ('F31b?' if r['finding'] == 'F31b' else None)
        e = tr[k]
        tag = f'step {k} ({r["op"]})'
        if 'exc' in e:
            return f'{tag}: exception on valid input: {e["exc"]}', None
        res = e['res']
        if r['raises']:
            if not (isinstance(res, tuple) and res[0] == 'raised' and res[1] == r['raises']):
                return f'{tag}: expected {r["raises"]} (value absent), got result {res!r}', None
            if 'not in list' not in res[2]:
                return f'{tag}: ValueError with unexpected message {res[2]!r}', None
        else:
            if isinstance(res, tuple) and res[0] == 'raised':
                fnd = r['finding'] if (r['finding'] == 'F31b' and res[1] == 'ValueError'
                                       and 'not in list' in res[2]) else None
                return f'{tag}: raised {res[1]}({res[2]!r}) although the model operation succeeds', fnd
            if isinstance(res, tuple) and res[0] in ('note', 'badtype'):
                return f'{tag}: {res}', None
            if r['kind'] is not None:
                exp = r['res']
                if isinstance(res, tuple) and res[0] == 'plain':
                    # plain Python result (empty lists): a logical value, compare unscaled
                    got = res[1] << tt.f if tt.kind != 'fld' else res[1]
                    if r['kind'] == 'raw' and tt.kind == 'fld':
                        got = tt.emb(res[1])
                else:
                    got = res
                if got != exp:
                    fnd = 'F31a' if (r['finding'] == 'F31a' and r['op'] == 'contains' and got == 0) else None
                    return (f'{tag}: result {got!r} != model {exp!r} (opened representation; fixed point '
                            f'scaled by 2^{tt.f})'), fnd
            elif res is not None:
                return f'{tag}: unexpected result {res!r}', None
        lists = [r['s']] + ([r['t']] if r['t'] is not None else [])
        names = ['s'] + (['t'] if r['t'] is not None else [])
        if len(e['shape']) != len(lists):
            return f'{tag}: register t mismatch', None
        for nm, sh, exp in zip(names, e['shape'], lists):
            if not sh[0]:
                return f'{tag}: {nm} is not a seclist any more', None
            if not sh[1]:
                return f'{tag}: {nm}.sectype changed', None
            if not sh[2]:
                return f'{tag}: {nm} holds items that are not of the secure type', None
            if sh[3] != len(exp):
                return f'{tag}: public length of {nm} is {sh[3]}, model has {len(exp)}', None
        got = e['open']
        if got is None:
            return f'{tag}: non-secure object inside a list', None
        expo = [a for x in lists for a in x] + [b << tt.f for b in (r['bits'] or [])]
        if got != expo:
            nl = sum(len(x) for x in lists)
            if got[:nl] != expo[:nl]:
                return (f'{tag}: opened lists {got[:nl]} != model {expo[:nl]} '
                        f'(s then t; fixed point scaled by 2^{tt.f})'), None
            return f'{tag}: index object was modified by the operation: bits now {got[nl:]}, were {expo[nl:]}', None
    return None, None


def _run_history(case):
    try:
        pl = plan(case)
    except Invalid as e:
        return Outcome(True, skipped=True, nontrivial=False, labels=[f'invalid:{e}'])
    except Exception:
        return Outcome(True, skipped=True, nontrivial=False, labels=['invalid:malformed'])
    m, t = case['m'], case['t']
    tt = pl.tt
    no_async = bool(case.get('no_async')) and m == 1
    labels = [f'm={m}', f't={t}', f'prss={case["prss"]}', f'type={tt.kind}', f'async={not no_async}',
              f'steps={min(len(pl.steps), 12)}']
    if tt.kind == 'fld':
        labels.append('fld:' + ('lifted' if tt.lifted else 'binary' if tt.p == 2 and tt.d > 1 else
                                'prime' if tt.d == 1 else 'oddext'))
    if tt.kind == 'fxp':
        labels.append(f'fxp:integral={tt.integral}')
    secret_mut = False
    for r in pl.steps:
        form = r['idx'][0] if r.get('idx') else ('default' if r['op'] == 'pop' else '')
        labels.append('op=' + r['op'] + (':' + form if form else ''))
        if r['secret'] and r['op'] in ('del', 'ins', 'pop', 'set', 'setadd', 'remove') and not r['raises']:
            secret_mut = True
        if r['terminal']:
            labels.append('terminal-raise')
        if r['finding']:
            labels.append('in-class:' + r['finding'])
    if case.get('excluded'):
        labels.append('generator-avoided-known-class')
    traces = [[] for _ in range(m)]
    sim = simmod.Sim(m, t, prss=case['prss'], seed=case['seed'], schedule={'mode': 'fast'}, sec_param=30,
                     options={'no_async': True} if no_async else None)
    try:
        res = sim.run_programs(_make_prog(case, pl, traces))
        stopped = [lp.stopped for lp in sim.loops]
    except Exception:
        return Outcome(False, f'exception on valid input (outside the party programs): '
                       f'{traceback.format_exc()[-2500:]}\ncase={case}', labels=labels)
    finally:
        sim.close()
    if res.inconclusive:
        return Outcome(True, inconclusive=True, nontrivial=False, labels=labels)
    term = pl.steps[-1] if pl.steps and pl.steps[-1]['terminal'] and not no_async else None
    finding = None
    err = None
    for i in range(m):
        steps_to_check = pl
        if term is not None:
            # all steps before the raising one must be right
            short = Plan()
            short.tt, short.steps = tt, pl.steps[:-1]
            steps_to_check = short
        e, fnd = _check_trace(steps_to_check, traces[i], no_async)
        if e:
            if fnd == 'F31b?':
                # in class only if every party died with exactly the ValueError of index()/remove()
                ok_cls = (res.errors and all('ValueError: value is not in list' in x for _, x in res.errors)
                          and all(st_ == 'pending' for st_ in res.status))
                fnd = 'F31b' if ok_cls else None
                e += f' ({res.describe()})'
            err, finding = f'party {i}: {e}', fnd
            break
    if err is None:
        if term is not None:
            # documented: ValueError.  Asynchronous runtime: raised inside the coroutine.
            for i in range(m):
                mine = [txt for j, txt in res.errors if j == i]
                if res.status[i] == 'done' or len(traces[i]) >= len(pl.steps):
                    err = (f'party {i}: {term["op"]} of an absent value did not raise: status {res.status[i]}, '
                           f'trace {traces[i][-1:]}')
                    break
                if not mine or not all('ValueError: value is not in list' in x for x in mine):
                    err = f'party {i}: expected ValueError(value is not in list), got: {res.describe()} {mine[:1]}'
                    break
                if not stopped[i]:
                    err = f'party {i}: ValueError reported but the event loop was not stopped'
                    break
        elif not res.all_done:
            # a step in a known-finding class may die inside a coroutine
            k = min(len(tr) for tr in traces)
            err = f'run did not complete (first unfinished step {k}): {res.describe()} {res.errors[:1]}'
        elif any(v is not True for v in res.values):
            err = f'a party program ended early: {res.values}'
        elif res.errors:
            err = f'exception inside an MPyC coroutine (reported to the event loop): {res.errors[:1]}'
    if err:
        return Outcome(False, f'{err}\ncase={case}', labels=labels, known=finding)
    return Outcome(True, labels=labels, nontrivial=secret_mut)


# ------------------------------------------------------------------------------------------------
# exhaustive cells: every (length, position[, offset]) for the secret-index accessors

EXH_TYPES = [['int', 8], ['int', 4], ['fxp', 8, 4, True], ['fxp', 12, 4, False], ['fld', 101], ['fld', 7],
             ['fld', 16], ['fld', 9]]
EXH_OPS = ['get', 'set', 'del', 'ins', 'pop', 'setadd']


def enumerate_cases(tier):
    nmax = 8 if tier == 'quick' else 12
    for typ in EXH_TYPES:
        for op in EXH_OPS:
            for form in ('num', 'uv', 'six'):
                yield dict(mode='exh', typ=typ, op=op, form=form, m=1, t=0, prss=True, no_async=(len(op) % 2 == 0),
                           nmax=nmax)
    for typ in ([['int', 8], ['fxp', 8, 4, False], ['fld', 101], ['fld', 3]] if tier == 'quick' else EXH_TYPES):
        for op in EXH_OPS:
            for form in ('num', 'uv', 'six'):
                yield dict(mode='exh', typ=typ, op=op, form=form, m=3, t=1, prss=(len(op) + len(form)) % 2 == 0,
                           no_async=False, nmax=4 if tier == 'quick' else 6)


def _exh_values(tt, n):
    """n distinct valid element values."""
    if tt.kind == 'fld':
        return [(3 * j + 1) % tt.order for j in range(n)] if tt.order > 3 * n else [j % tt.order for j in range(n)]
    step = 1 << tt.f if (tt.kind == 'fxp' and tt.integral) else 1
    base = -(-tt.lo // step)
    if tt.kind == 'fxp' and not tt.integral:
        return [(base + 3 * j) | 1 for j in range(n)]   # odd raw values: never whole numbers
    return [(base + j) * step for j in range(n)]


def _run_exh(case):
    m, t = case['m'], case['t']
    tt = T(case['typ'], m, t, False)
    op, form = case['op'], case['form']
    labels = [f'exh:m={m}', f'exh:type={tt.kind}', f'exh:{op}:{form}']
    if op == 'setadd' and tt.kind == 'fld' and tt.d > 1:
        return Outcome(True, skipped=True, nontrivial=False, labels=labels + ['exh:not-applicable'])
    cnt = 0
    for n in range(0 if op == 'ins' else 1, case['nmax'] + 1):
        n_pos = n + 1 if op == 'ins' else n
        if tt.kind != 'fld' and n_pos - 1 > tt.maxpos:
            break
        if form == 'num' and not tt.num_ok(n_pos - 1):
            continue
        init = _exh_values(tt, n + 1)
        new = init.pop()
        if op == 'setadd':
            new = (1 << tt.f) if tt.kind != 'fld' else 1
        for i in range(n_pos):
            for off in (range(i + 1) if form == 'six' else [None]):
                src = 'sec' if (i + n) % 2 else 'const'
                idx = [form, i, src] if form != 'six' else ['six', i, off, src]
                if op in ('get', 'del', 'pop'):
                    step = [op, idx]
                else:
                    if op == 'setadd' and not T.val_ok(tt, (init[i] + new) % tt.p if tt.kind == 'fld' else init[i] + new):
                        continue
                    step = [op, idx, ['sec', new]]
                sub = dict(m=m, t=t, prss=case['prss'], no_async=case['no_async'], seed=1000 * n + 10 * i + (off or 0),
                           typ=case['typ'], wide=False, cap=case['nmax'] + 1, init=init, init_sender=0,
                           sender=m - 1, steps=[step])
                out = _run_history(sub)
                if out.skipped:
                    continue
                cnt += 1
                if not out.ok:
                    return Outcome(False, f'exhaustive cell {case}: {out.detail}', labels=labels, known=out.known)
    if cnt == 0:
        return Outcome(True, skipped=True, nontrivial=False, labels=labels + ['exh:not-applicable'])
    return Outcome(True, labels=labels, n=cnt, n_nt=cnt, exhaustive=True)


def run_case(case):
    if case.get('mode') == 'exh':
        return _run_exh(case)
    return _run_history(case)


# ------------------------------------------------------------------------------------------------
# generator: histories drawn against the model

def _weighted(draw, pairs):
    pool = [x for x, w in pairs for _ in range(w)]
    return draw(st.sampled_from(pool))


@st.composite
def _config(draw, tier):
    if draw(st.integers(0, 99)) < 50:
        return 1, 0, draw(st.booleans()), draw(st.booleans())
    top = 5 if tier == 'quick' else 7
    m = draw(st.sampled_from([x for x in [2, 3, 3, 3, 3, 4, 4, 5, 5, 6, 7] if x <= top]))
    tmax = (m - 1) // 2
    t = draw(st.sampled_from([tmax, tmax, tmax, 1 if tmax else 0, 0]))
    return m, t, draw(st.booleans()), False


def _draw_value(draw, tt, pal):
    """A valid element value: mostly from the palette (duplicates matter), else anywhere, extremes weighted."""
    c = draw(st.integers(0, 9))
    if c < 6 and pal:
        return draw(st.sampled_from(pal))
    step = 1 << tt.f if (tt.kind == 'fxp' and tt.integral) else 1
    lo, hi = -(-tt.lo // step), tt.hi // step
    if c < 8:
        v = draw(st.sampled_from([lo, hi, 0, 1, -1 if lo < 0 else hi, lo + 1, hi - 1 if hi > lo else hi]))
        v = min(max(v, lo), hi)
    else:
        v = draw(st.integers(lo, hi))
    return v * step


def _absent_value(draw, tt, pal, s):
    """A valid value that does not occur in s (None if every value of the type occurs)."""
    for _ in range(3):
        v = _draw_value(draw, tt, pal)
        if v not in s:
            return v
    step = 1 << tt.f if (tt.kind == 'fxp' and tt.integral) else 1
    v = -(-tt.lo // step) * step
    for _ in range(len(s) + 1):
        if v not in s and tt.val_ok(v):
            return v
        v += step
    return None


def _draw_val(draw, tt, v, m):
    """Wrap a value into a passing form."""
    forms = ['sec', 'sec', 'const']
    if tt.pub_ok(v):
        forms += ['pub', 'pub']
    return [draw(st.sampled_from(forms)), v]


def _src(draw):
    return draw(st.sampled_from(['sec', 'sec', 'const']))


def _draw_idx(draw, tt, n_pos, allow_pub_range=None):
    """An index over positions 0..n_pos-1 (n_pos >= 1), any form that is in domain."""
    forms = ['pub', 'uv', 'uv', 'six', 'six']
    if tt.num_ok(n_pos - 1):
        forms += ['num', 'num', 'num']
    form = draw(st.sampled_from(forms))
    # positions: ends weighted
    i = draw(st.one_of(st.sampled_from([0, n_pos - 1]), st.integers(0, n_pos - 1)))
    if form == 'pub':
        if allow_pub_range is not None:
            return ['pub', draw(st.integers(*allow_pub_range))]
        return ['pub', i - n_pos if draw(st.booleans()) else i]
    if form == 'num':
        return ['num', i, _src(draw)]
    if form == 'uv':
        return ['uv', i, _src(draw)]
    return ['six', i, draw(st.integers(0, i)), _src(draw)]


def _draw_other(draw, tt, pal, m, maxlen, forms, near=None):
    form = draw(st.sampled_from(forms))
    if form in ('self', 't'):
        return [form]
    if near is not None and draw(st.integers(0, 3)) > 0:
        # a list close to `near` (for comparisons): equal / one or two items changed / prefix / extension
        vals = list(near)
        step = 1 << tt.f if (tt.kind == 'fxp' and tt.integral) else 1
        c = draw(st.integers(0, 6))
        if c in (1, 2) and vals:
            # one item changed
            j = draw(st.integers(0, len(vals) - 1))
            cand = vals[j] + draw(st.sampled_from([-step, step]))
            vals[j] = cand if tt.val_ok(cand) else _draw_value(draw, tt, pal)
        elif c >= 3 and len(vals) >= 2:
            # two differences in opposite directions: only the FIRST one may decide
            j = draw(st.integers(0, len(vals) - 2))
            k2 = draw(st.integers(j + 1, len(vals) - 1))
            d = draw(st.sampled_from([-step, step]))
            for pos, dd in ((j, d), (k2, -d)):
                cand = vals[pos] + dd
                vals[pos] = cand if tt.val_ok(cand) else vals[pos] - dd if tt.val_ok(vals[pos] - dd) else vals[pos]
        # independently: same length / proper prefix / extension (length decides only after a common prefix)
        c = draw(st.integers(0, 5))
        if c in (1, 2) and vals:
            vals = vals[:draw(st.integers(0, len(vals) - 1))]
        elif c in (3, 4) and len(vals) < maxlen:
            vals = vals + [_draw_value(draw, tt, pal) for _ in range(draw(st.integers(1, min(2, maxlen - len(vals)))))]
        vals = vals[:maxlen]
    else:
        k = draw(st.integers(0, min(maxlen, 4)))
        vals = [_draw_value(draw, tt, pal) for _ in range(k)]
    if form == 'seclist':
        items = [[draw(st.sampled_from(['sec', 'const'] + (['pub'] if tt.pub_ok(v) else []))), v] for v in vals]
    else:
        items = [_draw_val(draw, tt, v, m) for v in vals]
    return [form, items]


OPS_W = [('get', 8), ('set', 8), ('del', 9), ('ins', 9), ('pop', 7), ('setadd', 3), ('append', 3), ('extend', 2),
         ('add', 2), ('iadd', 1), ('radd', 1), ('mul', 1), ('rmul', 1), ('imul', 1), ('remove', 5), ('count', 3),
         ('contains', 3), ('find', 4), ('index', 4), ('sort', 4), ('cmp', 7), ('getslice', 3), ('setslice', 3),
         ('delslice', 3), ('copy', 2), ('swap', 1), ('reverse', 1), ('clear', 1)]


@st.composite
def _case(draw, tier):
    m, t, prss, no_async = draw(_config(tier))
    kind = _weighted(draw, [('int', 4), ('fxp', 3), ('fld', 3)])
    if kind == 'int':
        typ = ['int', draw(st.sampled_from(INT_LS))]
    elif kind == 'fxp':
        l, f = draw(st.sampled_from(FXPS))
        typ = ['fxp', l, f, draw(st.booleans())]
    else:
        orders = [q for q in FLD_ORDERS if _pp(q)[1] == 1 or t == 0 or m < q]
        typ = ['fld', draw(st.sampled_from(orders))]
    wide = kind != 'fld' and draw(st.integers(0, 3)) == 0
    tt = T(typ, m, t, wide)
    cap0 = 8 if tier == 'quick' else 12
    if m >= 3:
        cap0 = min(cap0, 6 if tier == 'quick' else 9)
    cap = max(1, min(cap0, tt.maxpos)) if kind != 'fld' else cap0
    pal = [_draw_value(draw, tt, None) for _ in range(draw(st.integers(1, 4)))]
    n0 = draw(st.sampled_from([0, 1, 2, 3, 3, 4, 4, 5, 6, 8]))
    n0 = min(n0, cap)
    init = [_draw_value(draw, tt, pal) for _ in range(n0)]
    maxsteps = (10 if tier == 'quick' else 16) if m == 1 else (6 if tier == 'quick' else 10)
    nsteps = draw(st.integers(1, maxsteps))
    s = list(init)
    tl = None
    steps = []
    excluded = 0
    for k in range(nsteps):
        n = len(s)
        last = k == nsteps - 1
        op = _weighted(draw, OPS_W)
        force_absent = False
        if last and tt.search_ok(n) and draw(st.integers(0, 7)) == 0:
            # end the history with a documented ValueError: index/remove of an absent value
            av = _absent_value(draw, tt, pal, s)
            if av is not None:
                op = draw(st.sampled_from(['index', 'remove']))
                force_absent = True
        # --- make the drawn operation applicable (constructive fallback chain, no rejection)
        if op in ('get', 'set', 'del', 'pop', 'setadd') and n == 0:
            op = 'ins'
        if op in ('ins', 'append') and n + 1 > cap:
            op = 'del' if n else 'clear'
        if op in ('sort',) and not tt.ordered:
            op = 'find'
        if op in ('count', 'contains', 'find', 'index', 'remove') and not tt.search_ok(n):
            op = 'del'
        if op == 'remove' and n and not tt.num_ok(n - 1):
            op = 'index'
        if op == 'swap' and tl is None:
            op = 'copy'
        if op == 'setadd' and tt.kind == 'fld' and tt.d > 1:
            op = 'set'
        # --- draw the arguments
        if op in ('get', 'del', 'pop'):
            if op == 'pop' and draw(st.integers(0, 5)) == 0:
                steps.append(['pop', None])
                s.pop()
            else:
                idx = _draw_idx(draw, tt, n)
                steps.append([op, idx])
                i = idx[1]
                if op != 'get':
                    del s[i]
        elif op in ('set', 'setadd'):
            idx = _draw_idx(draw, tt, n)
            i = idx[1]
            if op == 'set':
                v = _draw_value(draw, tt, pal)
                s[i] = v
            else:
                step = 1 << tt.f if tt.kind == 'fxp' else 1
                v = draw(st.sampled_from([1, 1, -1, 2, 3])) * step
                if tt.kind == 'fld':
                    v %= tt.p
                    nv = (s[i] + v) % tt.p
                else:
                    nv = s[i] + v
                    if not tt.val_ok(nv):
                        v = 0
                        nv = s[i]
                if not tt.val_ok(v):
                    v, nv = 0, s[i]
                s[i] = nv
            steps.append([op, idx, _draw_val(draw, tt, v, m)])
        elif op == 'ins':
            idx = _draw_idx(draw, tt, n + 1, allow_pub_range=(-n - 3, n + 3))
            v = _draw_value(draw, tt, pal)
            s.insert(idx[1], v)
            steps.append(['ins', idx, _draw_val(draw, tt, v, m)])
        elif op == 'append':
            v = _draw_value(draw, tt, pal)
            s.append(v)
            steps.append(['append', _draw_val(draw, tt, v, m)])
        elif op in ('extend', 'add', 'iadd', 'radd'):
            room = cap - n
            if op == 'radd':
                forms = ['list']
            elif op == 'add':
                forms = ['seclist', 'list']
            else:
                forms = ['seclist', 'list', 'tuple']
            if op != 'radd' and n <= room:
                forms.append('self')
            if op != 'radd' and tl is not None and len(tl) <= room:
                forms.append('t')
            o = _draw_other(draw, tt, pal, m, room, forms)
            ol = list(s) if o[0] == 'self' else list(tl) if o[0] == 't' else [v[1] for v in o[1]]
            if op == 'radd':
                s = ol + s
            elif op == 'add':
                s = s + ol
            else:
                s.extend(ol)
            steps.append([op, o])
        elif op in ('mul', 'rmul', 'imul'):
            ks = [kk for kk in [-1, 0, 1, 2, 2, 3] if n * max(kk, 0) <= cap]
            kk = draw(st.sampled_from(ks))
            if op == 'imul':
                s *= kk
            else:
                s = s * kk
            steps.append([op, kk])
        elif op in ('count', 'contains', 'find', 'index', 'remove'):
            present = n > 0 and draw(st.integers(0, 9)) < 7
            if force_absent:
                v = av
            elif present:
                v = s[draw(st.integers(0, n - 1))]
            else:
                v = _draw_value(draw, tt, pal)
            occ = s.count(v)
            if op in ('index', 'remove') and not occ and not force_absent:
                # absent: raises; only as the last step (or index() on an empty list), else look it up with find
                if not (last or (op == 'index' and n == 0)) or draw(st.integers(0, 1)) > 0:
                    op = 'find'
            if tt.kind == 'fld' and occ:
                # known-finding classes F31a/F31b: keep the main search out of them (counted); a few are
                # let through as the last step, where they are reported as known and cost nothing
                if (op == 'contains' and occ % tt.p == 0) or \
                        (op in ('index', 'remove') and tt.emb(s.index(v)) == tt.emb(-1)):
                    if AVOID_KNOWN and not (last and draw(st.booleans())):
                        excluded += 1
                        op = 'find'
            if op == 'remove' and occ:
                s.remove(v)
            steps.append([op, _draw_val(draw, tt, v, m)])
        elif op == 'sort':
            key = draw(st.sampled_from([None, None, 'neg']))
            if key == 'neg' and not all(tt.val_ok(-a) for a in s):
                key = None
            rev = draw(st.booleans())
            s.sort(key=(lambda a: -a) if key == 'neg' else None, reverse=rev)
            steps.append(['sort', key, rev])
        elif op == 'cmp':
            rel = draw(st.sampled_from(RELS if tt.ordered else ['eq', 'ne']))
            forms = ['seclist', 'seclist', 'list', 'list', 'self']
            if tl is not None:
                forms.append('t')
            o = _draw_other(draw, tt, pal, m, cap, forms, near=s)
            swap = o[0] == 'list' and draw(st.integers(0, 3)) == 0
            steps.append(['cmp', rel, o, swap])
        elif op in ('getslice', 'delslice'):
            a = draw(st.one_of(st.none(), st.integers(-n - 1, n + 1)))
            b = draw(st.one_of(st.none(), st.integers(-n - 1, n + 1)))
            c = draw(st.sampled_from([None, 1, 1, 2, -1, 3, -2]))
            if op == 'getslice':
                dest = draw(st.sampled_from(['s', 't', 't']))
                if dest == 's':
                    s = s[a:b:c]
                else:
                    tl = s[a:b:c]
                steps.append(['getslice', a, b, c, dest])
            else:
                del s[a:b:c]
                steps.append(['delslice', a, b, c])
        elif op == 'setslice':
            a = draw(st.one_of(st.none(), st.integers(-n - 1, n + 1)))
            b = draw(st.one_of(st.none(), st.integers(-n - 1, n + 1)))
            removed = len(s[a:b])
            room = cap - n + removed
            o = _draw_other(draw, tt, pal, m, room, ['seclist', 'list', 'tuple'])
            s[a:b] = [v[1] for v in o[1]]
            steps.append(['setslice', a, b, o])
        elif op == 'copy':
            tl = list(s)
            steps.append(['copy'])
        elif op == 'swap':
            s, tl = tl, s
            steps.append(['swap'])
        elif op == 'reverse':
            s.reverse()
            steps.append(['reverse'])
        else:
            s.clear()
            steps.append(['clear'])
    return dict(m=m, t=t, prss=prss, no_async=no_async, seed=draw(st.integers(0, 2**20)), typ=typ, wide=wide,
                cap=cap, init=init, init_sender=draw(st.integers(0, m - 1)), sender=draw(st.integers(0, m - 1)),
                steps=steps, excluded=excluded)


def strategy(tier):
    return _case(tier)
