"""C24: irreducibility tests and irreducible-modulus search are correct."""
import traceback
from hypothesis import strategies as st
from vlib.boot import boot
from vlib.runner import Outcome, known_ids
from vlib import refmath as R, refpoly as RP

ID = 'C24'
LEVEL = 'exploration'
RULE = ('exhaustive cells: every polynomial (every integer code, monic or not) with p^deg <= 10^4 (thorough: '
        '<= 6*10^4) for p in {2,3,5,7} (thorough also 11,13): is_irreducible vs brute-force trial division by all '
        'monic polynomials of degree <= deg/2, GF(modulus) accepts (right modulus/order) iff irreducible else '
        'ValueError, next_irreducible(x) == least monic irreducible with integer code > x (from the brute-force '
        'table); find_irreducible(p,d) for all p < 60 and d with p^d <= bound == least monic irreducible of degree '
        'd. Generated: products f*g*c and products of two reference-found irreducibles (must be reducible, GF must '
        'reject) over primes up to 2^255-19; random '
        'polynomials and scalar multiples; next_irreducible from random / boundary starts (p^d-1, p^d, 2p^d-1, '
        'non-monic region, <p) and find_irreducible(p,d) for p up to 2^61-1, oracle = reference upward scan with '
        'brute force (<=4000 trial divisions) or Rabin criterion (cross-validated against brute force on every '
        'enumerated polynomial). Non-trivial = polynomial of degree >= 2 / expected search result of degree >= 2; '
        'distinct by case hash / enumerated polynomial')
ASSUMPTIONS = ['reference: vlib/refmath.py + vlib/refpoly.py (trial division, Rabin criterion with schoolbook arithmetic)',
               'order "above in integer order" = order of base-p integer codes = the lexicographic order of the '
               'module docstring; results must be monic (next_irreducible docstring)']
CASE_TIMEOUT = 45
SCAN_CAP = 300  # reference scan gives up (case skipped) beyond this many candidates (60 for p > 300)

boot(numpy=False)
from mpyc import gfpx, finfields  # noqa: E402

QUICK_BOUND = 10**4
THOROUGH_BOUND = 6 * 10**4


def budget(tier):
    return dict(shards=16, examples=450 if tier == 'quick' else 8000)


# ------------------------------------------------------------------------------------------ plumbing
class Ctx:
    def __init__(self):
        self.fails = []
        self.count = {}

    def fail(self, detail, fid=None):
        self.count[fid] = self.count.get(fid, 0) + 1
        if self.count[fid] <= 3:
            self.fails.append((fid, detail))


_LISTED = None


def _listed():
    global _LISTED
    if _LISTED is None:
        _LISTED = known_ids(ID)
    return _LISTED


def _finish(ctx, labels, **kw):
    labels = sorted(set(labels))
    if not ctx.fails:
        return Outcome(True, '', labels=labels, **kw)
    listed = _listed()
    unknown = [(f, d) for f, d in ctx.fails if f is None or f not in listed]
    if unknown:
        return Outcome(False, '\n'.join(d for _, d in unknown[:3]), labels=labels, **kw)
    fids = sorted({f for f, _ in ctx.fails})
    detail = '; '.join(f'[{f} x{ctx.count[f]}] ' + next(d for g, d in ctx.fails if g == f) for f in fids)
    return Outcome(False, detail, labels=labels + [f'known-class failure {f}' for f in fids],
                   known=ctx.fails[0][0], **kw)


def _show(t):
    t = list(t)
    return str(t) if len(t) <= 48 else f'{t[:40]}...(len {len(t)})'


def _tup(P, x):
    """mpyc polynomial -> coefficient tuple (None if not a well-formed polynomial of type P)."""
    if type(x) is not P:
        return None
    v = x.value
    if P.p == 2:
        return R.pfrom_int(v, 2) if isinstance(v, int) and v >= 0 else None
    if not isinstance(v, list) or any(not 0 <= c < P.p for c in v) or (v and v[-1] == 0):
        return None
    return tuple(int(c) for c in v)


def _guard(ctx, what, fn):
    try:
        fn()
    except Exception:
        ctx.fail(f'{what}: exception on valid input\n{traceback.format_exc()[-1500:]}')


# ------------------------------------------------------------------------------------------ single checks
def chk_irr(ctx, P, p, f, want, form='poly'):
    """is_irreducible and GF(modulus) acceptance for polynomial f (tuple), expected answer `want`."""
    def go():
        arg = P(list(f)) if form == 'poly' else R.pto_int(f, p) if form == 'int' else list(f)
        got = P.is_irreducible(arg)
        if got is not True and got is not False or got != want:
            ctx.fail(f'GF({p})[x].is_irreducible({_show(f)}) = {got!r}, reference says {want}'
                     + ('' if want else f' (factor {_show(RP.smallest_factor_bf(f, p) or ())})'
                        if RP.bf_cost(f, p) <= 4000 else ''))
    _guard(ctx, f'is_irreducible({_show(f)}) over GF({p})', go)


def chk_gf(ctx, P, p, f, want):
    def go():
        m = P(list(f))
        try:
            F = finfields.GF(m)
        except ValueError:
            F = None
        if F is None:
            if want:
                ctx.fail(f'GF({_show(f)} over GF({p})) rejected an irreducible modulus')
            return
        if not want:
            ctx.fail(f'GF({_show(f)} over GF({p})) accepted a modulus that is not irreducible')
            return
        d = len(f) - 1
        if _tup(P, F.modulus) != tuple(f) or F.order != p ** d or F.characteristic != p or F.ext_deg != d:
            ctx.fail(f'GF({_show(f)} over GF({p})): field has modulus {F.modulus}, order {F.order}, '
                     f'characteristic {F.characteristic}, degree {F.ext_deg}')
    _guard(ctx, f'GF({_show(f)}) over GF({p})', go)


def chk_next(ctx, P, p, x, want, form='int'):
    """next_irreducible(x) must be the polynomial with integer code `want`."""
    def go():
        xt = R.pfrom_int(x, p)
        arg = x if form == 'int' else P(list(xt))
        got = _tup(P, P.next_irreducible(arg))
        wt = R.pfrom_int(want, p)
        if got != wt:
            fid = None
            if p % 2 == 1 and 0 <= x < p and want == p and got == (1, 1):
                fid = 'F5'  # odd p, start below X: X itself is skipped
            ctx.fail(f'GF({p})[x].next_irreducible({_show(xt)} = code {x}) = {got}, least monic irreducible '
                     f'above is {_show(wt)} (code {want})', fid)
    _guard(ctx, f'next_irreducible({x}) over GF({p})', go)


def chk_find(ctx, p, d, want):
    def go():
        P = gfpx.GFpX(p)
        got = _tup(P, finfields.find_irreducible(p, d))
        wt = R.pfrom_int(want, p)
        if got != wt:
            fid = 'F5' if (p % 2 == 1 and d == 1 and want == p and got == (1, 1)) else None
            ctx.fail(f'find_irreducible({p}, {d}) = {got}, smallest monic irreducible of degree {d} is {_show(wt)}', fid)
    _guard(ctx, f'find_irreducible({p}, {d})', go)


# ------------------------------------------------------------------------------------------ exhaustive cells
def _maxdeg(p, bound):
    d = 0
    while p ** (d + 1) <= bound:
        d += 1
    return d


def enumerate_cases(tier):
    bound = QUICK_BOUND if tier == 'quick' else THOROUGH_BOUND
    primes = [2, 3, 5, 7] if tier == 'quick' else [2, 3, 5, 7, 11, 13]
    for p in primes:
        N = p ** (_maxdeg(p, bound) + 1)
        step = 256 if tier == 'quick' else 512
        for lo in range(0, N, step):
            yield {'mode': 'exh', 'p': p, 'lo': lo, 'hi': min(N, lo + step)}
    for p in range(2, 60):
        if R.is_prime(p):
            yield {'mode': 'find', 'p': p, 'dmax': max(1, _maxdeg(p, bound))}
    for f in _LITERATURE:
        yield {'mode': 'gen', 'kind': 'rand', 'p': 2, 'f': f, 'c': 1}


def _bits(*exps):
    n = max(exps)
    return [1 if i in exps else 0 for i in range(n + 1)]


# well-known irreducible binary polynomials (AES, GCM, common GF(2^n) moduli) and close reducible neighbours;
# judged by the Rabin reference like everything else
_LITERATURE = [_bits(8, 4, 3, 1, 0), _bits(8, 4, 3, 2, 0), _bits(16, 5, 3, 1, 0), _bits(32, 7, 3, 2, 0),
               _bits(64, 4, 3, 1, 0), _bits(64, 4, 3, 2, 0), _bits(61, 5, 2, 1, 0), _bits(48, 5, 3, 2, 0),
               _bits(40, 5, 4, 3, 0), _bits(33, 10, 0), _bits(33, 13, 0), _bits(47, 5, 0), _bits(63, 1, 0)]


def _run_exh(case):
    p, lo, hi = case['p'], case['lo'], case['hi']
    P = gfpx.GFpX(p)
    ctx = Ctx()
    polys = {x: R.pfrom_int(x, p) for x in range(lo, hi + 1)}
    irr = {}
    for x in range(lo, hi + 1):
        f = polys[x]
        b = RP.is_irreducible_bf(f, p)
        if RP.is_irreducible_rabin(f, p) != b:  # oracle self-check: escapes as a harness error on purpose
            raise AssertionError(f'reference oracles disagree on {f} over GF({p})')
        irr[x] = b
    # least monic irreducible code above x, for x in [lo, hi)
    nxt = {}
    y, _ = RP.next_monic_irreducible(hi - 1, p, RP.is_irreducible_bf)
    for x in range(hi - 1, lo - 1, -1):
        nxt[x] = y
        if irr[x] and polys[x] and polys[x][-1] == 1:
            y = x
    n = nt = 0
    for x in range(lo, hi):
        f = polys[x]
        n += 1
        nt += len(f) >= 3
        chk_irr(ctx, P, p, f, irr[x], 'poly')
        if x % 5 == 0:
            chk_irr(ctx, P, p, f, irr[x], 'int')
        if x % 7 == 0:
            chk_irr(ctx, P, p, f, irr[x], 'list')
        chk_gf(ctx, P, p, f, irr[x])
        chk_next(ctx, P, p, x, nxt[x], 'int' if x % 2 else 'poly')
        if ctx.count.get(None):
            break
    finfields.xGF.cache_clear()
    return _finish(ctx, [f'exhaustive cell p={p}'], n=n, n_nt=nt, exhaustive=True)


def _run_find(case):
    p = case['p']
    ctx = Ctx()
    n = 0
    for d in range(1, case['dmax'] + 1):
        want, _ = RP.next_monic_irreducible(p ** d - 1, p)
        if not p ** d <= want < 2 * p ** d:
            raise AssertionError('reference: no monic irreducible of this degree?')
        chk_find(ctx, p, d, want)
        n += 1
    return _finish(ctx, [f'find_irreducible all degrees, p={"2" if p == 2 else "odd"}'], n=n,
                   n_nt=max(0, n - 1), exhaustive=True)


# ------------------------------------------------------------------------------------------ generated cases
def _run_gen(case):
    p, kind = case['p'], case['kind']
    P = gfpx.GFpX(p)
    ctx = Ctx()
    pb = p.bit_length()
    labels = [f'kind {kind}', 'p=2' if p == 2 else 'p<=13' if p <= 13 else 'p<2^32' if pb <= 32 else 'p>=2^32']
    nt = True
    if kind == 'prod':
        f, g, c = tuple(case['f']), tuple(case['g']), case['c']
        a = R.pmul(R.pmul(f, g, p), (c,), p)
        chk_irr(ctx, P, p, a, False, case.get('form', 'poly'))
        chk_gf(ctx, P, p, a, False)
        labels.append('product: min factor degree ' + _dclass(min(len(f), len(g)) - 1))
        labels.append('reducible')
    elif kind == 'semi':
        # product of two monic irreducibles (found by the reference scan from the given starts) times a unit:
        # reducible without small factors, the hard case for a truncated Ben-Or loop
        y1, _ = RP.next_monic_irreducible(case['x1'], p, limit=SCAN_CAP if p <= 300 else 60)
        y2, _ = RP.next_monic_irreducible(case['x2'], p, limit=SCAN_CAP if p <= 300 else 60)
        if y1 is None or y2 is None:
            return Outcome(True, '', labels=labels + ['scan cap exceeded (skipped)'], nontrivial=False, skipped=True)
        f, g = R.pfrom_int(y1, p), R.pfrom_int(y2, p)
        a = R.pmul(R.pmul(f, g, p), (case['c'],), p)
        chk_irr(ctx, P, p, a, False, case.get('form', 'poly'))
        chk_gf(ctx, P, p, a, False)
        labels.append('semiprime: min factor degree ' + _dclass(min(len(f), len(g)) - 1))
        labels.append('reducible')
    elif kind == 'rand':
        f, c = tuple(case['f']), case['c']
        want = RP.is_irreducible_ref(f, p)
        cf = R.pmul(f, (c,), p)
        for a in [f] + ([cf] if cf != f else []):
            chk_irr(ctx, P, p, a, want, case.get('form', 'poly'))
            chk_gf(ctx, P, p, a, want)
        labels.append('irreducible' if want else 'reducible')
        labels.append('oracle brute force' if RP.bf_cost(f, p) <= 4000 else 'oracle Rabin')
        labels.append('deg ' + _dclass(len(f) - 1))
        nt = len(f) >= 3
    elif kind == 'next':
        x = case['x']
        want, tested = RP.next_monic_irreducible(x, p, limit=SCAN_CAP if p <= 300 else 60)
        if want is None:  # long run of reducible candidates (e.g. X^d + c when gcd(d, p-1) = 1): too slow, not wrong
            return Outcome(True, '', labels=labels + ['scan cap exceeded (skipped)'], nontrivial=False, skipped=True)
        chk_next(ctx, P, p, x, want, case.get('form', 'int'))
        wt = R.pfrom_int(want, p)
        chk_irr(ctx, P, p, wt, True)
        chk_gf(ctx, P, p, wt, True)
        labels.append(f"start {case.get('xkind', '-')}")
        labels.append('result deg ' + _dclass(len(wt) - 1))
        labels.append('candidates scanned ' + ('1' if tested == 1 else '2-5' if tested <= 5 else '>5'))
        if p % 2 == 1 and 0 <= x < p:
            labels.append('class F5 (odd p, start < X) generated')
        nt = len(wt) >= 3
    elif kind == 'find':
        d = case['d']
        want, _ = RP.next_monic_irreducible(p ** d - 1, p, limit=SCAN_CAP if p <= 300 else 60)
        if want is None:
            return Outcome(True, '', labels=labels + ['scan cap exceeded (skipped)'], nontrivial=False, skipped=True)
        chk_find(ctx, p, d, want)
        labels.append('find degree ' + _dclass(d))
        nt = d >= 2
    else:
        raise ValueError(kind)
    finfields.xGF.cache_clear()
    return _finish(ctx, labels, nontrivial=nt)


def _dclass(d):
    return '<=0' if d <= 0 else '1' if d == 1 else '2-4' if d <= 4 else '5-12' if d <= 12 else '>12'


_SMALLP = [2, 2, 3, 3, 5, 7, 11, 13]
_MEDP = [17, 31, 101, 251, 257, 65537, 2**31 - 1]
_BIGP = [2**61 - 1, 2**64 - 59, 2**127 - 1, 2**255 - 19]


def _degcap(p, work):
    """Largest degree d with bits(p) * d^3 <= work (cost of a Ben-Or / Rabin run is about d * bits(p) * d^2)."""
    d = 1
    while p.bit_length() * (d + 1) ** 3 <= work:
        d += 1
    return d


@st.composite
def _poly(draw, p, d, monic=False, uniform=False):
    """Polynomial of exact degree d >= 0."""
    co = st.integers(0, p - 1) if p == 2 or uniform else st.one_of(st.just(0), st.just(1), st.just(p - 1), st.integers(0, p - 1),
                                                          st.integers(0, p - 1))
    lead = 1 if monic else draw(st.one_of(st.just(1), st.integers(1, p - 1)))
    return draw(st.lists(co, min_size=d, max_size=d)) + [lead]


@st.composite
def _case(draw):
    kind = draw(st.sampled_from(['prod', 'semi', 'rand', 'rand', 'next', 'next', 'next', 'find']))
    form = draw(st.sampled_from(['poly', 'poly', 'int', 'list']))
    xkind = draw(st.sampled_from(['random', 'random', 'random', 'random', 'random', 'p^d-1', 'p^d', '2p^d-1', 'nonmonic',
                                  'nonmonic', 'below p', 'tiny']))
    if kind == 'semi':
        p = draw(st.one_of(st.just(2), st.just(2), st.sampled_from(_SMALLP), st.sampled_from(_MEDP[:5])))
        D = min(_degcap(p, 8000), 20) if p > 2 else 20
        d1 = draw(st.integers(1, D))
        d2 = draw(st.one_of(st.just(d1), st.integers(1, D)))
        return {'mode': 'gen', 'kind': kind, 'p': p, 'c': draw(st.integers(1, p - 1)), 'form': form,
                'x1': R.pto_int(tuple(draw(_poly(p, d1, monic=True))), p),
                'x2': R.pto_int(tuple(draw(_poly(p, d2, monic=True))), p)}
    if kind in ('prod', 'rand'):
        p = draw(st.one_of(st.just(2), st.sampled_from(_SMALLP), st.sampled_from(_MEDP), st.sampled_from(_BIGP),
                           st.integers(2, 2**32).map(R.next_prime)))
    elif kind == 'next' and xkind == 'random':
        p = draw(st.one_of(st.just(2), st.sampled_from(_SMALLP), st.sampled_from(_SMALLP), st.sampled_from(_MEDP),
                           st.sampled_from(_BIGP[:2]), st.integers(2, 2**20).map(R.next_prime)))
    else:
        # structured starts can sit below a run of ~p reducible candidates (X^d + c with gcd(d, p-1) = 1; the
        # maintainers' TODO in _next_irreducible): keep p small so that both scans stay cheap
        p = draw(st.one_of(st.just(2), st.sampled_from(_SMALLP), st.sampled_from(_SMALLP),
                           st.sampled_from([17, 31, 101, 251, 257]), st.integers(2, 300).map(R.next_prime)))
    if kind == 'prod':
        D = min(_degcap(p, 60000), 40)
        df = draw(st.one_of(st.integers(1, 2), st.integers(1, max(1, D // 2))))
        dg = draw(st.one_of(st.integers(1, 2), st.integers(1, max(1, D - df)), st.just(df)))
        f = draw(_poly(p, df))
        g = list(f) if draw(st.integers(0, 7)) == 0 and dg == df else draw(_poly(p, dg))
        return {'mode': 'gen', 'kind': kind, 'p': p, 'f': f, 'g': g, 'c': draw(st.integers(1, p - 1)), 'form': form}
    if kind == 'rand':
        D = min(_degcap(p, 40000), 32)
        d = draw(st.one_of(st.integers(1, 3), st.integers(2, max(2, D)), st.integers(2, max(2, D))))
        if draw(st.integers(0, 24)) == 0:
            f = draw(st.sampled_from([[], [1], [p - 1]]))
        else:
            f = draw(_poly(p, d))
            if p == 2 or draw(st.booleans()):
                f[0] = f[0] or 1  # nonzero constant term: not trivially divisible by X
            if p == 2 and d >= 2 and draw(st.booleans()) and sum(f) % 2 == 0:
                f[1] ^= 1         # odd weight: not trivially divisible by X+1
        return {'mode': 'gen', 'kind': kind, 'p': p, 'f': f, 'c': draw(st.integers(1, p - 1)), 'form': form}
    if kind == 'next':
        D = min(_degcap(p, 6000), 24)
        d = draw(st.integers(1, max(1, D - 1)))
        if xkind == 'random':
            x = R.pto_int(tuple(draw(_poly(p, draw(st.integers(1, D)), monic=p > 300, uniform=p > 300))), p)
        elif xkind == 'p^d-1':
            x = p ** d - 1
        elif xkind == 'p^d':
            x = p ** d
        elif xkind == '2p^d-1':
            x = 2 * p ** d - draw(st.integers(1, 3))
        elif xkind == 'nonmonic':
            x = draw(st.integers(2 * p ** d, p ** (d + 1) - 1)) if p > 2 else p ** (d + 1) - 1
        elif xkind == 'below p':
            x = draw(st.integers(0, p - 1))
        else:
            x = draw(st.integers(p, 4 * p))
        return {'mode': 'gen', 'kind': kind, 'p': p, 'x': x, 'xkind': xkind, 'form': draw(st.sampled_from(['int', 'poly']))}
    D = min(_degcap(p, 6000), 24)
    return {'mode': 'gen', 'kind': 'find', 'p': p, 'd': draw(st.one_of(st.integers(1, 3), st.integers(1, D)))}


def strategy(tier):
    return _case()


def run_case(case):
    mode = case.get('mode', 'gen')
    if mode == 'exh':
        return _run_exh(case)
    if mode == 'find':
        return _run_find(case)
    return _run_gen(case)
