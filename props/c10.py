"""C10: message framing tolerates any stream chunking and arrival order (model-based history check).

A case is a configuration (m, t, client pid, server pid, PRSS on/off, key seed) plus a list of
operations that is interpreted against a pair of REAL asyncoro.MessageExchanger objects -- the client
side at party `client` and the server side at party `server`, each bound to a real Runtime -- joined
by two in-memory byte pipes (one per direction):

  ['s', d, pc, size, seed, kind]   the sender of direction d sends a payload labelled pc
  ['d', d, k]                      the next k bytes (or all, if fewer) of direction d arrive in ONE
                                   data_received call at the receiver
  ['r', d, pc]                     the receiver of direction d calls receive(pc)

d = 0 is client -> server (this stream starts with the handshake the client writes in
connection_made: its pid and its PRSS keys for the server), d = 1 is server -> client.

The model is, per direction, the list of frames written (byte offsets in the stream), the number of
bytes that have arrived and a map pc -> (sent frame, result of receive).  After EVERY operation:
a receive whose frame has completely arrived has yielded exactly that payload (immediately as bytes /
finished Future, or through the Future handed out earlier, whose done-callback ran exactly once on
the party's event loop); every other Future is still pending; no callback fired for anything else.
At the end every label ever used (and some never used) is probed with a further receive: arrived but
unreceived payloads come out, everything else is a pending Future (nothing is delivered twice, nothing
is invented).  Handshake: the server registers the connection (Runtime.set_protocol, peer_pid) exactly
when the last handshake byte has arrived, not before; afterwards its PRSS key table consists of its own
keys (unchanged) plus exactly the client's keys for every (m-t)-subset S with min(S) = client and
server in S; bytes following the handshake in the same chunk are not lost.

The interpreter is total: operations that are not valid in the current model state (a second send of
a label still in flight, a second receive of a label with a receive outstanding, server-side use of
the connection before the handshake has completed -- the Runtime hands the protocol object out only
then) are skipped and counted, so every sub-list of a case is a case (shrinks well).
"""
import asyncio
import hashlib
import itertools
import traceback
import types
from hypothesis import strategies as st
from vlib.boot import boot
from vlib.runner import Outcome

ID = 'C10'
LEVEL = 'exploration'
RULE = ('generated histories over a real client/server MessageExchanger pair: config (m 2..9, rarely up to 300 with pids '
        'around 255/256; every t with 2t<m; client<server pairs, rarely reversed; PRSS on/off) x up to 45 (thorough 120) '
        'operations send(dir,pc,payload) / deliver(dir,k bytes as one data_received) / receive(dir,pc); payload sizes '
        '0,1,11,12,13,..,65535,65536,70000 (random, zero, 0xff and frame-look-alike contents); labels incl. 0, +-1, '
        '+-2^31, +-2^32, 2^63-1, -2^63, reused after consumption; chunk ends placed inside the pid, inside/at the end of '
        'the key packet, at bytes 1..13 of a frame, at frame ends +-1, random, whole backlog (handshake tail + frames). '
        'Oracle: reference model (stream offsets of written frames, bytes arrived, pc -> payload) checked after every '
        'operation and by probing receives at the end; PRSS key tables of both runtimes compared under independently '
        'enumerated subsets. non-trivial = some chunk ended strictly inside a 12-byte frame header, or a receive was '
        'called before its frame had completely arrived and was resolved later')
ASSUMPTIONS = ['labels of messages in flight in one direction are distinct (C09); a label is reused only after its previous '
               'message has arrived and been received',
               'data_received is called with non-empty bytes objects (asyncio contract); no connection loss (C36)',
               'the server side uses the connection only after the handshake has completed (Runtime registers it then)',
               'a payload whose last byte has arrived must be available at once (any prefix may be all that ever arrives)',
               'payloads up to 70000 bytes (thorough 300000); the 4-byte size field is not exercised beyond that']
CASE_TIMEOUT = 120

boot(numpy=False)
import mpyc  # noqa: E402
from mpyc import asyncoro  # noqa: E402
import mpyc.runtime as rtm  # noqa: E402
from vlib.sim import Loop  # noqa: E402  (harness event loop; Sim itself is not used)

_PARSER = None


# ---------------------------------------------------------------- real objects under test

class _Secrets:
    """Deterministic stand-in for `secrets` inside mpyc.runtime (PRSS key generation)."""

    def __init__(self, seed):
        self.seed = seed
        self.n = 0

    def token_bytes(self, n=32):
        self.n += 1
        return hashlib.shake_128(f'C10/{self.seed}/{self.n}'.encode()).digest(n)


class _Pipe(asyncio.Transport):
    """Write end of one direction: everything written is appended to `buf`."""

    def __init__(self):
        super().__init__()
        self.buf = bytearray()
        self.writes = []

    def write(self, data):
        data = bytes(data)
        self.writes.append(len(data))
        self.buf += data

    def writelines(self, list_of_data):
        self.write(b''.join(bytes(d) for d in list_of_data))

    def close(self):
        pass

    def is_closing(self):
        return False

    def get_extra_info(self, name, default=None):
        return default


def _make_runtime(pid, m, t, prss, loop):
    global _PARSER
    if _PARSER is None:
        _PARSER = mpyc._get_arg_parser()
    opts = _PARSER.parse_args([])
    opts.threshold = t
    opts.no_prss = not prss
    opts.no_async = False
    opts.no_log = True
    parties = [rtm.Party(j, 'sim', 0) for j in range(m)]
    real_get = asyncio.get_event_loop
    asyncio.get_event_loop = lambda: loop
    try:
        rt = rtm.Runtime(pid, parties, opts)
    finally:
        asyncio.get_event_loop = real_get
    assert rt._loop is loop
    for p in rt.parties:
        p.protocol = asyncio.Future(loop=loop) if p.pid == pid else None
    return rt


def _subsets(m, t, client, server):
    """All (m-t)-subsets S of range(m) with min(S) == client and server in S (via complements)."""
    out = []
    if server <= client:
        return out
    rest = [x for x in range(client + 1, m) if x != server]  # parties below client are excluded
    need = m - t - 2
    if need < 0:
        return out
    for c in itertools.combinations(rest, need):
        out.append(tuple(sorted((client, server) + c)))
    return out


def _own_subsets(m, t, pid):
    rest = list(range(pid + 1, m))
    need = m - t - 1
    if need < 0 or need > len(rest):
        return []
    return [(pid,) + c for c in itertools.combinations(rest, need)]


def handshake_len(m, t, prss, client, server):
    return 2 + (16 * len(_subsets(m, t, client, server)) if prss else 0)


def _payload(pc, size, seed, kind):
    if kind == 'zero':
        return bytes(size)
    if kind == 'ff':
        return b'\xff' * size
    if kind == 'frame':  # looks like a run of empty frames with a label that is never sent
        other = ((pc ^ 0x5a5a5a5a) + seed) % (1 << 63)
        unit = other.to_bytes(8, 'little', signed=True) + (0).to_bytes(4, 'little')
        return (unit * (size // 12 + 1))[:size]
    return hashlib.shake_128(f'{seed}/{pc}'.encode()).digest(size)


class _Fail(Exception):
    pass


class _Dir:
    """Model of one direction."""

    def __init__(self, name, sender, receiver, pipe, loop_r):
        self.name = name
        self.sender = sender
        self.receiver = receiver
        self.pipe = pipe
        self.loop_r = loop_r
        self.base = 0          # stream offset where frames start (handshake length for d=0)
        self.written = 0       # bytes written so far (incl. handshake)
        self.arrived = 0       # bytes delivered to the receiver so far
        self.frames = []       # (pc, payload, start, end)
        self.cur = {}          # pc -> {'sent': frame|None, 'recv': None|('now',)|('fut', fut, box)}
        self.consumed = set()  # labels whose message was sent, arrived and received
        self.fired = []        # (pc, generation-box) of done-callbacks that ran


class _Run:

    def __init__(self, case):
        self.case = case
        self.labels = set()
        self.skipped = 0
        self.hdr_split = 0
        self.early_resolved = 0
        self.nops = 0

    def fail(self, msg):
        raise _Fail(msg)

    # ------------------------------------------------------------ set-up
    def setup(self):
        c = self.case
        m, t, ci, si, prss = c['m'], c['t'], c['client'], c['server'], c['prss']
        self.m, self.t, self.ci, self.si, self.prss = m, t, ci, si, prss
        ctx = types.SimpleNamespace(current=0)
        self.loop_c, self.loop_s = Loop(ctx, ci), Loop(ctx, si)
        saved = rtm.secrets
        rtm.secrets = _Secrets(c['seed'])
        try:
            self.rt_c = _make_runtime(ci, m, t, prss, self.loop_c)
            self.rt_s = _make_runtime(si, m, t, prss, self.loop_s)
        finally:
            rtm.secrets = saved
        self.own_c = dict(self.rt_c._prss_keys) if prss else None
        self.own_s = dict(self.rt_s._prss_keys) if prss else None
        if prss:
            for rt, pid in ((self.rt_c, ci), (self.rt_s, si)):
                want = sorted(_own_subsets(m, t, pid))
                if sorted(rt._prss_keys) != want:
                    self.fail(f'party {pid} generated keys for {sorted(rt._prss_keys)[:4]}.. expected subsets {want[:4]}..')
        self.client = asyncoro.MessageExchanger(self.rt_c, si)
        self.server = asyncoro.MessageExchanger(self.rt_s)
        pc_, ps_ = _Pipe(), _Pipe()
        self.d = [_Dir('client->server', self.client, self.server, pc_, self.loop_s),
                  _Dir('server->client', self.server, self.client, ps_, self.loop_c)]
        self.server.connection_made(ps_)
        self.client.connection_made(pc_)
        self.hs = handshake_len(m, t, prss, ci, si)
        if len(pc_.buf) != self.hs:
            self.fail(f'client wrote a handshake of {len(pc_.buf)} bytes; pid + one 128-bit key per subset with '
                      f'min=client containing the server is {self.hs} bytes')
        if ps_.buf:
            self.fail('server wrote bytes in connection_made')
        if self.rt_c.parties[si].protocol is not self.client:
            self.fail('client did not register its protocol for the server party')
        self.d[0].base = self.d[0].written = self.hs
        self.hs_done = False
        self.check_handshake()

    # ------------------------------------------------------------ handshake oracle
    def check_handshake(self):
        arrived = self.d[0].arrived
        reg = self.rt_s.parties[self.ci].protocol
        others = [p.pid for p in self.rt_s.parties
                  if p.pid not in (self.ci, self.si) and p.protocol is not None]
        if others:
            self.fail(f'server registered a connection for parties {others}, the client is {self.ci}')
        if arrived < self.hs:
            if reg is not None or self.server.peer_pid is not None:
                self.fail(f'server registered the connection (peer_pid={self.server.peer_pid}) after {arrived} of '
                          f'{self.hs} handshake bytes')
            if self.prss and dict(self.rt_s._prss_keys) != self.own_s:
                self.fail(f'server key table changed after {arrived} of {self.hs} handshake bytes')
            return
        if self.hs_done:
            return
        self.hs_done = True
        if self.server.peer_pid != self.ci:
            self.fail(f'server learnt peer_pid={self.server.peer_pid}, client is {self.ci}')
        if reg is not self.server:
            self.fail('server did not register the connection for the client after the complete handshake')
        if self.m == 2 and not self.rt_s.parties[self.si].protocol.done():
            self.fail('m=2: server runtime not signalled that all connections are up')
        if self.prss:
            subs = _subsets(self.m, self.t, self.ci, self.si)
            table = self.rt_s._prss_keys
            want_keys = set(self.own_s) | set(subs)
            if set(table) != want_keys:
                extra = sorted(set(table) - want_keys)[:3]
                miss = sorted(want_keys - set(table))[:3]
                self.fail(f'server key table has wrong subsets: extra {extra}, missing {miss}')
            for S in self.own_s:
                if bytes(table[S]) != self.own_s[S]:
                    self.fail(f'server\'s own key for {S} was overwritten')
            for S in subs:
                if bytes(table[S]) != bytes(self.rt_c._prss_keys[S]):
                    self.fail(f'server stored key {bytes(table[S]).hex()} for subset {S}, client holds '
                              f'{bytes(self.rt_c._prss_keys[S]).hex()}')
            if dict(self.rt_c._prss_keys) != self.own_c:
                self.fail('client key table changed')

    # ------------------------------------------------------------ operations
    def op_send(self, d, pc, size, seed, kind):
        D = self.d[d]
        if d == 1 and not self.hs_done:
            return False
        st_ = D.cur.get(pc)
        if st_ is not None and st_['sent'] is not None:
            return False
        payload = _payload(pc, size, seed, kind)
        before = len(D.pipe.buf)
        D.sender.send(pc, payload)
        wrote = len(D.pipe.buf) - before
        if wrote != 12 + size:
            self.fail(f'send(pc={pc}, {size} bytes) wrote {wrote} bytes; documented format is 8+4+{size}')
        fr = (pc, payload, D.written, D.written + wrote)
        D.written += wrote
        D.frames.append(fr)
        if st_ is None:
            st_ = D.cur[pc] = {'sent': None, 'recv': None}
            if pc in D.consumed:
                self.labels.add('pc-reuse')
        st_['sent'] = fr
        self.labels.add('size=' + ('0' if size == 0 else '1-11' if size < 12 else '12-13' if size < 14 else
                                   '<4k' if size < 4096 else '<64k' if size < 65535 else '>=65535'))
        if abs(pc) >= 2**31:
            self.labels.add('pc>=2^31' if abs(pc) < 2**62 else 'pc~2^63')
        if pc < 0:
            self.labels.add('pc<0')
        return True

    def op_deliver(self, d, k):
        D = self.d[d]
        k = min(k, len(D.pipe.buf))
        if k <= 0:
            return False
        chunk = bytes(D.pipe.buf[:k])
        del D.pipe.buf[:k]
        old = D.arrived
        D.receiver.data_received(chunk)
        D.arrived = new = old + k
        # classification of where the chunk ends
        if d == 0 and old < self.hs:
            if new < self.hs:
                self.labels.add('hs-split-in-pid' if new < 2 else 'hs-split-in-keys')
            elif new == self.hs:
                self.labels.add('hs-ends-chunk')
            else:
                self.labels.add('hs-tail+frames-in-chunk')
        nfr = 0
        for pc, payload, s, e in D.frames:
            if s < new < s + 12:
                self.hdr_split += 1
                self.labels.add('hdr-split')
            elif new == s + 12 and e > new:
                self.labels.add('split-after-hdr')
            elif s + 12 < new < e:
                self.labels.add('payload-split')
            if old < e <= new:
                nfr += 1
        if nfr >= 2:
            self.labels.add('multi-frame-chunk')
        return True

    def op_receive(self, d, pc, probe=False):
        D = self.d[d]
        if d == 0 and not self.hs_done:
            return False
        st_ = D.cur.get(pc)
        if st_ is not None and st_['recv'] is not None:
            return False
        res = D.receiver.receive(pc)
        fr = st_['sent'] if st_ is not None else None
        arrived = fr is not None and fr[3] <= D.arrived
        what = f'{D.name}: receive(pc={pc})'
        if arrived:
            val = res
            if isinstance(res, asyncio.Future):
                if not res.done():
                    self.fail(f'{what} after complete arrival of its {len(fr[1])}-byte payload returned a pending Future')
                val = res.result()
            if not isinstance(val, (bytes, bytearray)) or bytes(val) != fr[1]:
                self.fail(f'{what} yielded {_show(val)}, sent payload was {_show(fr[1])}')
            st_['recv'] = ('now',)
            self.labels.add('recv-after-arrival')
        else:
            why = ('never sent' if fr is None and pc not in D.consumed else
                   'already consumed' if fr is None else 'not completely arrived')
            if not isinstance(res, asyncio.Future):
                self.fail(f'{what} ({why}) returned {_show(res)} instead of a Future')
            if res.done():
                self.fail(f'{what} ({why}) returned a finished Future: {_show(res.result())}')
            if st_ is None:
                st_ = D.cur[pc] = {'sent': None, 'recv': None}
            box = [0]
            res.add_done_callback(lambda f, pc=pc, box=box, D=D: (box.__setitem__(0, box[0] + 1),
                                                                   D.fired.append((pc, box))))
            st_['recv'] = ('fut', res, box, probe)
            if not probe:
                self.labels.add('recv-before-send' if fr is None else 'recv-before-arrival')
        return True

    # ------------------------------------------------------------ invariant after every operation
    def check_all(self):
        self.loop_c.run_ready()
        self.loop_s.run_ready()
        for lp in (self.loop_c, self.loop_s):
            if lp.errors:
                self.fail(f'event loop error: {lp.errors[0]}')
        self.check_handshake()
        for D in self.d:
            done_pcs = []
            for pc, st_ in D.cur.items():
                fr, rv = st_['sent'], st_['recv']
                arrived = fr is not None and fr[3] <= D.arrived
                if rv is None:
                    continue
                if rv[0] == 'fut':
                    fut, box = rv[1], rv[2]
                    if arrived:
                        if not fut.done():
                            self.fail(f'{D.name}: payload of pc={pc} ({len(fr[1])} bytes, stream bytes {fr[2]}..{fr[3]}) '
                                      f'has completely arrived ({D.arrived} bytes) but the pending receive is not resolved')
                        val = fut.result()
                        if not isinstance(val, (bytes, bytearray)) or bytes(val) != fr[1]:
                            self.fail(f'{D.name}: receive(pc={pc}) resolved to {_show(val)}, sent {_show(fr[1])}')
                        if box[0] != 1:
                            self.fail(f'{D.name}: done-callback of receive(pc={pc}) ran {box[0]} times')
                        if not rv[3]:
                            self.early_resolved += 1
                    else:
                        if fut.done() or box[0]:
                            r = fut.result() if fut.done() and not fut.cancelled() else '?'
                            self.fail(f'{D.name}: receive(pc={pc}) resolved to {_show(r)} although its message has '
                                      f'{"not been sent" if fr is None else "not completely arrived"}')
                if arrived:
                    done_pcs.append(pc)
            for pc in done_pcs:
                del D.cur[pc]
                D.consumed.add(pc)

    # ------------------------------------------------------------ end of history
    def finish(self):
        c = self.case
        if c.get('flush'):
            for d in (0, 1):
                if self.op_deliver(d, 1 << 40):
                    self.check_all()
        pcs = set(c.get('probe', []))
        for op in c['ops']:
            if op[0] in ('s', 'r'):
                pcs.add(op[2])
        for d in (0, 1):
            for pc in sorted(pcs):
                self.op_receive(d, pc, probe=True)
        self.check_all()
        # every pending probe must still be pending after the loops ran (nothing invented)
        self.check_all()

    def run(self):
        self.setup()
        for op in self.case['ops']:
            kind = op[0]
            if kind == 's':
                ok = self.op_send(op[1], op[2], op[3], op[4], op[5])
            elif kind == 'd':
                ok = self.op_deliver(op[1], op[2])
            elif kind == 'r':
                ok = self.op_receive(op[1], op[2])
            else:
                raise ValueError(f'bad op {op}')
            if ok:
                self.nops += 1
                self.check_all()
            else:
                self.skipped += 1
        self.finish()


def _show(v):
    if isinstance(v, (bytes, bytearray)):
        b = bytes(v)
        return f'<{len(b)} bytes {b[:12].hex()}{"..." if len(b) > 12 else ""}>'
    return repr(v)[:80]


def run_case(case):
    r = _Run(case)
    lb = [f'm={min(case["m"], 10)}{"+" if case["m"] > 10 else ""}', f't={min(case["t"], 5)}{"+" if case["t"] > 5 else ""}',
          f'prss={case["prss"]}', 'pid>=256' if max(case['client'], case['server']) >= 256 else 'pid<256',
          'pair=' + ('0,x' if case['client'] == 0 else 'reversed' if case['client'] > case['server'] else 'i,j')]
    try:
        r.run()
    except _Fail as e:
        return Outcome(False, f'{e}\ncase={_brief(case)}', labels=lb)
    except Exception:
        return Outcome(False, f'exception on valid history: {traceback.format_exc()[-1800:]}\ncase={_brief(case)}',
                       labels=lb)
    finally:
        asyncio.events._set_running_loop(None)
    lb += sorted(r.labels)
    lb.append('hs=' + ('2' if r.hs == 2 else '18' if r.hs == 18 else '<=100' if r.hs <= 100 else '>100'))
    if r.skipped:
        lb.append('some-ops-skipped')
    if not r.hs_done:
        lb.append('handshake-incomplete-at-end')
    return Outcome(True, labels=lb, nontrivial=bool(r.hdr_split or r.early_resolved))


def _brief(case):
    s = str(case)
    return s if len(s) < 3000 else s[:3000] + '...'


# ---------------------------------------------------------------- generator (simulates the model to aim chunk ends)

def budget(tier):
    return dict(shards=16, examples=220 if tier == 'quick' else 1800)


_PCS = [0, 1, -1, 2, -2, 3, 255, 256, 65535, 65536, 2**31 - 1, 2**31, -2**31, -2**31 - 1, 2**32 - 1, 2**32, -2**32,
        2**63 - 1, 2**63 - 2, -2**63, -2**63 + 1, 2**62, -2**62]
_SIZES = [0, 0, 0, 1, 1, 2, 11, 12, 13, 23, 24, 25, 100, 255, 256, 1000, 4096, 65535, 65536, 70000]


@st.composite
def _config(draw, tier):
    big = draw(st.integers(0, 19)) == 0
    if big:
        m = draw(st.sampled_from([130, 256, 257, 258, 300]))
        prss = draw(st.booleans())
        t = draw(st.integers(0, 1)) if prss else draw(st.integers(0, (m - 1) // 2))
        if prss and t == 0:
            client = 0
        else:
            client = draw(st.sampled_from([0, 1, 127, 128, 254, 255, 256, m - 2]))
            client = min(client, m - 2)
        server = draw(st.sampled_from([client + 1, 255, 256, 257, m - 1]))
        server = min(max(server, client + 1), m - 1)
    else:
        m = draw(st.one_of(st.integers(2, 6), st.integers(2, 9 if tier == 'quick' else 12)))
        tmax = (m - 1) // 2
        t = draw(st.one_of(st.integers(0, tmax), st.integers(0, tmax).map(lambda x: tmax - x)))
        prss = draw(st.sampled_from([True, True, True, False]))
        a = draw(st.integers(0, m - 1))
        b = draw(st.integers(0, m - 2))
        if b >= a:
            b += 1
        client, server = min(a, b), max(a, b)
        if draw(st.integers(0, 2)) == 0 or (prss and t == 0 and draw(st.integers(0, 3)) > 0):
            client = 0  # party 0 holds most keys (all of them for t=0)
        if draw(st.sampled_from([0] * 19 + [1])):
            client, server = server, client  # docstring allows either role; runtime never does this
    return dict(m=m, t=t, prss=prss, client=client, server=server, seed=draw(st.integers(0, 2**32)))


@st.composite
def _case(draw, tier):
    cfg = draw(_config(tier))
    hs = handshake_len(cfg['m'], cfg['t'], cfg['prss'], cfg['client'], cfg['server'])
    nops = draw(st.integers(0, 45 if tier == 'quick' else 120))
    pool = draw(st.lists(st.one_of(st.sampled_from(_PCS), st.integers(-20, 20), st.integers(-2**63, 2**63 - 1)),
                         min_size=1, max_size=10, unique=True))
    maxsize = 70000 if tier == 'quick' else 300000
    budget_bytes = 400000 if tier == 'quick' else 1500000
    # generator-side model
    written = [hs, 0]
    arrived = [0, 0]
    frames = [[], []]        # (pc, start, end)
    sent = [dict(), dict()]  # pc -> end offset of frame in flight (not yet consumed)
    recv = [set(), set()]    # pcs with a receive outstanding
    ops = []
    dirs_w = draw(st.sampled_from([[0], [0, 0, 1], [0, 1], [1, 1, 0]]))
    eager_recv = draw(st.sampled_from([0, 1, 3]))  # weight of receive-before-send

    def consume(d):
        for pc in list(sent[d]):
            if sent[d][pc] <= arrived[d] and pc in recv[d]:
                del sent[d][pc]
                recv[d].discard(pc)

    for _ in range(nops):
        d = draw(st.sampled_from(dirs_w))
        hs_done = arrived[0] >= hs
        backlog = written[d] - arrived[d]
        choices = []
        free = [pc for pc in pool if pc not in sent[d]]
        if free and (d == 0 or hs_done) and budget_bytes > 0:
            choices += ['s', 's']
        if backlog > 0:
            choices += ['d', 'd', 'd']
        can_r = [pc for pc in pool if pc not in recv[d]]
        if can_r and (d == 1 or hs_done):
            choices += ['r', 'r']
        if not choices:
            # typically: nothing sent yet on d=1 before the handshake is through -> push the handshake
            d = 0
            if written[0] - arrived[0] > 0:
                choices = ['d']
            else:
                choices = ['s']
                free = [pc for pc in pool if pc not in sent[0]]
                if not free:
                    break
        kind = draw(st.sampled_from(choices))
        backlog = written[d] - arrived[d]
        if kind == 's':
            pc = draw(st.sampled_from(free))
            size = draw(st.one_of(st.sampled_from(_SIZES), st.integers(0, 40), st.integers(0, maxsize)))
            size = min(size, maxsize, max(budget_bytes, 0))
            budget_bytes -= size + 12
            pk = draw(st.sampled_from(['rand', 'rand', 'zero', 'ff', 'frame']))
            ops.append(['s', d, pc, size, draw(st.integers(0, 999)), pk])
            frames[d].append((pc, written[d], written[d] + 12 + size))
            written[d] += 12 + size
            sent[d][pc] = written[d]
        elif kind == 'd':
            pos = arrived[d]
            how = draw(st.sampled_from(['all', 'one', 'small', 'rand', 'aim', 'aim', 'aim', 'aim']))
            if how == 'all':
                k = backlog
            elif how == 'one':
                k = 1
            elif how == 'small':
                k = draw(st.integers(1, 13))
            elif how == 'rand':
                k = draw(st.integers(1, backlog))
            else:
                # aim the end of the chunk at an interesting stream offset beyond pos
                targets = []
                if d == 0 and pos < hs:
                    targets += [1, 2, 3, 17, 18, 19, hs - 17, hs - 16, hs - 1, hs, hs + 1, hs + 11, hs + 12, hs + 13]
                for pc, s, e in frames[d]:
                    if e > pos:
                        targets += [s + o for o in (1, 4, 7, 8, 9, 11, 12, 13)] + [e - 1, e, e + 1]
                        if len(targets) > 60:
                            break
                targets = sorted({x for x in targets if pos < x <= written[d]})
                if targets:
                    # prefer near targets, but allow jumping over several frames
                    near = draw(st.booleans())
                    tgt = draw(st.sampled_from(targets[:8] if near else targets))
                    k = tgt - pos
                else:
                    k = backlog
            k = max(1, min(k, backlog))
            ops.append(['d', d, k])
            arrived[d] += k
            consume(d)
        else:
            inflight = [pc for pc in can_r if pc in sent[d]]
            if inflight and draw(st.integers(0, 3 + eager_recv)) < 3:
                pc = draw(st.sampled_from(inflight))
            else:
                pc = draw(st.sampled_from(can_r))
            ops.append(['r', d, pc])
            recv[d].add(pc)
            consume(d)
    flush = draw(st.sampled_from([True, True, False]))
    probe = draw(st.lists(st.one_of(st.sampled_from(_PCS), st.integers(-3, 3)), max_size=3))
    cfg.update(ops=ops, flush=flush, probe=probe)
    return cfg


def strategy(tier):
    return _case(tier)
