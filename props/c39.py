"""C39: secure type and party configuration parameters are valid.

Three kinds of cases:
  setup   mpyc.runtime.setup() driven with a synthetic sys.argv (`-M m -I i -T t` or `-P ...` party lists, PRSS on/off);
          all (m, t) with 0 <= t <= m+1 for small m are enumerated.  2t >= m must be refused (exception, no runtime
          installed), 2t < m must give a runtime with exactly m parties, threshold t and the given party index.
  secfld  SecFld(order, modulus, char, ext_deg, min_order, signed) with generated argument combinations (int / polynomial /
          string / integer-encoded moduli) inside an (m, t)-party configuration of the simulator.  Oracle from the docstring:
          every given argument is honoured by the REQUESTED field (F.subfield when lifted, else F.field), defaults as
          documented, modulus prime / irreducible (independent check), lifting iff t > 0 and m >= q with
          |F.field| > m, same characteristic, irreducible modulus of degree >= 2; inconsistent requests must be refused or
          answered with a field honouring every given argument; optionally a tiny program (input, product, output) is run
          on the type: outputs are elements of the requested field with the reference value.
  types   SecInt / SecFxp / SecFlt / SecFld / secure groups for generated (m, t, sec_param): every returned type's sharing
          field has more than m elements when t > 0; a refusal is accepted only when the natural field can be that small.
"""
import sys
import os
import types as _types
import asyncio

from hypothesis import strategies as st

from vlib.boot import boot
boot(numpy=False)
from vlib import sim as simmod, refmath as R, fields as FL, lagrange as LG  # noqa: E402
from vlib.runner import Outcome  # noqa: E402

ID = 'C39'
LEVEL = 'exploration'
RULE = ('(a) setup(): every (m<=10, 0<=t<=m+1) x {-M/-I/-T, -P party list} x PRSS on/off enumerated, plus generated larger m; '
        '(b) generated SecFld argument combinations (order/modulus as int, polynomial, string, integer encoding/char/ext_deg/'
        'min_order/signed; consistent ones and single-argument corruptions) x (m in 1..129 incl. q^k-1, q^k, q^k+1; t in '
        '{0,1,max}) checked against the docstring rules, independent primality/irreducibility, lifting iff t>0 and m>=q with '
        '|F.field|>m, and a tiny simulator program whose outputs must lie in the requested field; (c) SecInt/SecFxp/SecFlt/'
        'SecFld/secure-group types for generated (m,t,sec_param 0..30): |sharing field| > m when t>0; non-trivial = t>=1 '
        '(setup: m>=2); distinct by case hash')
ASSUMPTIONS = ['refusal = any exception raised by the call (mpyc uses assert statements marked TODO for argument checks)',
               'non-prime fields with m >= order and t >= 1 are refused by mpyc (assert marked TODO): accepted as refusal',
               'minimality of the chosen characteristic / extension degree for min_order is not promised by the docstring: '
               'only order >= min_order is checked (non-minimal choices are counted by a label)',
               'negative thresholds are outside the statement (only 2t >= m must be refused)',
               'the signed flag is checked at return time of each SecFld call']
CASE_TIMEOUT = 150

SMALLP = [2, 2, 3, 3, 5, 7, 11, 13]
PRIMES = [2, 3, 5, 7, 11, 13, 17, 31, 61, 101, 127, 251, 257, 65521, 65537, 2**31 - 1, 2**61 - 1, 2**127 - 1]
EXT = [(2, 2), (2, 3), (2, 4), (2, 5), (2, 8), (2, 10), (3, 2), (3, 3), (3, 4), (5, 2), (5, 3), (7, 2), (11, 2), (13, 2),
       (31, 2), (101, 2), (251, 2)]
BIG_M = [8, 9, 10, 15, 16, 17, 24, 25, 26, 27, 31, 32, 33, 48, 49, 50, 63, 64, 65, 80, 81, 82, 120, 121, 122, 124, 125, 126, 127,
         128, 129]


def budget(tier):
    return dict(shards=16, examples=150 if tier == 'quick' else 2500)


# ------------------------------------------------------------------------------------------- setup()
def enumerate_cases(tier):
    mmax = 10 if tier == 'quick' else 14
    for m in range(1, mmax + 1):
        for form in ('M', 'P'):
            for prss in (False, True):
                yield dict(kind='setup-cell', m=m, form=form, prss=prss and m <= 12)


def _setup_args(m, t, form, prss, index):
    if form == 'M':
        args = ['-M', str(m), '-I', str(index)]
    else:
        args = []
        for i in range(m):
            args += ['-P', (f':{11400 + i}' if i == index else f'localhost:{11400 + i}')]
    if t is not None:
        args += ['-T', str(t)]
    if not prss:
        args.append('--no-prss')
    args.append('--no-log')
    return args


def _call_setup(args):
    """Run mpyc.runtime.setup() under a synthetic sys.argv; every touched global is restored.

    Returns (runtime or None, exception or None, installed) where installed tells whether the module-global runtime of
    mpyc.sectypes was replaced by the call."""
    import mpyc.runtime as rtm
    import mpyc.sectypes
    import mpyc.asyncoro
    import mpyc.mpctools
    import mpyc.seclists
    import mpyc.secpols
    import mpyc.secgroups
    import mpyc.random
    import mpyc.statistics
    mods = [mpyc.sectypes, mpyc.asyncoro, mpyc.mpctools, mpyc.seclists, mpyc.secpols, mpyc.secgroups, mpyc.random,
            mpyc.statistics]
    saved = [(mod, mod.runtime) for mod in mods]
    saved_argv = sys.argv
    saved_hop = mpyc.asyncoro._hop
    saved_env = os.environ.pop('MPYC_NOPRSS', None)
    real_get = asyncio.get_event_loop
    dummy = _types.SimpleNamespace(set_exception_handler=lambda h: None)
    asyncio.get_event_loop = lambda: dummy
    rt = exc = None
    try:
        sys.argv = ['prog.py'] + list(args)
        try:
            rt = rtm.setup()
        except BaseException as e:  # includes SystemExit of argparse
            if isinstance(e, KeyboardInterrupt) or type(e).__name__ == 'CaseTimeout':
                raise
            exc = e
        installed = mpyc.sectypes.runtime is not saved[0][1]
    finally:
        asyncio.get_event_loop = real_get
        sys.argv = saved_argv
        mpyc.asyncoro._hop = saved_hop
        if saved_env is not None:
            os.environ['MPYC_NOPRSS'] = saved_env
        for mod, r in saved:
            mod.runtime = r
        rtm.Runtime.prfs.cache_clear()
    return rt, exc, installed


def _check_setup(m, t, form, prss, index):
    """None if setup behaves as stated for this configuration, else a message."""
    args = _setup_args(m, t, form, prss, index)
    rt, exc, installed = _call_setup(args)
    teff = (m - 1) // 2 if t is None else t
    what = f'setup() with argv {args}'
    if 2 * teff >= m:
        if exc is None:
            return f'{what}: threshold {teff} with m={m} parties (2t >= m) was not refused'
        if isinstance(exc, SystemExit):
            return f'{what}: SystemExit {exc.code} instead of a refusal of the threshold'
        if installed:
            return f'{what}: refused ({type(exc).__name__}) but a runtime was installed in mpyc.sectypes'
        return None
    if exc is not None:
        return f'{what}: legal configuration (2t < m) raised {type(exc).__name__}: {exc}'
    if len(rt.parties) != m:
        return f'{what}: runtime has {len(rt.parties)} parties'
    if rt.threshold != teff or rt.options.threshold != teff:
        return f'{what}: runtime threshold {rt.threshold} (options {rt.options.threshold}), expected {teff}'
    if rt.pid != index:
        return f'{what}: runtime pid {rt.pid}, expected {index}'
    if [p.pid for p in rt.parties] != list(range(m)):
        return f'{what}: party ids {[p.pid for p in rt.parties]}'
    if bool(rt.options.no_prss) != (not prss):
        return f'{what}: no_prss={rt.options.no_prss}'
    if not installed:
        return f'{what}: returned runtime was not installed in mpyc.sectypes'
    return None


def _run_setup_cell(case):
    m, form, prss = case['m'], case['form'], case['prss']
    n = nt = 0
    for t in [None] + list(range(0, m + 2)):
        for index in sorted({0, m - 1, m // 2}):
            msg = _check_setup(m, t, form, prss, index)
            n += 1
            nt += m >= 2
            if msg:
                return Outcome(False, msg, labels=['setup'])
    return Outcome(True, labels=['setup', f'setup-m={m}'], n=n, n_nt=nt, exhaustive=True)


# ------------------------------------------------------------------------------------------- SecFld requests
def _poly_str(f, p):
    """Text of a polynomial (coefficients low first) in the format of mpyc.gfpx ('2x^2+x+1')."""
    terms = []
    for i in range(len(f) - 1, -1, -1):
        c = f[i] % p
        if not c:
            continue
        cs = '' if c == 1 and i > 0 else str(c)
        terms.append(cs + ('' if i == 0 else 'x' if i == 1 else f'x^{i}'))
    return '+'.join(terms) if terms else '0'


@st.composite
def _modulus_form(draw, p, d, f, req):
    """Add a modulus argument (and what it needs) to request req; f = coefficient list for d > 1."""
    if d == 1:
        req['modulus'] = ['int', p]
        return
    form = draw(st.sampled_from(['poly', 'poly', 'str', 'intenc']))
    if form == 'poly':
        g = list(f)
        if p > 2 and draw(st.integers(0, 5)) == 0:
            c = draw(st.integers(2, p - 1))
            g = [x * c % p for x in g]  # non-monic associate: same field
        req['modulus'] = ['poly', p, g]
    elif form == 'str':
        req['modulus'] = ['str', _poly_str(f, p), p, list(f)]
        if p != 2 or draw(st.booleans()):
            req['char'] = p  # a string is parsed over GF(char or 2)
    else:
        req['modulus'] = ['intenc', R.pto_int(tuple(f), p), p, list(f)]
        req['char'] = p  # "an integer > char" needs char


def _target_modulus(draw, p, d):
    if d == 1:
        return None
    return list(draw(st.sampled_from(FL.some_irreducibles(p, d))))


@st.composite
def _request(draw):
    """A consistent SecFld request (dict of JSON-encoded keyword arguments) built from a target field."""
    req = {}
    mode = draw(st.sampled_from(['order', 'order', 'modulus', 'modulus', 'params', 'params', 'minorder', 'minorder']))
    if draw(st.integers(0, 3)) == 0:
        req['signed'] = draw(st.booleans())
    if mode in ('order', 'modulus'):
        if draw(st.booleans()):
            p, d = draw(st.sampled_from(SMALLP + PRIMES)), 1
        else:
            p, d = draw(st.sampled_from(EXT))
        q = p ** d
        f = _target_modulus(draw, p, d)
        if mode == 'order':
            req['order'] = q
            if draw(st.integers(0, 2)) == 0:
                draw(_modulus_form(p, d, f, req))
        else:
            draw(_modulus_form(p, d, f, req))
            if draw(st.integers(0, 3)) == 0:
                req['order'] = q
        if draw(st.integers(0, 2)) == 0:
            req['char'] = p
        if draw(st.integers(0, 2)) == 0:
            req['ext_deg'] = d
        if draw(st.integers(0, 2)) == 0:
            req['min_order'] = draw(st.sampled_from([q, q, q - 1, 1, 2, max(1, q // 2), 0]))
    elif mode == 'params':
        which = draw(st.sampled_from(['none', 'char', 'deg', 'both']))
        if which in ('char', 'both'):
            req['char'] = draw(st.sampled_from(SMALLP + PRIMES[:12]))
        if which in ('deg', 'both'):
            p = req.get('char', 2)
            req['ext_deg'] = draw(st.sampled_from([1, 1, 2, 2, 3, 4, 5] if p <= 13 else [1, 2, 2]))
    else:
        which = draw(st.sampled_from(['only', 'only', 'deg', 'char', 'char', 'all']))
        if which == 'only':
            base = draw(st.sampled_from([0, 1, 2, 3, 4, 5, 7, 8, 9, 16, 25, 27, 32, 100, 101, 128, 251, 256, 257, 1000, 65521, 65536,
                                         65537, 2**20, 2**31 - 1, 2**31, 2**61 - 1, 2**61]))
            req['min_order'] = max(0, base + draw(st.sampled_from([-1, 0, 0, 1])))
        elif which == 'deg':
            d = draw(st.sampled_from([1, 2, 2, 3, 4]))
            r = draw(st.sampled_from([2, 3, 4, 5, 6, 7, 8, 9, 10, 11, 12, 13, 16, 17, 31, 32]))
            r = min(r, {1: 10**9, 2: 4000, 3: 60, 4: 60}[d])
            req['ext_deg'] = d
            req['min_order'] = max(0, r ** d + draw(st.sampled_from([-1, 0, 0, 1])))
        elif which == 'char':
            p = draw(st.sampled_from([2, 2, 3, 3, 5, 5, 7, 11, 13]))
            k = draw(st.integers(0, {2: 12, 3: 7, 5: 5, 7: 4, 11: 3, 13: 3}[p]))
            req['char'] = p
            req['min_order'] = max(1, p ** k + draw(st.sampled_from([-1, 0, 0, 1])))  # math.log(min_order, char) is used
        else:
            p = draw(st.sampled_from([2, 3, 5, 7]))
            d = draw(st.integers(1, 4))
            req['char'], req['ext_deg'] = p, d
            req['min_order'] = draw(st.sampled_from([p ** d, p ** d - 1, p ** (d - 1) + 1, 1, 0]))
    return req


@st.composite
def _corrupt(draw, req):
    """Change one argument of a consistent request (the result is usually inconsistent)."""
    req = dict(req)
    keys = [k for k in ('order', 'char', 'ext_deg', 'min_order', 'modulus') if k in req]
    k = draw(st.sampled_from(keys + ['add']))
    if k == 'add' or not keys:
        k = draw(st.sampled_from(['order', 'char', 'ext_deg', 'min_order']))
        req[k] = draw(st.sampled_from([2, 3, 4, 5, 6, 7, 8, 9, 12, 16, 25, 27]))
        return req
    v = req[k]
    if k == 'order':
        req[k] = draw(st.sampled_from([v + 1, v * 2, v * 3, 6, 12, 1, 4, 9, 7]))
    elif k == 'char':
        req[k] = draw(st.sampled_from([2, 3, 5, 7, 4, 9, 1, v + 1]))
    elif k == 'ext_deg':
        req[k] = draw(st.sampled_from([v + 1, max(1, v - 1), 2 * v, 1, 2, 3]))
    elif k == 'min_order':
        req[k] = draw(st.sampled_from([v + 1, 2 * v + 1, v * v + 1, 10**6]))
    else:
        form = v[0]
        if form == 'int':
            req[k] = ['int', draw(st.sampled_from([v[1] + 1, v[1] * 3, 15, 9, 1, 4, 21]))]
        else:
            p = v[1] if form == 'poly' else v[2]
            g = list(v[2] if form == 'poly' else v[3])
            how = draw(st.sampled_from(['reducible', 'degree']))
            if how == 'reducible':
                g = list(R.pmul((draw(st.integers(0, p - 1)), 1), (draw(st.integers(0, p - 1)), 1), p))  # (x+a)(x+b)
                g += [0] * 0
            else:
                g = list(FL.smallest_irreducible(p, len(g)))  # degree + 1
            if form == 'poly':
                req[k] = ['poly', p, g]
            elif form == 'str':
                req[k] = ['str', _poly_str(g, p), p, g]
            else:
                req[k] = ['intenc', R.pto_int(tuple(g), p), p, g]
    return req


@st.composite
def _config(draw, big=True):
    if big and draw(st.integers(0, 3)) == 0:
        m = draw(st.sampled_from(BIG_M))
    else:
        m = draw(st.sampled_from([1, 2, 3, 3, 4, 4, 5, 5, 6, 7, 7]))
    tmax = (m - 1) // 2
    t = draw(st.sampled_from(sorted({0, min(1, tmax), tmax}) + [tmax, min(1, tmax)]))
    return m, t


@st.composite
def _case(draw, tier):
    kind = draw(st.sampled_from(['secfld'] * 6 + ['lift'] * 3 + ['types'] * 3 + ['setup']))
    if kind == 'setup':
        m = draw(st.integers(11, 40))
        t = draw(st.sampled_from([None, 0, 1, (m - 1) // 2, (m - 1) // 2 + 1, m // 2, m - 1, m, m + 1, draw(st.integers(0, m + 1))]))
        return dict(kind='setup', m=m, t=t, form=draw(st.sampled_from(['M', 'P'])), prss=False,
                    index=draw(st.integers(0, m - 1)))
    if kind == 'types':
        m, t = draw(_config(big=False))
        k = draw(st.sampled_from([0, 0, 1, 2, 3, 8, 30]))
        items = []
        for _ in range(draw(st.integers(1, 4))):
            w = draw(st.sampled_from(['SecInt', 'SecInt', 'SecIntP', 'SecIntP', 'SecFxp', 'SecFlt', 'SecFld', 'SecSym', 'SecQR']))
            if w == 'SecInt':
                items.append([w, draw(st.integers(1, 8))])
            elif w == 'SecIntP':
                l = draw(st.integers(1, 3))
                p = draw(st.sampled_from([3, 5, 7, 11, 13, 17, 19, 23, 31, 37, 61, 67, 127, 131, 251, 257]))
                items.append([w, l, p])
            elif w == 'SecFxp':
                l = draw(st.integers(2, 8))
                items.append([w, l, draw(st.integers(1, l - 1))])
            elif w == 'SecFlt':
                items.append([w, draw(st.integers(2, 6)), draw(st.integers(1, 5))])
            elif w == 'SecFld':
                items.append([w, draw(st.sampled_from([2, 3, 5, 7, 8, 9, 11, 13, 16, 25, 27]))])
            elif w == 'SecSym':
                items.append([w, draw(st.integers(1, 9))])
            else:
                items.append([w, draw(st.sampled_from([3, 5, 7, 11, 23, 47, 59]))])
        return dict(kind='types', m=m, t=t, sec_param=k, items=items)
    if kind == 'lift':
        # small prime fields around the lifting boundary, large m included
        p = draw(st.sampled_from([2, 2, 3, 3, 5, 7, 11, 13]))
        ms = [x for x in ([3, 4, 5, 6, 7, 8] + BIG_M) if abs(x - p) <= 1 or x >= p] or [p]
        m = draw(st.sampled_from(ms + [p - 1, p, p + 1, p, p + 1]))
        m = max(m, 1)
        tmax = (m - 1) // 2
        t = draw(st.sampled_from([tmax, min(1, tmax), min(1, tmax), 0]))
        req = draw(st.sampled_from([{'order': p}, {'modulus': ['int', p]}, {'char': p}, {'min_order': p, 'char': p},
                                    {'order': p, 'signed': True}]))
        if p == 2 and draw(st.integers(0, 3)) == 0:
            req = {}
        run = m <= 7 and draw(st.booleans())
        return dict(kind='secfld', m=m, t=t, reqs=[dict(req)], consistent=[True], run=run,
                    seed=draw(st.integers(0, 2**16)), sender=draw(st.integers(0, m - 1)), value=draw(st.integers(0, 2**16)))
    m, t = draw(_config())
    reqs, cons = [], []
    for _ in range(draw(st.integers(1, 4))):
        r = draw(_request())
        if draw(st.integers(0, 3)) == 0:
            r0 = r
            r = draw(_corrupt(r0))
            if _in_f39a(r) and draw(st.integers(0, 2)):
                # known finding F39a: keep only a few of these; corrupt min_order instead
                r = dict(r0)
                r['min_order'] = 10**30
            cons.append(False)
        else:
            cons.append(True)
        reqs.append(r)
    run = m <= 7 and len(reqs) == 1 and cons[0] and draw(st.booleans())
    return dict(kind='secfld', m=m, t=t, reqs=reqs, consistent=cons, run=run, seed=draw(st.integers(0, 2**16)),
                sender=draw(st.integers(0, m - 1)), value=draw(st.integers(0, 2**16)))


def strategy(tier):
    return _case(tier)


# ------------------------------------------------------------------------------------------- SecFld oracle
def _kwargs(req):
    """JSON request -> keyword arguments for SecFld (mpyc objects)."""
    from mpyc import gfpx
    kw = {}
    for k, v in req.items():
        if k != 'modulus':
            kw[k] = v
        elif v[0] == 'int':
            kw[k] = v[1]
        elif v[0] == 'poly':
            kw[k] = gfpx.GFpX(v[1])(list(v[2]))
        elif v[0] == 'str':
            kw[k] = v[1]
        else:
            kw[k] = v[1]
    return kw


def _poly_coeffs(poly, p):
    v = poly.value
    if isinstance(v, int):
        return [(v >> i) & 1 for i in range(v.bit_length())]
    return [int(c) % p for c in v]


def _describe(fld):
    """Raw description of an mpyc field class."""
    p = fld.characteristic
    mod = fld.modulus
    return dict(order=fld.order, char=p, deg=fld.ext_deg, signed=fld.is_signed,
                modulus=mod if isinstance(mod, int) else _poly_coeffs(mod, p), name=fld.__name__)


def _irreducible(f, p):
    """True/False by brute force, None if too expensive."""
    d = len(f) - 1
    if d < 1:
        return False
    if p ** (d // 2) > 70000:
        return None
    return R.is_irreducible_bf(tuple(f), p)


def _valid_field(desc):
    """The description is that of a genuine finite field GF(p^d): p prime, modulus prime/irreducible of degree d."""
    p, d, q, mod = desc['char'], desc['deg'], desc['order'], desc['modulus']
    if not (isinstance(p, int) and R.is_prime(p)):
        return f'characteristic {p} is not prime'
    if not (isinstance(d, int) and d >= 1 and q == p ** d):
        return f'order {q} != {p}^{d}'
    if isinstance(mod, int):
        if mod != p or d != 1:
            return f'integer modulus {mod} for GF({p}^{d})'
        return None
    mod = list(mod)
    if len(mod) - 1 != d or not mod or mod[-1] % p == 0:
        return f'modulus {mod} is not of degree {d}'
    irr = _irreducible(tuple(x % p for x in mod), p)
    if irr is False:
        return f'modulus {mod} is reducible over GF({p})'
    return None


def _honours(req, desc):
    """None if the requested-field description honours every given argument and the documented defaults."""
    p, d, q = desc['char'], desc['deg'], desc['order']
    if 'order' in req and q != req['order']:
        return f"order {q} != requested {req['order']}"
    if 'char' in req and p != req['char']:
        return f"characteristic {p} != requested {req['char']}"
    if 'ext_deg' in req and d != req['ext_deg']:
        return f"extension degree {d} != requested {req['ext_deg']}"
    if req.get('min_order') is not None and q < req['min_order']:
        return f"order {q} < min_order {req['min_order']}"
    if desc['signed'] != bool(req.get('signed', False)):
        return f"is_signed {desc['signed']} != requested {bool(req.get('signed', False))}"
    mod = req.get('modulus')
    poly_given = False
    if mod is not None:
        want = None
        ch = _eff_char(req)
        if mod[0] in ('int', 'intenc'):
            if ch is not None and ch > 1 and mod[1] > ch:
                # "an integer > char": read as a polynomial with base-char digits
                want = list(R.pfrom_int(mod[1], ch))
            elif desc['modulus'] != mod[1] or d != 1:
                return f"modulus {desc['modulus']} (degree {d}) != requested prime modulus {mod[1]}"
        elif mod[0] == 'str':
            pm = ch or 2  # a string is parsed over GF(char or 2)
            want = list(R.ptrim([c % pm for c in mod[3]]))
        else:
            pm = mod[1]
            want = list(R.ptrim([c % pm for c in mod[2]]))
            if p != pm:
                return f'characteristic {p} != {pm} of the requested modulus'
        if want is not None:
            poly_given = True
            if desc['modulus'] != want:
                return f"modulus {desc['modulus']} != requested polynomial {want}"
    # documented defaults
    implied_ext = poly_given
    if 'order' in req:
        pp = _prime_power(req['order'])
        implied_ext = implied_ext or (pp is not None and pp[1] > 1)
    if req.get('ext_deg', 1) > 1:
        implied_ext = True
    if req.get('min_order') is not None and 'char' in req and req['min_order'] > req['char'] and mod is None \
            and 'order' not in req:
        implied_ext = True
        if d < 2:
            return f"min_order {req['min_order']} > char {req['char']} but extension degree {d}"
    if not implied_ext and d != 1:
        return f'field is not prime (d={d}) although nothing in the request asks for an extension'
    if 'order' not in req and mod is None and 'char' not in req and req.get('min_order') is None and p != 2:
        return f'default characteristic is 2, got {p}'
    return None


def _iroot(n, d):
    lo, hi = 1, 1 << (n.bit_length() // d + 1)
    while lo < hi:
        mid = (lo + hi + 1) // 2
        if mid ** d <= n:
            lo = mid
        else:
            hi = mid - 1
    return lo


def _prime_power(n):
    """(p, d) with n == p**d, p prime; None if n is not a prime power (no trial division of big numbers)."""
    if n < 2:
        return None
    for d in range(n.bit_length(), 0, -1):
        r = _iroot(n, d)
        if r >= 2 and r ** d == n and R.is_prime(r):
            return r, d
    return None


def _eff_char(req):
    """The characteristic known before the modulus is interpreted: char, else the prime of order, else None."""
    if req.get('char'):
        return req['char']
    if 'order' in req:
        pp = _prime_power(req['order'])
        if pp is not None:
            return pp[0]
    return None


def _poly_modulus_degree(req):
    """(p, degree) of the polynomial a modulus argument denotes, or None if it is absent / a prime integer."""
    mod = req.get('modulus')
    if mod is None:
        return None
    ch = _eff_char(req)
    if mod[0] in ('int', 'intenc'):
        if ch is not None and ch > 1 and mod[1] > ch:
            return ch, len(R.pfrom_int(mod[1], ch)) - 1
        return None
    if mod[0] == 'str':
        pm = ch or 2
        return pm, len(R.ptrim([c % pm for c in mod[3]])) - 1
    return mod[1], len(R.ptrim([c % mod[1] for c in mod[2]])) - 1


def _in_f39a(req):
    """Class of known finding F39a: polynomial modulus whose degree contradicts ext_deg or the degree of order."""
    pd = _poly_modulus_degree(req)
    if pd is None:
        return False
    p, dm = pd
    if 'ext_deg' in req and req['ext_deg'] != dm:
        return True
    if 'order' in req and req['order'] > 1:
        pp = _prime_power(req['order'])
        if pp is not None and pp[0] == p and pp[1] != dm:
            return True
    return False


def _check_type(req, consistent, m, t, res):
    """res = ('exc', text) or ('ok', info) from constructing SecFld(**req) with m parties, threshold t."""
    if res[0] == 'exc':
        if not consistent:
            return None, ['refused-inconsistent']
        # consistent request: only the unsupported configuration may be refused
        exp = res[2]
        if exp is not None and exp['deg'] > 1 and t > 0 and m >= exp['order'] and res[1].startswith('AssertionError'):
            return None, ['unsupported-nonprime-small']
        return f'consistent request {req} refused: {res[1]}', []
    info = res[1]
    labels = []
    reqd = info['req']
    msg = _valid_field(reqd)
    if msg:
        return f'request {req}: requested field invalid: {msg} ({reqd})', labels
    msg = _honours(req, reqd)
    if msg:
        return f'request {req} (m={m}, t={t}): {msg}; got {reqd}', labels
    if not consistent:
        labels.append('corrupted-but-satisfiable')
    q, p = reqd['order'], reqd['char']
    lifted = t > 0 and m >= q
    if info['lifted'] != lifted:
        return f'request {req}: m={m}, t={t}, q={q}: lifted={info["lifted"]}, expected {lifted}', labels
    sh = info['share']
    if lifted:
        labels.append('lifted')
        msg = _valid_field(sh)
        if msg:
            return f'request {req}: lifted field invalid: {msg} ({sh})', labels
        if sh['char'] != p or sh['deg'] < 2 or sh['order'] <= m:
            return f'request {req}: m={m}, t={t}: lifted field {sh} (need characteristic {p}, degree >= 2, order > m)', labels
        if p ** (sh['deg'] - 1) > m and sh['deg'] > 2:
            labels.append('lift-degree-not-minimal')
        if not info['has_out_conv']:
            return f'request {req}: lifted type without output conversion', labels
    else:
        if sh != reqd:
            return f'request {req}: not lifted but sharing field {sh} differs from requested field {reqd}', labels
    if t > 0 and sh['order'] <= m:
        return f'request {req}: sharing field of order {sh["order"]} with m={m} parties and t={t}', labels
    # soft facts (not promised): minimality for min_order
    mo = req.get('min_order')
    if mo is not None and 'order' not in req and 'modulus' not in req:
        d = reqd['deg']
        if 'char' in req and 'ext_deg' not in req and d > 1 and p ** (d - 1) >= mo:
            labels.append('min_order-degree-not-minimal')
        if 'char' not in req:
            pp = R.prev_prime(p)
            if pp is not None and pp ** d >= mo:
                labels.append('min_order-char-not-minimal')
    return None, labels


def _expected_desc(req):
    """Field determined by a consistent request where the docstring determines it (else None)."""
    try:
        if 'order' in req:
            p, d = _prime_power(req['order'])
            return dict(order=req['order'], deg=d, char=p)
        mod = req.get('modulus')
        if mod is not None:
            if mod[0] == 'int':
                return dict(order=mod[1], deg=1, char=mod[1])
            p = mod[1] if mod[0] == 'poly' else mod[2]
            d = len(mod[2] if mod[0] == 'poly' else mod[3]) - 1
            return dict(order=p ** d, deg=d, char=p)
        if req.get('min_order') is None:
            p, d = req.get('char', 2), req.get('ext_deg', 1)
            return dict(order=p ** d, deg=d, char=p)
        mo = req['min_order']
        if 'char' in req:
            p = req['char']
            if p < 2:
                return None
            d = req.get('ext_deg')
            if d is None:
                d = 1
                while p ** d < mo:
                    d += 1
            return dict(order=p ** d, deg=d, char=p)
        d = req.get('ext_deg', 1)
        p = 2
        while p ** d < mo:
            p = R.next_prime(p)
        return dict(order=p ** d, deg=d, char=p)
    except Exception:
        pass
    return None


def _construct(rt, req):
    try:
        F = rt.SecFld(**_kwargs(req))
    except Exception as exc:
        return ('exc', f'{type(exc).__name__}: {exc}', _expected_desc(req))
    reqf = F.subfield if F.subfield is not None else F.field
    return ('ok', dict(req=_describe(reqf), share=_describe(F.field), lifted=F.subfield is not None,
                       has_out_conv=F._output_conversion is not None, name=F.__name__))


def _run_secfld(case):
    m, t = case['m'], case['t']
    labels = [f'm={m}' if m <= 7 else 'm>7', f't={min(t, 3)}' + ('+' if t > 3 else ''), 'secfld']
    n = 0
    sim = simmod.Sim(m, t, prss=False, seed=case.get('seed', 0), schedule={'mode': 'fast'})
    try:
        sim.current = 0
        rt = sim.runtimes[0]
        results = [_construct(rt, req) for req in case['reqs']]
    finally:
        sim.close()
    known = None
    for req, cons, res in zip(case['reqs'], case['consistent'], results):
        msg, lbs = _check_type(req, cons, m, t, res)
        labels += lbs
        labels += ['arg=' + k for k in sorted(req)] or ['arg=none']
        if 'modulus' in req:
            labels.append('modulus=' + req['modulus'][0])
        labels.append('consistent' if cons else 'corrupted')
        if msg:
            if not cons and _in_f39a(req) and res[0] == 'ok' and ('extension degree' in msg or 'order' in msg):
                labels.append('F39a-class')
                known = known or f'{msg}\ncase={case}'
                continue
            return Outcome(False, f'{msg}\ncase={case}', labels=labels)
        n += 1
    if known:
        return Outcome(False, 'SecFld ignores ext_deg/order when they contradict the degree of a polynomial modulus: ' + known,
                       labels=labels, known='F39a')
    if case.get('run') and results[0][0] == 'ok':
        msg = _run_program(case, results[0][1])
        labels.append('program-run')
        if msg:
            return Outcome(False, f'{msg}\ncase={case}', labels=labels)
        n += 1
    return Outcome(True, labels=labels, nontrivial=t >= 1, n=max(n, 1))


def _elem_enc(e, p):
    v = e.value
    if isinstance(v, int):
        return v % p
    pv = v.value
    if isinstance(pv, int):
        return pv
    r = 0
    for c in reversed(list(pv)):
        r = r * p + int(c)
    return r


def _run_program(case, info):
    """input -> x*x + x -> output on the constructed type: outputs must be elements of the requested field."""
    m, t, req = case['m'], case['t'], case['reqs'][0]
    d = info['req']
    p, q = d['char'], d['order']
    spec = {'p': p} if isinstance(d['modulus'], int) else {'p': p, 'f': [c % p for c in d['modulus']]}
    if 'f' in spec and spec['f'][-1] != 1:
        inv = pow(spec['f'][-1], -1, p)
        spec['f'] = [c * inv % p for c in spec['f']]  # same field: monic associate for the reference
    v = case['value'] % q
    s = case['sender'] % m

    async def prog(mpc, pid):
        F = mpc.SecFld(**_kwargs(req))
        reqf = F.subfield if F.subfield is not None else F.field
        x = mpc.input(F(v if pid == s else None), senders=s)
        y = x * x + x
        o = await mpc.output([x, y])
        r = await mpc.output(y, raw=True)
        return [[type(e) is reqf, type(e).__name__, _elem_enc(e, p)] for e in o] + [[type(r) is F.field, type(r).__name__, 0]]

    sim = simmod.Sim(m, t, prss=bool(case['seed'] & 1), seed=case['seed'], schedule={'mode': 'fast'})
    try:
        res = sim.run_programs(prog)
    finally:
        sim.close()
    if res.inconclusive:
        return None
    if not res.all_done:
        return f'program on SecFld({req}) did not complete: {res.describe()}'
    rf = LG.ref_for(spec)
    if rf.kind == 'ext':
        a = rf.F.red(R.pfrom_int(v, p))
        want_y = R.pto_int(rf.add(rf.mul(a, a), a), p)
    else:
        a = rf.conv(v)
        want_y = rf.add(rf.mul(a, a), a)
    for i, val in enumerate(res.values):
        (okx, nx, ex), (oky, ny, ey), (okr, nr, _) = val
        if not (okx and oky):
            return f'party {i}: outputs of types {nx}, {ny}: not elements of the requested field {d["name"]}'
        if not okr:
            return f'party {i}: raw output of type {nr}, not an element of the sharing field'
        if ex != v or ey != want_y:
            return f'party {i}: opened x={ex}, x*x+x={ey}; reference {v}, {want_y}'
    return None


# ------------------------------------------------------------------------------------------- other secure types
def _run_types(case):
    m, t, k = case['m'], case['t'], case['sec_param']
    labels = [f'm={m}', f't={min(t, 3)}', f'k={k}', 'types']
    sim = simmod.Sim(m, t, prss=False, seed=0, schedule={'mode': 'fast'}, sec_param=k)
    out = []
    try:
        sim.current = 0
        rt = sim.runtimes[0]
        for it in case['items']:
            w = it[0]
            try:
                if w == 'SecInt':
                    T = rt.SecInt(it[1])
                    flds = [T.field]
                elif w == 'SecIntP':
                    T = rt.SecInt(it[1], p=it[2])
                    flds = [T.field]
                elif w == 'SecFxp':
                    T = rt.SecFxp(it[1], it[2])
                    flds = [T.field]
                elif w == 'SecFlt':
                    T = rt.SecFlt(s=it[1], e=it[2])
                    flds = [T.significand_type.field, T.exponent_type.field]
                elif w == 'SecFld':
                    T = rt.SecFld(it[1])
                    flds = [T.field]
                elif w == 'SecSym':
                    T = rt.SecSymmetricGroup(it[1])
                    flds = [T.sectype.field]
                else:
                    T = rt.SecQuadraticResidues(it[1])
                    flds = [T.sectype.field]
                out.append(('ok', [f.order for f in flds], T.__name__))
            except Exception as exc:
                out.append(('exc', f'{type(exc).__name__}: {exc}'))
    finally:
        sim.close()
    n = 0
    for it, r in zip(case['items'], out):
        labels.append('type=' + it[0])
        if r[0] == 'ok':
            if t > 0 and any(q <= m for q in r[1]):
                return Outcome(False, f'{it} with m={m}, t={t}, sec_param={k}: type {r[2]} shares over a field of order '
                               f'{r[1]} <= m\ncase={case}', labels=labels)
            n += 1
            continue
        labels.append('refused')
        # a refusal must be justified: the natural field can have at most m elements (or the parameters are invalid)
        w = it[0]
        just = False
        if w == 'SecInt':
            just = t > 0 and 2 ** (it[1] + k + 2 - 1) <= m
        elif w == 'SecIntP':
            just = it[2].bit_length() <= it[1] + k + 1 or (t > 0 and it[2] <= m)
        elif w == 'SecFxp':
            just = t > 0 and 2 ** (it[1] + it[2] + k + 2 - 1) <= m
        elif w == 'SecFlt':
            just = t > 0 and (2 ** (it[1] + 1 + it[1] - 1 + k + 2 - 1) <= m or 2 ** (it[2] + k + 2 - 1) <= m)
        elif w == 'SecFld':
            just = t > 0 and m >= it[1] and _prime_power(it[1])[1] > 1  # non-prime small field: unsupported
        if not just:
            return Outcome(False, f'{it} with m={m}, t={t}, sec_param={k}: refused without need: {r[1]}\ncase={case}',
                           labels=labels)
        n += 1
    return Outcome(True, labels=labels, nontrivial=t >= 1, n=max(n, 1))


# ------------------------------------------------------------------------------------------- dispatch
def run_case(case):
    kind = case['kind']
    if kind == 'setup-cell':
        return _run_setup_cell(case)
    if kind == 'setup':
        msg = _check_setup(case['m'], case['t'], case['form'], case['prss'], case['index'])
        teff = (case['m'] - 1) // 2 if case['t'] is None else case['t']
        labels = ['setup', 'setup-big-m', 'legal' if 2 * teff < case['m'] else 'illegal']
        if msg:
            return Outcome(False, f'{msg}\ncase={case}', labels=labels)
        return Outcome(True, labels=labels, nontrivial=True)
    if kind == 'secfld':
        return _run_secfld(case)
    return _run_types(case)
